"""Catalogue of seeded variants (E8).  Text anchored edits on /repo/processscheduler; a
variant whose anchor no longer exists is skipped, never failed."""

def B(id, props, file, old, new, expect=None, occurrence=1):
    return {"id": id, "kind": "break", "props": props, "file": file, "old": old, "new": new,
            "expect": expect or [], "occurrence": occurrence}

def T(id, props, file, old, new, occurrence=1):
    return {"id": id, "kind": "twin", "props": props, "file": file, "old": old, "new": new,
            "occurrence": occurrence}

TC = "task_constraint.py"
MUTANTS = [
    # ---- C03 ----------------------------------------------------------------------
    B("c03-precedence-strict-as-lax", ["C03"], TC, "scheduled_assertion = lower < upper", "scheduled_assertion = lower <= upper"),
    B("c03-precedence-offset-subtracted", ["C03"], TC, "self.task_before._end + self.offset", "self.task_before._end - self.offset"),
    B("c03-precedence-tight-as-lax", ["C03"], TC, "scheduled_assertion = lower == upper", "scheduled_assertion = lower <= upper"),
    B("c03-startafter-strict-ge", ["C03"], TC, "scheduled_assertion = self.task._start > self.value", "scheduled_assertion = self.task._start >= self.value"),
    B("c03-endbefore-lax-lt", ["C03"], TC, "scheduled_assertion = self.task._end <= self.value", "scheduled_assertion = self.task._end < self.value"),
    B("c03-startat-uses-end", ["C03"], TC, "scheduled_assertion = self.task._start == self.value", "scheduled_assertion = self.task._end == self.value"),
    B("c03-endsynced-start", ["C03"], TC, "scheduled_assertion = self.task_1._end == self.task_2._end", "scheduled_assertion = self.task_1._end == self.task_2._start"),
    B("c03-dontoverlap-and", ["C03"], TC, "scheduled_assertion = z3.Xor(\n            self.task_2._start >= self.task_1._end,", "scheduled_assertion = z3.And(\n            self.task_2._start >= self.task_1._end,"),
    B("c03-dontoverlap-strict", ["C03"], TC, "self.task_2._start >= self.task_1._end,", "self.task_2._start > self.task_1._end,"),
    B("c03-contiguous-from-2", ["C03"], TC, "for i in range(1, len(sorted_starts)):\n            asst = sorted_starts[i] == sorted_ends[i - 1]\n            #  another", "for i in range(2, len(sorted_starts)):\n            asst = sorted_starts[i] == sorted_ends[i - 1]\n            #  another"),
    B("c03-group-end-uses-start", ["C03"], TC, "task._end <= self._end,", "task._start <= self._end,"),
    B("c03-ordered-group-skip-last", ["C03"], TC, "for i in range(len(self.list_of_tasks) - 1):", "for i in range(len(self.list_of_tasks) - 2):"),
    B("c03-ordered-group-strict-as-lax", ["C03"], TC, "self.list_of_tasks[i]._end < self.list_of_tasks[i + 1]._start", "self.list_of_tasks[i]._end <= self.list_of_tasks[i + 1]._start"),
    B("c03-group-window-upper", ["C03"], TC, "self._end <= self.time_interval[1],", "self._end <= self.time_interval[0],"),
    B("c03-nintervals-pb-swapped", ["C03"], TC, 'problem_function = {"min": z3.PbGe, "max": z3.PbLe, "exact": z3.PbEq}\n\n        # count', 'problem_function = {"min": z3.PbLe, "max": z3.PbGe, "exact": z3.PbEq}\n\n        # count'),
    B("c03-nintervals-start-strict", ["C03"], TC, "task._start >= lower_bound,\n                    task._end <= upper_bound,", "task._start > lower_bound,\n                    task._end <= upper_bound,"),
    B("c03-startafter-elif-removed", ["C03"], TC, '        if self.kind == "strict":\n            scheduled_assertion = self.task._start > self.value\n        elif self.kind == "lax":', '        if self.kind == "strict":\n            scheduled_assertion = self.task._start > self.value\n        elif self.kind == "laxx":'),
    T("c03-twin-flip-compare", ["C03"], TC, "scheduled_assertion = lower <= upper", "scheduled_assertion = upper >= lower"),
    T("c03-twin-lt-as-le-minus-one", ["C03"], TC, "scheduled_assertion = lower < upper", "scheduled_assertion = lower + 1 <= upper"),
    T("c03-twin-temp-var", ["C03"], TC, "scheduled_assertion = self.task._start == self.value\n", "the_start = self.task._start\n        scheduled_assertion = the_start == self.value\n"),
    T("c03-twin-range-shift", ["C03"], TC, "for i in range(1, len(sorted_starts)):\n            asst = sorted_starts[i] == sorted_ends[i - 1]\n            #  another set of conditions, related to the time periods\n            condition_only_scheduled_tasks = z3.And(\n                sorted_ends[i - 1] >= 0, sorted_starts[i] >= 0\n            )", "for i in range(len(sorted_starts) - 1):\n            asst = sorted_starts[i + 1] == sorted_ends[i]\n            #  another set of conditions, related to the time periods\n            condition_only_scheduled_tasks = z3.And(\n                sorted_ends[i] >= 0, sorted_starts[i + 1] >= 0\n            )"),
    T("c03-twin-or-instead-of-xor", ["C03"], TC, "scheduled_assertion = z3.Xor(\n            self.task_2._start >= self.task_1._end,", "scheduled_assertion = z3.Or(\n            self.task_2._start >= self.task_1._end,"),
    T("c03-twin-always-guarded", ["C03"], TC, "        if self.task.optional:\n            self.set_z3_assertions(\n                z3.Implies(self.task._scheduled, scheduled_assertion)\n            )\n        else:\n            self.set_z3_assertions(scheduled_assertion)\n\n\nclass TaskStartAfter", "        self.set_z3_assertions(\n            z3.Implies(self.task._scheduled, scheduled_assertion)\n        )\n\n\nclass TaskStartAfter"),
]

TK = "task.py"
SV = "solver.py"
IND = "indicator.py"
OBJ = "objective.py"
MUTANTS += [
    # ---- C01 ----------------------------------------------------------------------
    B("c01-fixed-drop-start-ge-0", ["C01"], TK, "            self._end - self._start == self.duration,\n            self._start >= 0,\n", "            self._end - self._start == self.duration,\n"),
    B("c01-fixed-duration-off", ["C01"], TK, "self._end - self._start == self.duration,", "self._end - self._start >= self.duration,"),
    B("c01-variable-min-strict", ["C01", "C05"], TK, "self._duration >= self.min_duration,", "self._duration > self.min_duration,", expect=["R-TASK-OBLIG", "R-TASK-EXACT"]),
    B("c01-variable-skip-max", ["C01"], TK, "        if self.max_duration is not None:\n            assertions.append(self._duration <= self.max_duration)\n", "        if self.max_duration is not None:\n            pass\n"),
    B("c01-variable-allowed-partial", ["C01"], TK, "self._duration == duration for duration in self.allowed_durations\n", "self._duration >= duration for duration in self.allowed_durations\n"),
    B("c01-variable-sum-wrong", ["C01"], TK, "self._start + self._duration == self._end,", "self._start + self._duration <= self._end,"),
    B("c01-zero-drop-start-ge-0", ["C01"], TK, "            self._start == self._end,\n            self._start >= 0,\n        ]", "            self._start == self._end,\n        ]"),
    B("c01-zero-bypasses-set-assertions", ["C01", "C06"], TK, "            self._start == self._end,\n            self._start >= 0,\n        ]\n\n        self.set_assertions(assertions)", "            self._start == self._end,\n            self._start >= 0,\n        ]\n\n        self.append_z3_list_of_assertions(assertions)"),
    B("c01-zero-drop-equal", ["C01"], TK, "            self._start == self._end,\n            self._start >= 0,", "            self._start <= self._end,\n            self._start >= 0,"),
    B("c01-release-wrong-point", ["C01"], TK, "self._release_due_assertions.append(self._start >= self.release_date)", "self._release_due_assertions.append(self._end >= self.release_date)"),
    B("c01-release-guard-wider", ["C01"], TK, "if self.release_date > 0:  # other wise redundant constraint", "if self.release_date > 1:  # other wise redundant constraint"),
    B("c01-deadline-on-start", ["C01"], TK, "self._release_due_assertions.append(self._end <= self.due_date)", "self._release_due_assertions.append(self._start <= self.due_date)"),
    B("c01-deadline-inverted-flag", ["C01"], TK, "            if self.due_date_is_deadline:\n", "            if not self.due_date_is_deadline:\n"),
    B("c01-release-list-not-merged", ["C01"], TK, "        list_of_z3_assertions = list_of_z3_assertions + self._release_due_assertions\n", ""),
    B("c01-horizon-on-start", ["C01"], SV, "self.append_z3_assertion(task._end <= self.problem._horizon)", "self.append_z3_assertion(task._start <= self.problem._horizon)"),
    B("c01-horizon-only-mandatory", ["C01"], SV, "            self.append_z3_assertion(task._end <= self.problem._horizon)", "            if not task.optional:\n                self.append_z3_assertion(task._end <= self.problem._horizon)"),
    B("c01-task-drain-filtered", ["C01"], SV, "        for task in self.problem.tasks.values():\n            self.append_z3_assertion(task.get_z3_assertions())", "        for task in self.problem.tasks.values():\n            if task.work_amount == 0:\n                self.append_z3_assertion(task.get_z3_assertions())"),
    B("c01-problem-horizon-bound-dropped", ["C01"], "problem.py", "            self.append_z3_assertion(self._horizon <= self.horizon)", "            pass"),
    B("c01-problem-assertions-not-drained", ["C01"], SV, "        for z3_assertion in self.problem.get_z3_assertions():\n            self.append_z3_assertion(z3_assertion)", "        for z3_assertion in self.problem.get_z3_assertions()[1:]:\n            self.append_z3_assertion(z3_assertion)"),
    T("c01-twin-duration-flip", ["C01", "C05"], TK, "self._end - self._start == self.duration,", "self.duration == self._end - self._start,"),
    T("c01-twin-variable-as-difference", ["C01", "C05"], TK, "self._start + self._duration == self._end,", "self._end - self._start == self._duration,"),
    T("c01-twin-zero-as-difference", ["C01", "C05"], TK, "            self._start == self._end,\n            self._start >= 0,", "            self._end - self._start == 0,\n            0 <= self._start,"),
    T("c01-twin-horizon-ge", ["C01"], SV, "self.append_z3_assertion(task._end <= self.problem._horizon)", "self.append_z3_assertion(self.problem._horizon >= task._end)"),
    T("c01-twin-drain-one-loop", ["C01"], SV, "        for ress in self.problem.workers.values():\n            self.append_z3_assertion(ress.get_z3_assertions())\n\n        # process resource intervals\n        for ress in self.problem.workers.values():\n", "        for ress in self.problem.workers.values():\n            self.append_z3_assertion(ress.get_z3_assertions())\n"),
    # ---- C06 ----------------------------------------------------------------------
    B("c06-startat-guard-dropped", ["C06"], TC, "            self.set_z3_assertions(\n                z3.Implies(self.task._scheduled, scheduled_assertion)\n            )\n        else:\n            self.set_z3_assertions(scheduled_assertion)\n\n\nclass TaskStartAfter", "            self.set_z3_assertions(scheduled_assertion)\n        else:\n            self.set_z3_assertions(scheduled_assertion)\n\n\nclass TaskStartAfter"),
    B("c06-precedence-one-flag", ["C06"], TC, "z3.And(self.task_before._scheduled, self.task_after._scheduled),\n                    scheduled_assertion,", "z3.And(self.task_before._scheduled),\n                    scheduled_assertion,"),
    B("c06-startsynced-inverted-test", ["C06"], TC, "        if self.task_1.optional or self.task_2.optional:\n            # both tasks must be scheduled so that the startsynced", "        if self.task_1.optional and self.task_2.optional:\n            # both tasks must be scheduled so that the startsynced"),
    B("c06-flowtime-drop-flag", ["C06"], OBJ, "task_ends.append(task._end * task._scheduled)", "task_ends.append(task._end)"),
    B("c06-priorities-drop-flag", ["C06"], OBJ, "all_priorities.append(task._end * task.priority * task._scheduled)", "all_priorities.append(task._end * task.priority)"),
    B("c06-tardiness-drop-flag", ["C06"], IND, "z3.And(t._end > t.due_date, t._scheduled),", "z3.And(t._end > t.due_date),"),
    B("c06-earliness-drop-flag", ["C06"], IND, "z3.And(t.due_date - t._end >= 0, t._scheduled),", "z3.And(t.due_date - t._end >= 0),"),
    B("c08-tasks-assigned-always", ["C08"], IND, "z3.If(start > -1, 1, 0)", "z3.If(True, 1, 0)"),
    B("c06-release-outside-if", ["C06"], TK, "self._release_due_assertions.append(self._start >= self.release_date)", "self.append_z3_assertion(self._start >= self.release_date)"),
    B("c06-zero-task-no-set-assertions", ["C06", "C01"], TK, "            self._start == self._end,\n            self._start >= 0,\n        ]\n\n        self.set_assertions(assertions)", "            self._start == self._end,\n            self._start >= 0,\n        ]\n\n        self.append_z3_list_of_assertions(assertions)"),
    B("c06-unscheduled-end-not-moved", ["C06"], TK, "                not_scheduled_assertion = z3.And(\n                    self._start == point_in_past,  # to past\n                    self._end == point_in_past,  # to past\n                )", "                not_scheduled_assertion = z3.And(\n                    self._start == point_in_past,  # to past\n                )"),
    B("c06-variable-unscheduled-duration-free", ["C06"], TK, "                    self._end == point_in_past,  # to past\n                    self._duration == 0,\n", "                    self._end == point_in_past,  # to past\n"),
    B("c06-force-schedule-negated", ["C06"], TC, "self.set_z3_assertions(self.task._scheduled == self.to_be_scheduled)", "self.set_z3_assertions(self.task._scheduled != self.to_be_scheduled)"),
    B("c06-condition-schedule-one-way", ["C06"], TC, "                self.task._scheduled == True,\n                self.task._scheduled == False,", "                self.task._scheduled == True,\n                True,"),
    B("c06-dependency-one-way", ["C06"], TC, "self.set_z3_assertions(self.task_1._scheduled == self.task_2._scheduled)", "self.set_z3_assertions(z3.Implies(self.task_1._scheduled, self.task_2._scheduled))"),
    B("c06-dependency-wrong-task", ["C06"], TC, "self.set_z3_assertions(self.task_1._scheduled == self.task_2._scheduled)", "self.set_z3_assertions(self.task_1._scheduled == self.task_1._scheduled)"),
    B("c06-force-n-pb-table", ["C06"], TC, 'problem_function = {"min": z3.PbGe, "max": z3.PbLe, "exact": z3.PbEq}\n\n        # first check that all tasks from the list_of_optional_tasks', 'problem_function = {"min": z3.PbGe, "max": z3.PbLe, "exact": z3.PbLe}\n\n        # first check that all tasks from the list_of_optional_tasks'),
    B("c06-force-schedule-accepts-mandatory", ["C06", "C18"], TC, '        if not self.task.optional:\n            raise TypeError(f"Task {self.task.name} must be optional.")\n\n        self.set_z3_assertions(self.task._scheduled == self.to_be_scheduled)', '        self.set_z3_assertions(self.task._scheduled == self.to_be_scheduled)'),
    B("c06-interrupted-min-duration-unguarded", ["C06"], "resource_constraint.py", "                    if task.optional:\n                        # the duration of a task that is not scheduled is 0\n                        min_duration_cond = z3.Implies(\n                            task._scheduled, min_duration_cond\n                        )\n", ""),
    T("c06-twin-guard-as-or", ["C06", "C03"], TC, "z3.Implies(self.task._scheduled, scheduled_assertion)\n            )\n        else:\n            self.set_z3_assertions(scheduled_assertion)\n\n\nclass TaskStartAfter", "z3.Implies(z3.And(self.task._scheduled), scheduled_assertion)\n            )\n        else:\n            self.set_z3_assertions(scheduled_assertion)\n\n\nclass TaskStartAfter"),
    T("c06-twin-flag-first-in-product", ["C06"], OBJ, "task_ends.append(task._end * task._scheduled)", "task_ends.append(task._scheduled * task._end)"),
]

FOL = "first_order_logic.py"
CN = "constraint.py"
MUTANTS += [
    # ---- C10 ----------------------------------------------------------------------
    B("c10-or-builds-and", ["C10"], FOL, "        asst = z3.Or(\n            [\n                z3.And(_get_assertions(constraint))", "        asst = z3.And(\n            [\n                z3.And(_get_assertions(constraint))"),
    B("c10-or-flattens-operands", ["C10"], FOL, "        asst = z3.Or(\n            [\n                z3.And(_get_assertions(constraint))\n                for constraint in self.list_of_constraints\n            ]\n        )", "        asst = z3.Or(_constraints_to_list_of_assertions(self.list_of_constraints))"),
    B("c10-and-builds-or", ["C10"], FOL, "asst = z3.And(_constraints_to_list_of_assertions(self.list_of_constraints))", "asst = z3.Or(_constraints_to_list_of_assertions(self.list_of_constraints))"),
    B("c10-ifthenelse-swapped", ["C10"], FOL, "            z3.And(_constraints_to_list_of_assertions(self.then_list_of_constraints)),\n            z3.And(_constraints_to_list_of_assertions(self.else_list_of_constraints)),", "            z3.And(_constraints_to_list_of_assertions(self.else_list_of_constraints)),\n            z3.And(_constraints_to_list_of_assertions(self.then_list_of_constraints)),"),
    B("c10-implies-reversed", ["C10"], FOL, "        asst = z3.Implies(\n            self.condition,\n            z3.And(_constraints_to_list_of_assertions(self.list_of_constraints)),\n        )", "        asst = z3.Implies(\n            z3.And(_constraints_to_list_of_assertions(self.list_of_constraints)),\n            self.condition,\n        )"),
    B("c10-not-dropped", ["C10"], FOL, "asst = z3.Not(z3.And(_get_assertions(self.constraint)))", "asst = z3.And(_get_assertions(self.constraint))"),
    B("c10-xor-same-operand", ["C10"], FOL, "            z3.And(_get_assertions(self.constraint_1)),\n            z3.And(_get_assertions(self.constraint_2)),", "            z3.And(_get_assertions(self.constraint_1)),\n            z3.And(_get_assertions(self.constraint_1)),"),
    B("c10-no-tag", ["C10"], FOL, "        constraint.set_created_from_assertion()\n", "        pass\n"),
    B("c10-tag-method-noop", ["C10"], CN, "        self._created_from_assertion = True\n", "        self._created_from_assertion = False\n"),
    B("c10-drain-filter-removed", ["C10"], SV, "            for c in self.problem.constraints.values()\n            if not c._created_from_assertion\n", "            for c in self.problem.constraints.values()\n"),
    B("c10-drain-filter-inverted", ["C10", "C01"], SV, "            if not c._created_from_assertion\n", "            if c._created_from_assertion\n"),
    B("c10-optional-emits-bare", ["C10"], CN, "            self.append_z3_assertion(z3.Implies(self._applied, list_of_z3_assertions))", "            self.append_z3_assertion(list_of_z3_assertions)"),
    B("c10-optional-implication-reversed", ["C10"], CN, "z3.Implies(self._applied, list_of_z3_assertions)", "z3.Implies(list_of_z3_assertions, self._applied)"),
    B("c10-indicator-target-direct", ["C10"], "indicator_constraint.py", "self.set_z3_assertions(self.indicator._indicator_variable == self.value)", "self.append_z3_assertion(self.indicator._indicator_variable == self.value)"),
    B("c10-expression-negated", ["C10"], CN, "        self.set_z3_assertions(self.expression)", "        self.set_z3_assertions(z3.Not(self.expression))"),
    B("c10-force-apply-pb", ["C10"], CN, 'problem_function = {"min": z3.PbGe, "max": z3.PbLe, "exact": z3.PbEq}', 'problem_function = {"min": z3.PbLe, "max": z3.PbLe, "exact": z3.PbEq}'),
    B("c10-force-apply-count-constant", ["C10"], CN, "[(applied, True) for applied in applied_vars], self.nb_constraints_to_apply", "[(applied, True) for applied in applied_vars], 1"),
    B("c10-force-apply-accepts-mandatory", ["C10", "C18"], CN, "            if not constraint.optional:\n                raise TypeError(", "            if False:\n                raise TypeError("),
    T("c10-twin-and-via-helper-var", ["C10"], FOL, "        asst = z3.And(_constraints_to_list_of_assertions(self.list_of_constraints))\n", "        operands = _constraints_to_list_of_assertions(self.list_of_constraints)\n        asst = z3.And(operands)\n"),
    T("c10-twin-not-star", ["C10"], FOL, "asst = z3.Not(z3.And(_get_assertions(self.constraint)))", "inner = _get_assertions(self.constraint)\n        asst = z3.Not(z3.And(inner))"),
]

RS = "resource.py"
PB = "problem.py"
MUTANTS += [
    # ---- C02 ----------------------------------------------------------------------
    B("c02-pair-loop-skips-neighbour", ["C02"], SV, "for k in range(i + 1, nb_intervals):", "for k in range(i + 2, nb_intervals):"),
    B("c02-pair-strict", ["C02", "C05"], SV, "z3.Or(start_task_k >= end_task_i, start_task_i >= end_task_k)", "z3.Or(start_task_k > end_task_i, start_task_i >= end_task_k)", expect=["R-PAIRWISE", "R-PAIRWISE-EXACT"]),
    B("c02-pair-wrong-end", ["C02"], SV, "z3.Or(start_task_k >= end_task_i, start_task_i >= end_task_k)", "z3.Or(start_task_k >= end_task_i, start_task_i >= start_task_k)"),
    B("c02-pair-and", ["C02", "C05"], SV, "z3.Or(start_task_k >= end_task_i, start_task_i >= end_task_k)", "z3.And(start_task_k >= end_task_i, start_task_i >= end_task_k)"),
    B("c02-pair-only-first-worker", ["C02"], SV, "        for ress in self.problem.workers.values():\n            busy_intervals = ress.get_busy_intervals()", "        for ress in list(self.problem.workers.values())[:1]:\n            busy_intervals = ress.get_busy_intervals()"),
    B("c02-pair-unpack-swapped", ["C02"], SV, "                    start_task_k, end_task_k = busy_intervals[k]", "                    end_task_k, start_task_k = busy_intervals[k]"),
    B("c02-early-out-added", ["C02"], TK, "self.append_z3_assertion(resource_busy_end == self._end - early_out)", "self.append_z3_assertion(resource_busy_end == self._end + early_out)"),
    B("c02-delay-in-ignored", ["C02"], TK, "                        resource_busy_start == self._start + delay_in\n", "                        resource_busy_start == self._start\n"),
    B("c02-dynamic-no-nonneg-span", ["C02"], TK, "                self.append_z3_assertion(resource_busy_start <= resource_busy_end)\n", ""),
    B("c02-dynamic-outside-task", ["C02"], TK, "self.append_z3_assertion(resource_busy_end <= self._end)", "self.append_z3_assertion(resource_busy_end >= self._end)"),
    B("c02-busy-tuple-swapped", ["C02"], TK, "resource.add_busy_interval(self, (resource_busy_start, resource_busy_end))", "resource.add_busy_interval(self, (resource_busy_end, resource_busy_start))"),
    B("c02-alternative-unselected-at-zero", ["C02"], TK, "                single_point_in_past = (\n                    processscheduler.base.active_problem.get_unique_negative_integer()\n                )", "                single_point_in_past = 0"),
    B("c02-alternative-selected-not-synced", ["C02"], TK, "                    resource_maybe_busy_end == self._end,\n                )", "                    resource_maybe_busy_end <= self._end,\n                )"),
    B("c02-alternative-branches-swapped", ["C02"], TK, "assertion = z3.If(selected_variable, schedule_as_usual, move_to_past)", "assertion = z3.If(selected_variable, move_to_past, schedule_as_usual)"),
    B("c02-selection-assertion-dropped", ["C02"], TK, "            self.append_z3_assertion(resource._selection_assertion)\n", ""),
    B("c02-select-pb-min-as-max", ["C02"], RS, 'problem_function = {"min": z3.PbGe, "max": z3.PbLe, "exact": z3.PbEq}', 'problem_function = {"min": z3.PbLe, "max": z3.PbGe, "exact": z3.PbEq}'),
    B("c02-select-count-off", ["C02"], RS, "[(selected, True) for selected in selection_list], self.nb_workers_to_select", "[(selected, True) for selected in selection_list], self.nb_workers_to_select + 1"),
    B("c02-select-flags-partial", ["C02"], RS, "        selection_list = list(self._selection_dict.values())\n", "        selection_list = list(self._selection_dict.values())[1:]\n"),
    B("c02-select-too-many-accepted", ["C02", "C18"], RS, "        if self.nb_workers_to_select > len(self.list_of_workers):", "        if self.nb_workers_to_select > len(self.list_of_workers) + 1:"),
    B("c02-cumulative-one-less", ["C02"], RS, "            for i in range(self.size)\n        ]", "            for i in range(self.size - 1)\n        ]"),
    B("c02-cumulative-select-max", ["C02"], RS, 'list_of_workers=self._cumulative_workers, nb_workers_to_select=1, kind="min"', 'list_of_workers=self._cumulative_workers, nb_workers_to_select=1, kind="max"'),
    B("c02-negative-counter-reused", ["C02"], PB, "        self._unique_integer += -1\n        return self._unique_integer", "        return self._unique_integer"),
    B("c02-negative-counter-from-zero", ["C02"], PB, "        self._unique_integer = -1\n", "        self._unique_integer = 1\n"),
    B("c02-work-amount-strict", ["C02", "C05"], SV, "z3.Sum(total_work_for_all_resources) >= task.work_amount", "z3.Sum(total_work_for_all_resources) > task.work_amount"),
    B("c02-work-amount-no-productivity", ["C02"], SV, "work_contribution = required_resource.productivity * (\n                        interv_up - interv_low\n                    )", "work_contribution = (\n                        interv_up - interv_low\n                    )"),
    B("c02-work-amount-unguarded", ["C02", "C06"], SV, "                    if task.optional:\n                        work_amount_assertion = z3.Implies(\n                            task._scheduled, work_amount_assertion\n                        )\n", ""),
    B("c02-worker-drain-dropped", ["C02"], SV, "        for ress in self.problem.workers.values():\n            self.append_z3_assertion(ress.get_z3_assertions())\n", "        for ress in self.problem.workers.values():\n            pass\n"),
    B("c02-busy-intervals-partial", ["C02"], RS, "return list(self._busy_intervals.values())", "return list(self._busy_intervals.values())[:-1]"),
    T("c02-twin-pair-flipped", ["C02", "C05"], SV, "z3.Or(start_task_k >= end_task_i, start_task_i >= end_task_k)", "z3.Or(end_task_k <= start_task_i, end_task_i <= start_task_k)"),
    T("c02-twin-busy-end-first", ["C02"], TK, "                self.append_z3_assertion(resource_busy_end <= self._end)\n                self.append_z3_assertion(resource_busy_start >= self._start)\n", "                self.append_z3_assertion(resource_busy_start >= self._start)\n                self.append_z3_assertion(self._end >= resource_busy_end)\n"),
    T("c02-twin-static-unconditional", ["C02"], TK, "                if early_out > 0:\n                    self.append_z3_assertion(resource_busy_end == self._end - early_out)\n                else:\n                    self.append_z3_assertion(resource_busy_end == self._end)\n", "                self.append_z3_assertion(resource_busy_end == self._end - early_out)\n"),
]

RC = "resource_constraint.py"
MUTANTS += [
    # ---- C04 ----------------------------------------------------------------------
    B("c04-unavailable-and", ["C04"], RC, "                        z3.Or(\n                            start_task_i >= interval_upper_bound,\n                            end_task_i <= interval_lower_bound,", "                        z3.And(\n                            start_task_i >= interval_upper_bound,\n                            end_task_i <= interval_lower_bound,"),
    B("c04-unavailable-bounds-swapped", ["C04"], RC, "                            start_task_i >= interval_upper_bound,\n                            end_task_i <= interval_lower_bound,\n                        )\n                    )\n\n        if not resource_assigned:\n            raise AssertionError(\n                \"The resource is not assigned to any task. Please first assign the resource to one or more tasks, and then add the ResourceUnavailable", "                            start_task_i >= interval_lower_bound,\n                            end_task_i <= interval_upper_bound,\n                        )\n                    )\n\n        if not resource_assigned:\n            raise AssertionError(\n                \"The resource is not assigned to any task. Please first assign the resource to one or more tasks, and then add the ResourceUnavailable"),
    B("c04-unavailable-strict", ["C04", "C05"], RC, "                        z3.Or(\n                            start_task_i >= interval_upper_bound,\n                            end_task_i <= interval_lower_bound,", "                        z3.Or(\n                            start_task_i > interval_upper_bound,\n                            end_task_i <= interval_lower_bound,"),
    B("c04-unavailable-first-interval-only", ["C04"], RC, "        for interval_lower_bound, interval_upper_bound in self.list_of_time_intervals:\n            # add constraints on each busy interval", "        for interval_lower_bound, interval_upper_bound in self.list_of_time_intervals[:1]:\n            # add constraints on each busy interval"),
    B("c04-unavailable-cumulative-own-dict", ["C04"], RC, "            workers = self.resource._cumulative_workers\n\n        resource_assigned = False\n\n        for interval_lower_bound, interval_upper_bound in self.list_of_time_intervals:\n            # add constraints", "            workers = [self.resource]\n\n        resource_assigned = False\n\n        for interval_lower_bound, interval_upper_bound in self.list_of_time_intervals:\n            # add constraints"),
    B("c04-workload-max-as-min", ["C04"], RC, "workload_constraint = z3.Sum(durations) <= number_of_time_slots", "workload_constraint = z3.Sum(durations) >= number_of_time_slots"),
    B("c04-workload-case2-undisjoint", ["C04", "C05"], RC, "                        end_task_i > time_interval_lower_bound,\n                        end_task_i <= time_interval_upper_bound,\n", "                        end_task_i > time_interval_lower_bound,\n"),
    B("c04-workload-case3-wrong-value", ["C04"], RC, "cond3, dur == time_interval_upper_bound - start_task_i", "cond3, dur == time_interval_upper_bound - time_interval_lower_bound"),
    B("c04-workload-default-dropped", ["C04"], RC, "                    self.set_z3_assertions(\n                        z3.Implies(\n                            z3.Not(z3.Or([cond1, cond2, cond3, cond4])), dur == 0\n                        )\n                    )\n", ""),
    B("c04-workload-sum-skips-durations", ["C04"], RC, "                    durations.append(dur)\n", "                    if not durations:\n                        durations.append(dur)\n"),
    B("c04-workload-bound-of-other-interval", ["C04"], RC, "number_of_time_slots = self.dict_time_intervals_and_bound[time_interval]", "number_of_time_slots = list(self.dict_time_intervals_and_bound.values())[0]"),
    B("c04-interrupted-fixed-may-overlap", ["C04"], RC, "                        conds.append(\n                            z3.Xor(\n                                start_task_i >= interval_upper_bound,\n                                end_task_i <= interval_lower_bound,\n                            )\n                        )\n\n                if is_interruptible:\n                    # add assertions for task duration based on the total count of overlapped periods\n                    total_overlap = z3.Sum(*overlaps)\n                    min_duration_cond = (\n                        task._duration >= task.min_duration + total_overlap\n                    )\n                    if task.optional:\n                        # the duration of a task that is not scheduled is 0\n                        min_duration_cond = z3.Implies(\n                            task._scheduled, min_duration_cond\n                        )\n                    conds.append(min_duration_cond)\n                    if task.max_duration is not None:\n                        conds.append(\n                            task._duration <= task.max_duration + total_overlap\n                        )\n\n            # TODO: remove AND", "                        pass\n\n                if is_interruptible:\n                    # add assertions for task duration based on the total count of overlapped periods\n                    total_overlap = z3.Sum(*overlaps)\n                    min_duration_cond = (\n                        task._duration >= task.min_duration + total_overlap\n                    )\n                    if task.optional:\n                        # the duration of a task that is not scheduled is 0\n                        min_duration_cond = z3.Implies(\n                            task._scheduled, min_duration_cond\n                        )\n                    conds.append(min_duration_cond)\n                    if task.max_duration is not None:\n                        conds.append(\n                            task._duration <= task.max_duration + total_overlap\n                        )\n\n            # TODO: remove AND"),
    B("c04-interrupted-overlap-half-length", ["C04"], RC, "                    overlap = z3.If(\n                        overlap_condition,\n                        interval_upper_bound - interval_lower_bound,\n                        0,\n                    )\n                    overlaps.append(overlap)\n\n                    if is_interruptible:\n                        # just make sure that the task does not start or end within the time interval...", "                    overlap = z3.If(\n                        overlap_condition,\n                        interval_upper_bound - interval_lower_bound - 1,\n                        0,\n                    )\n                    overlaps.append(overlap)\n\n                    if is_interruptible:\n                        # just make sure that the task does not start or end within the time interval..."),
    B("c04-interrupted-overlap-cond-inverted", ["C04"], RC, "                    overlap_condition = z3.Not(\n                        z3.Xor(\n                            start_task_i >= interval_upper_bound,\n                            end_task_i <= interval_lower_bound,\n                        )\n                    )", "                    overlap_condition = (\n                        z3.Xor(\n                            start_task_i >= interval_upper_bound,\n                            end_task_i <= interval_lower_bound,\n                        )\n                    )"),
    B("c04-interrupted-end-may-be-inside", ["C04"], RC, "                                z3.Xor(\n                                    end_task_i <= interval_lower_bound,\n                                    end_task_i >= interval_upper_bound,\n                                ),\n                            ]\n                        )\n                    else:\n                        # ...otherwise make sure the task does not overlap with the time interval", "                            ]\n                        )\n                    else:\n                        # ...otherwise make sure the task does not overlap with the time interval"),
    B("c04-distance-modes-swapped", ["C04"], RC, '            elif self.mode == "max":\n                asst = sorted_starts[i] - sorted_ends[i - 1] <= self.distance', '            elif self.mode == "max":\n                asst = sorted_starts[i] - sorted_ends[i - 1] >= self.distance'),
    B("c04-distance-wrong-neighbour", ["C04"], RC, '            if self.mode == "exact":\n                asst = sorted_starts[i] - sorted_ends[i - 1] == self.distance', '            if self.mode == "exact":\n                asst = sorted_starts[i] - sorted_ends[i] == self.distance'),
    B("c04-distance-window-half", ["C04"], RC, "                        sorted_starts[i] <= upper_bound,\n                        sorted_ends[i - 1] <= upper_bound,\n", "                        sorted_starts[i] <= upper_bound,\n"),
    B("c04-nondelay-gap-one", ["C04"], RC, "            asst = sorted_starts[i] == sorted_ends[i - 1]\n            condition_only_scheduled_tasks", "            asst = sorted_starts[i] == sorted_ends[i - 1] + 1\n            condition_only_scheduled_tasks"),
    B("c04-same-workers-differ", ["C04"], RC, "                    self.select_workers_1._selection_dict[res_work_1]\n                    == self.select_workers_2._selection_dict[res_work_1]", "                    self.select_workers_1._selection_dict[res_work_1]\n                    != self.select_workers_2._selection_dict[res_work_1]"),
    B("c04-distinct-workers-forces-one", ["C04", "C05"], RC, "                    z3.Not(\n                        z3.And(\n                            self.select_workers_1._selection_dict[res_work_1],\n                            self.select_workers_2._selection_dict[res_work_1],\n                        )\n                    )", "                    z3.Xor(\n                            self.select_workers_1._selection_dict[res_work_1],\n                            self.select_workers_2._selection_dict[res_work_1],\n                    )"),
    B("c04-periodic-attr-typo", ["C04", "C18"], RC, "            workers = self.resource._cumulative_workers\n\n        resource_assigned = False\n\n        for interval_lower_bound, interval_upper_bound in self.list_of_time_intervals:\n            for worker in workers:", "            workers = self.resource.cumulative_workers\n\n        resource_assigned = False\n\n        for interval_lower_bound, interval_upper_bound in self.list_of_time_intervals:\n            for worker in workers:"),
    B("c04-periodic-mask-start-on-start", ["C04"], RC, "                        conds.append(end_task_i <= self.start)", "                        conds.append(start_task_i <= self.start)"),
    B("c04-unavailable-accepts-unassigned", ["C04", "C18"], RC, '        if not resource_assigned:\n            raise AssertionError(\n                "The resource is not assigned to any task. Please first assign the resource to one or more tasks, and then add the ResourceUnavailable constraint."\n            )', '        pass'),
    T("c04-twin-unavailable-flipped", ["C04", "C05"], RC, "                            start_task_i >= interval_upper_bound,\n                            end_task_i <= interval_lower_bound,\n                        )\n                    )\n\n        if not resource_assigned:\n            raise AssertionError(\n                \"The resource is not assigned to any task. Please first assign the resource to one or more tasks, and then add the ResourceUnavailable", "                            interval_lower_bound >= end_task_i,\n                            interval_upper_bound <= start_task_i,\n                        )\n                    )\n\n        if not resource_assigned:\n            raise AssertionError(\n                \"The resource is not assigned to any task. Please first assign the resource to one or more tasks, and then add the ResourceUnavailable"),
    T("c04-twin-unavailable-loops-swapped", ["C04"], RC, "        for interval_lower_bound, interval_upper_bound in self.list_of_time_intervals:\n            # add constraints on each busy interval\n            for worker in workers:\n                for start_task_i, end_task_i in worker.get_busy_intervals():\n                    resource_assigned = True\n                    self.set_z3_assertions(\n                        z3.Or(\n                            start_task_i >= interval_upper_bound,\n                            end_task_i <= interval_lower_bound,\n                        )\n                    )", "        for worker in workers:\n            for start_task_i, end_task_i in worker.get_busy_intervals():\n                resource_assigned = True\n                for interval_lower_bound, interval_upper_bound in self.list_of_time_intervals:\n                    self.set_z3_assertions(\n                        z3.Or(\n                            start_task_i >= interval_upper_bound,\n                            end_task_i <= interval_lower_bound,\n                        )\n                    )"),
    T("c04-twin-workload-case-order", ["C04"], RC, "                        start_task_i >= time_interval_lower_bound,\n                        end_task_i <= time_interval_upper_bound,\n                    )\n                    asst1", "                        end_task_i <= time_interval_upper_bound,\n                        time_interval_lower_bound <= start_task_i,\n                    )\n                    asst1"),
]

MUTANTS += [
    # ---- C05 ----------------------------------------------------------------------
    B("c05-group-default-length-zero", ["C05"], TC, "    time_interval_length: Union[int, None] = Field(default=None)", "    time_interval_length: int = Field(default=0)"),
    B("c05-fixed-extra-upper-bound", ["C05"], TK, "            self._end - self._start == self.duration,\n            self._start >= 0,\n", "            self._end - self._start == self.duration,\n            self._start >= 0,\n            self._start <= 1000,\n"),
    B("c05-variable-duration-positive", ["C05"], TK, "            self._start >= 0,\n            self._duration >= self.min_duration,", "            self._start >= 0,\n            self._duration >= self.min_duration,\n            self._duration >= 1,"),
    B("c05-solve-false-on-sat", ["C05"], SV, "            if sat_result == z3.unknown:\n                return False\n", "            if sat_result == z3.unknown or self.parallel:\n                return False\n"),
    B("c05-check-sat-masks-result", ["C05"], SV, "        return sat_result, check_sat_time", "        return z3.unsat, check_sat_time"),
    B("c05-release-strict", ["C05", "C01"], TK, "self._release_due_assertions.append(self._start >= self.release_date)", "self._release_due_assertions.append(self._start > self.release_date)", expect=["R-TASK-EXACT"]),
    B("c05-precedence-lax-as-strict", ["C05", "C03"], TC, "scheduled_assertion = lower <= upper", "scheduled_assertion = lower < upper"),
    B("c05-workload-dur-positive", ["C05", "C04"], RC, "                    self.set_z3_assertions(dur >= 0)", "                    self.set_z3_assertions(dur >= 1)"),
]

UT = "util.py"
MUTANTS += [
    # ---- C08 ----------------------------------------------------------------------
    B("c08-utilization-times-10", ["C08"], IND, "expression = (z3.Sum(durations) * 100) / predefined_horiz", "expression = (z3.Sum(durations) * 10) / predefined_horiz"),
    B("c08-utilization-truncates-first", ["C08"], IND, "expression = (z3.Sum(durations) * 100) / predefined_horiz", "expression = z3.Sum(durations) * int(100 / predefined_horiz)"),
    B("c08-utilization-free-horizon-branch-differs", ["C08"], IND, "expression = (z3.Sum(durations) * 100) / z3_var_horiz", "expression = (z3.Sum(durations) * 100) / (z3_var_horiz + 1)"),
    B("c08-utilization-uses-starts", ["C08"], IND, "            interv_up - interv_low\n            for interv_low, interv_up in self.resource._busy_intervals.values()\n        ]\n\n        predefined_horiz", "            interv_up\n            for interv_low, interv_up in self.resource._busy_intervals.values()\n        ]\n\n        predefined_horiz"),
    B("c08-tardy-count-ge", ["C08"], IND, "tardiness_v.append(t._end > t.due_date)", "tardiness_v.append(t._end >= t.due_date)"),
    B("c08-tardiness-no-priority", ["C08"], IND, "                    (t._end - t.due_date) * t.priority,\n", "                    (t._end - t.due_date),\n"),
    B("c08-tardiness-sign", ["C08"], IND, "                    (t._end - t.due_date) * t.priority,\n", "                    (t.due_date - t._end) * t.priority,\n"),
    B("c08-earliness-uses-start", ["C08"], IND, "                    t.due_date - t._end,\n                    0,", "                    t.due_date - t._start,\n                    0,"),
    B("c08-lateness-minimum", ["C08"], IND, "            get_maximum(self._indicator_variable, latenesses)", "            get_minimum(self._indicator_variable, latenesses)"),
    B("c08-lateness-of-start", ["C08"], IND, "latenesses = [t._end - t.due_date for t in tasks]", "latenesses = [t._start - t.due_date for t in tasks]"),
    B("c08-cost-no-half", ["C08"], IND, "expression = z3.Sum(constant_costs) + z3.Sum(variable_costs) / 2", "expression = z3.Sum(constant_costs) + z3.Sum(variable_costs)"),
    B("c08-cost-trapezoid-one-side", ["C08"], IND, "period_cost = (res.cost(interv_low) + res.cost(interv_up)) * (", "period_cost = (res.cost(interv_low) + res.cost(interv_low)) * ("),
    B("c08-cost-cumulative-not-expanded", ["C08"], IND, "            if isinstance(resource, CumulativeWorker):\n                for res in resource._cumulative_workers:", "            if False:\n                for res in resource._cumulative_workers:"),
    B("c08-cost-constant-squared", ["C08"], IND, "period_cost = res.cost(interv_up) * (interv_up - interv_low)", "period_cost = res.cost(interv_up) * res.cost(interv_up) * (interv_up - interv_low)"),
    B("c08-idle-ungated", ["C08"], IND, "                condition_only_scheduled_tasks, sorted_starts[i] - sorted_ends[i - 1], 0", "                True, sorted_starts[i] - sorted_ends[i - 1], 0"),
    B("c08-idle-gap-from-start", ["C08"], IND, "                condition_only_scheduled_tasks, sorted_starts[i] - sorted_ends[i - 1], 0", "                condition_only_scheduled_tasks, sorted_starts[i] - sorted_starts[i - 1], 0"),
    B("c08-max-buffer-is-min", ["C08"], IND, "            get_maximum(self._indicator_variable, self.buffer._buffer_levels)", "            get_minimum(self._indicator_variable, self.buffer._buffer_levels)"),
    B("c08-get-maximum-no-membership", ["C08"], UT, "    assertions = [z3.Or([maxi == elem for elem in list_of_values])]\n    assertions.extend([maxi >= elem for elem in list_of_values])", "    assertions = []\n    assertions.extend([maxi >= elem for elem in list_of_values])"),
    B("c08-get-minimum-wrong-direction", ["C08"], UT, "    assertions.extend([mini <= elem for elem in list_of_values])", "    assertions.extend([mini >= elem for elem in list_of_values])"),
    B("c08-flowtime-uses-start", ["C08"], OBJ, "task_ends.append(task._end * task._scheduled)\n            else:\n                task_ends.append(task._end)", "task_ends.append(task._start * task._scheduled)\n            else:\n                task_ends.append(task._start)"),
    B("c08-priorities-no-weight", ["C08"], OBJ, "                all_priorities.append(task._end * task.priority)\n        priority_sum = z3.Sum(all_priorities)\n        priority_indicator = IndicatorFromMathExpression(\n            name=\"TotalPriority\"", "                all_priorities.append(task._end)\n        priority_sum = z3.Sum(all_priorities)\n        priority_indicator = IndicatorFromMathExpression(\n            name=\"TotalPriority\""),
    B("c08-greatest-start-uses-minimum", ["C08"], OBJ, "        assertions = get_maximum(\n            greatest_start_time, [task._start for task in list_of_tasks]", "        assertions = get_minimum(\n            greatest_start_time, [task._start for task in list_of_tasks]"),
    B("c08-indicator-value-under-type", ["C08"], SV, "            indicator_name = indicator.name\n", "            indicator_name = indicator.type\n"),
    B("c08-indicator-value-of-first", ["C08"], SV, "indicator_value = z3_sol[indicator._indicator_variable].as_long()", "indicator_value = z3_sol[list(self.problem.indicators.values())[0]._indicator_variable].as_long()"),
    B("c08-target-ge", ["C08"], "indicator_constraint.py", "self.set_z3_assertions(self.indicator._indicator_variable == self.value)", "self.set_z3_assertions(self.indicator._indicator_variable >= self.value)"),
    B("c08-bounds-upper-skipped", ["C08"], "indicator_constraint.py", "        if self.upper_bound is not None:\n            self.set_z3_assertions(", "        if self.upper_bound is not None and self.lower_bound is None:\n            self.set_z3_assertions("),
    B("c08-tardy-name-clash", ["C08"], IND, 'self.name = "Number of tardy tasks"', 'self.name = "Total tardiness"'),
    B("c08-math-expression-offset", ["C08"], IND, "self.append_z3_assertion(self._indicator_variable == self.expression)", "self.append_z3_assertion(self._indicator_variable == self.expression + 1)"),
    T("c08-twin-tardy-flip", ["C08"], IND, "tardiness_v.append(t._end > t.due_date)", "tardiness_v.append(t.due_date < t._end)"),
    T("c08-twin-tasks-assigned-ge0", ["C08"], IND, "z3.If(start > -1, 1, 0)", "z3.If(start >= 0, 1, 0)"),
    T("c08-twin-tardiness-product-order", ["C08"], IND, "                    (t._end - t.due_date) * t.priority,\n", "                    t.priority * (t._end - t.due_date),\n"),
    T("c08-twin-utilization-100-first", ["C08"], IND, "expression = (z3.Sum(durations) * 100) / predefined_horiz", "expression = (100 * z3.Sum(durations)) / predefined_horiz"),
]

BF = "buffer.py"
MUTANTS += [
    # ---- C09 ----------------------------------------------------------------------
    B("c09-unload-sign-array-only", ["C09"], SV, "                            buffer_mapping, t._start, -buffer._unloading_tasks[t]", "                            buffer_mapping, t._start, buffer._unloading_tasks[t]"),
    B("c09-unload-sign-function-only", ["C09"], SV, "                            f(x) == -buffer._unloading_tasks[t],", "                            f(x) == buffer._unloading_tasks[t],"),
    B("c09-load-at-start", ["C09"], SV, "            tasks_end_load = [t._end for t in buffer._loading_tasks]", "            tasks_end_load = [t._start for t in buffer._loading_tasks]"),
    B("c09-load-store-at-start", ["C09"], SV, "== z3.Store(buffer_mapping, t._end, +buffer._loading_tasks[t])", "== z3.Store(buffer_mapping, t._start, +buffer._loading_tasks[t])"),
    B("c09-bounds-skip-initial", ["C09"], SV, "            if buffer.lower_bound is not None:\n                for st in buffer._buffer_levels:", "            if buffer.lower_bound is not None:\n                for st in buffer._buffer_levels[1:]:"),
    B("c09-upper-bound-as-lower", ["C09"], SV, "                    self.append_z3_assertion(st <= buffer.upper_bound)", "                    self.append_z3_assertion(st >= buffer.upper_bound)"),
    B("c09-final-level-first", ["C09"], SV, "                    buffer._buffer_levels[-1] == buffer.final_level", "                    buffer._buffer_levels[0] == buffer.final_level"),
    B("c09-recurrence-next-time", ["C09"], SV, "                        + buffer_mapping[buffer._level_changes_time[i]]", "                        + buffer_mapping[buffer._level_changes_time[i + 1]]"),
    B("c09-recurrence-skips-last", ["C09"], SV, "                # and, for the other, the buffer level i+1 is the buffer level i +/- the buffer change\n                for i in range(len(buffer._buffer_levels) - 1):", "                # and, for the other, the buffer level i+1 is the buffer level i +/- the buffer change\n                for i in range(len(buffer._buffer_levels) - 2):"),
    B("c09-concurrent-duplicate-adds", ["C09"], SV, "                            buffer._buffer_levels[i + 1] == buffer._buffer_levels[i],\n", "                            buffer._buffer_levels[i + 1] == buffer._buffer_levels[i] + 1,\n"),
    B("c09-concurrent-sorter-for-nonconcurrent", ["C09"], SV, "            if isinstance(buffer, NonConcurrentBuffer):\n                sorted_times, sort_assertions = sort_no_duplicates(", "            if isinstance(buffer, ConcurrentBuffer):\n                sorted_times, sort_assertions = sort_no_duplicates("),
    B("c09-sort-assertions-dropped", ["C09"], SV, "            self.append_z3_assertion(sort_assertions)\n", ""),
    B("c09-times-not-tied", ["C09"], SV, "                self.append_z3_assertion(st == bfst)", "                self.append_z3_assertion(st <= bfst)"),
    B("c09-loading-functions-not-summed", ["C09"], SV, "                    self.append_z3_assertion(asst)\n                    functions.append(f)\n                for i in range", "                    self.append_z3_assertion(asst)\n                for i in range"),
    B("c09-add-loading-registers-unloading", ["C09"], BF, "        self._loading_tasks[task] = quantity", "        self._unloading_tasks[task] = quantity"),
    B("c09-add-unloading-no-level", ["C09"], BF, "        self._level_changes_time.append(z3.Int(f\"{self.name}_sc_time_{task.name}\"))\n        self._buffer_levels.append(z3.Int(f\"{self.name}_level_{task.name}\"))\n\n    def add_loading_task", "        self._level_changes_time.append(z3.Int(f\"{self.name}_sc_time_{task.name}\"))\n\n    def add_loading_task"),
    B("c09-initial-level-off", ["C09"], BF, "            self.append_z3_assertion(buffer_initial_level == self.initial_level)", "            self.append_z3_assertion(buffer_initial_level >= self.initial_level)"),
    B("c09-task-load-calls-unload", ["C09"], TC, "        self.buffer.add_loading_task(self.task, self.quantity)", "        self.buffer.add_unloading_task(self.task, self.quantity)"),
    B("c09-sort-no-dup-nonstrict", ["C09"], UT, "    constraints.append(z3.And([a[i] < a[i + 1] for i in range(n - 1)]))", "    constraints.append(z3.And([a[i] <= a[i + 1] for i in range(n - 1)]))"),
    B("c09-sort-no-dup-partial-membership", ["C09"], UT, "constraints = [z3.Or([a[i] == z3_int_list[j] for j in range(n)]) for i in range(n)]", "constraints = [z3.Or([a[i] == z3_int_list[j] for j in range(n)]) for i in range(n - 1)]"),
    B("c09-bubble-exchange-wrong", ["C09"], UT, "c = z3.If(x <= y, z3.And(x1 == x, y1 == y), z3.And(x1 == y, y1 == x))", "c = z3.If(x <= y, z3.And(x1 == x, y1 == y), z3.And(x1 == x, y1 == y))"),
    B("c09-bubble-half-sweep", ["C09"], UT, "        for i in range(len(arr) - 1):", "        for i in range(len(arr) - 2):"),
    B("c09-bubble-one-pass", ["C09"], UT, "    for _ in range(len(sorted_list)):", "    for _ in range(1):"),
    B("c09-report-levels-partial", ["C09"], SV, "                z3_sol[sv_z3_var].as_long() for sv_z3_var in buffer._buffer_levels\n", "                z3_sol[sv_z3_var].as_long() for sv_z3_var in buffer._buffer_levels[1:]\n"),
    T("c09-twin-bounds-flipped", ["C09"], SV, "                    self.append_z3_assertion(st >= buffer.lower_bound)", "                    self.append_z3_assertion(buffer.lower_bound <= st)"),
    T("c09-twin-recurrence-shifted", ["C09"], SV, "                for i in range(len(buffer._buffer_levels) - 1):\n                    self.append_z3_assertion(\n                        buffer._buffer_levels[i + 1]\n                        == buffer._buffer_levels[i]\n                        + buffer_mapping[buffer._level_changes_time[i]]\n                    )", "                for i in range(1, len(buffer._buffer_levels)):\n                    self.append_z3_assertion(\n                        buffer._buffer_levels[i]\n                        == buffer._buffer_levels[i - 1]\n                        + buffer_mapping[buffer._level_changes_time[i - 1]]\n                    )"),
]

MUTANTS += [
    # ---- C07 ----------------------------------------------------------------------
    B("c07-loop-bound-nonstrict", ["C07"], SV, "                self.append_z3_assertion(variable < current_variable_value)", "                self.append_z3_assertion(variable <= current_variable_value)"),
    B("c07-loop-bound-wrong-way", ["C07"], SV, "                self.append_z3_assertion(variable > current_variable_value)", "                self.append_z3_assertion(variable < current_variable_value)"),
    B("c07-bounds-index-swapped", ["C07"], SV, "                self._objective._bounds[0]\n                if kind == \"min\"\n                else self._objective._bounds[1]", "                self._objective._bounds[1]\n                if kind == \"min\"\n                else self._objective._bounds[0]"),
    B("c07-continue-before-bound", ["C07"], SV, "            self._solver.push()\n            num_pushed_scopes += 1\n            if kind == \"min\":", "            self._solver.push()\n            num_pushed_scopes += 1\n            if num_iter % 2 == 0:\n                continue\n            if kind == \"min\":"),
    B("c07-model-before-verdict", ["C07"], SV, "            if is_sat == z3.unknown:\n                break\n            # at this stage, is_sat should be sat\n            solution = self._solver.model()", "            # at this stage, is_sat should be sat\n            solution = self._solver.model()\n            if is_sat == z3.unknown:\n                break"),
    B("c07-unknown-not-handled", ["C07"], SV, "            if is_sat == z3.unknown:\n                break\n            # at this stage", "            # at this stage"),
    B("c07-solution-reset-on-timeout", ["C07"], SV, "                print(\"Max time exceeded. Stop incremental solver.\")\n                break", "                print(\"Max time exceeded. Stop incremental solver.\")\n                solution = False\n                break"),
    B("c07-pop-inside-loop", ["C07", "C13"], SV, "                print(f\"\\tChecking better value > {current_variable_value}\")\n", "                print(f\"\\tChecking better value > {current_variable_value}\")\n            if num_iter > 3:\n                self._solver.pop()\n"),
    B("c07-solve-direction-inverted", ["C07"], SV, 'kind="min" if self._objective.kind == "minimize" else "max",', 'kind="max" if self._objective.kind == "minimize" else "min",'),
    B("c07-optimize-maximize-on-minimize", ["C07"], SV, "                if self._objective.kind == \"maximize\":\n                    self._solver.maximize(variable_to_optimize)\n                elif self._objective.kind == \"minimize\":\n                    self._solver.minimize(variable_to_optimize)", "                if self._objective.kind == \"maximize\":\n                    self._solver.maximize(variable_to_optimize)\n                elif self._objective.kind == \"minimize\":\n                    self._solver.maximize(variable_to_optimize)"),
    B("c07-weighted-drops-weight", ["C07"], SV, "weighted_objectives.append(obj.weight * variable_to_optimize)", "weighted_objectives.append(variable_to_optimize)"),
    B("c07-weighted-skips-first", ["C07"], SV, "        for obj in self.problem.objectives.values():\n            variable_to_optimize = obj._target\n            weighted_objectives.append", "        for obj in list(self.problem.objectives.values())[1:]:\n            variable_to_optimize = obj._target\n            weighted_objectives.append"),
    B("c07-start-latest-minimized", ["C07"], OBJ, '            name="MaximizeStartLatest",\n            target=mini_start_time_indicator,\n            kind="maximize",', '            name="MaximizeStartLatest",\n            target=mini_start_time_indicator,\n            kind="minimize",'),
    B("c07-makespan-maximized", ["C07"], OBJ, '            target=processscheduler.base.active_problem._horizon,\n            kind="minimize",', '            target=processscheduler.base.active_problem._horizon,\n            kind="maximize",'),
    B("c07-objective-bounds-dropped", ["C07"], OBJ, "            self._bounds = self.target.bounds", "            self._bounds = None"),
    B("c07-maximize-indicator-weight-forced", ["C07"], OBJ, 'name=f"Maximize{target.name}", target=target, weight=weight, kind="maximize"', 'name=f"Maximize{target.name}", target=target, weight=1, kind="maximize"'),
    B("c07-optimize-handle-for-incremental", ["C07", "C15"], SV, 'if self._is_optimization_problem and self.optimizer == "optimize":', 'if self._is_optimization_problem:'),
    T("c07-twin-bound-flipped", ["C07"], SV, "                self.append_z3_assertion(variable < current_variable_value)", "                self.append_z3_assertion(current_variable_value > variable)"),
    # ---- C12 ----------------------------------------------------------------------
    B("c12-block-and", ["C12", "C13"], SV, "self.append_z3_assertion(z3.Or(different_assertions))", "self.append_z3_assertion(z3.And(different_assertions))"),
    B("c12-block-no-end", ["C12", "C13"], SV, "            different_assertions.append(t._end != self._model[t._end].as_long())\n", ""),
    B("c12-block-cross-variable", ["C12"], SV, "different_assertions.append(t._end != self._model[t._end].as_long())", "different_assertions.append(t._end != self._model[t._start].as_long())"),
    B("c12-block-scheduled-chained", ["C12"], SV, 't._scheduled != (f"{self._model[t._scheduled]}" == "True")', 't._scheduled != f"{self._model[t._scheduled]}" == "True"'),
    B("c12-block-only-mandatory", ["C12", "C13"], SV, "        for t in self.problem.tasks.values():\n            different_assertions.append(t._start !=", "        for t in [x for x in self.problem.tasks.values() if not x.optional]:\n            different_assertions.append(t._start !="),
    B("c12-block-inside-push", ["C12", "C13"], SV, "        # any of the assertions is meet\n        self.append_z3_assertion(z3.Or(different_assertions))", "        # any of the assertions is meet\n        self._solver.push()\n        self.append_z3_assertion(z3.Or(different_assertions))"),
    B("c12-variable-variant-equal", ["C12"], SV, "        self.append_z3_assertion(variable != current_variable_value)", "        self.append_z3_assertion(variable >= current_variable_value)"),
    B("c12-no-model-guard", ["C12"], SV, '        if self._model is None:\n            raise AssertionError("No current solution. First call the solve() method.")\n        different_assertions = []', '        different_assertions = []'),
    T("c12-twin-block-order", ["C12"], SV, "            different_assertions.append(t._start != self._model[t._start].as_long())\n            different_assertions.append(t._end != self._model[t._end].as_long())\n", "            different_assertions.append(t._end != self._model[t._end].as_long())\n            different_assertions.append(self._model[t._start].as_long() != t._start)\n"),
    # ---- C13 ----------------------------------------------------------------------
    B("c13-pop-removed", ["C13"], SV, "        if num_pushed_scopes > 0:\n            self._solver.pop(num_pushed_scopes)\n", ""),
    B("c13-pop-one-scope-only", ["C13"], SV, "            self._solver.pop(num_pushed_scopes)", "            self._solver.pop(1)"),
    B("c13-pop-skipped-when-debug", ["C13"], SV, "        if num_pushed_scopes > 0:\n            self._solver.pop(num_pushed_scopes)", "        if num_pushed_scopes > 0 and not self.debug:\n            self._solver.pop(num_pushed_scopes)"),
    B("c13-initialize-unconditional", ["C13"], SV, "        if not self._initialized:\n            self.initialize()\n\n        # for all cases", "        self.initialize()\n\n        # for all cases"),
    B("c13-initialized-flag-not-set", ["C13"], SV, "        self._initialized = True\n\n    def append_z3_assertion", "        self._initialized = False\n\n    def append_z3_assertion"),
    B("c13-model-stored-before-verdict", ["C13"], SV, "            if sat_result == z3.unknown:\n                return False\n\n            # then get the solution\n            model = self._solver.model()", "            # then get the solution\n            model = self._solver.model()\n            if sat_result == z3.unknown:\n                return False\n"),
    B("c13-solver-adds-constraint", ["C13"], SV, "        # optimization\n        if self._is_optimization_problem:\n            self.create_objective()", "        # optimization\n        if self._is_optimization_problem:\n            self.problem.constraints[\"extra\"] = None\n            self.create_objective()"),
    # ---- C15 ----------------------------------------------------------------------
    B("c08-bound-zero-is-falsy-lower", ["C08", "C15"], IND, "            if lower_bound is not None:", "            if lower_bound:"),
    B("c08-bound-zero-is-falsy-upper", ["C08", "C15"], IND, "            if upper_bound is not None:", "            if upper_bound:"),
    B("c11-solution-drops-point-assignments", ["C11"], "solution.py", "        self.resources[resource_solution.name] = resource_solution", "        resource_solution.assignments = [a for a in resource_solution.assignments if a[2] > a[1]]\n        self.resources[resource_solution.name] = resource_solution"),
    B("c15-parallel-guards-drain", ["C15"], SV, "        for indic in self.problem.indicators.values():\n            self.append_z3_assertion(indic.get_z3_assertions())", "        for indic in self.problem.indicators.values():\n            if not self.parallel:\n                self.append_z3_assertion(indic.get_z3_assertions())"),
    B("c15-debug-tracks-first-only", ["C15", "C19"], SV, "            for asst in assts:\n                asst_identifier", "            for asst in assts[:1]:\n                asst_identifier"),
    B("c15-nondebug-drops-lists", ["C15"], SV, "        else:\n            self._solver.add(assts)", "        else:\n            if not isinstance(assts, list):\n                self._solver.add(assts)"),
    B("c15-random-tiebreak-assertion", ["C15"], SV, "        # optimization\n        if self._is_optimization_problem:\n            self.create_objective()", "        if self.random_values:\n            self.append_z3_assertion(self.problem._horizon >= 1)\n        # optimization\n        if self._is_optimization_problem:\n            self.create_objective()"),
    B("c15-seed-not-reset", ["C15", "C14"], SV, "            z3.set_option(\"sat.random_seed\", 0)\n", ""),
    B("c15-unsat-core-always-off", ["C15", "C19"], SV, "            z3.set_option(\"verbose\", 2)\n            z3.set_option(unsat_core=True)", "            z3.set_option(\"verbose\", 2)\n            z3.set_option(unsat_core=False)"),
    B("c15-logics-changes-handle-to-optimize", ["C15"], SV, "            self._solver = z3.SolverFor(self.logics)", "            self._solver = z3.Optimize()"),
    # ---- C19 ----------------------------------------------------------------------
    B("c19-map-stores-type", ["C19"], SV, "                    ] = higher_constraint_name", "                    ] = \"Constraint\""),
    B("c19-map-wrong-label", ["C19"], SV, "                    self._map_boolrefs_to_constraints[\n                        asst_identifier\n                    ] = higher_constraint_name", "                    self._map_boolrefs_to_constraints[\n                        \"asst\"\n                    ] = higher_constraint_name"),
    B("c19-drain-passes-type", ["C19"], SV, "self.append_z3_assertion(constraint.get_z3_assertions(), constraint.name)", "self.append_z3_assertion(constraint.get_z3_assertions(), constraint.type)"),
    B("c19-indicator-drain-named", ["C19"], SV, "            self.append_z3_assertion(indic.get_z3_assertions())", "            self.append_z3_assertion(indic.get_z3_assertions(), indic.name)"),
    B("c19-reader-unchecked-lookup", ["C19"], SV, "                        if f\"{asst}\" in self._map_boolrefs_to_constraints:\n                            constraint_name = self._map_boolrefs_to_constraints[\n                                f\"{asst}\"\n                            ]", "                        if True:\n                            constraint_name = self._map_boolrefs_to_constraints.get(\n                                f\"{asst}\", list(self.problem.constraints)[0]\n                            )"),
    B("c19-debug-falls-to-add", ["C19"], SV, "                self._solver.assert_and_track(asst, asst_identifier)", "                self._solver.add(asst)"),
]

MUTANTS += [
    # ---- C11 ----------------------------------------------------------------------
    B("c11-start-from-end", ["C11"], SV, "new_task_solution.start = z3_sol[task._start].as_long()", "new_task_solution.start = z3_sol[task._end].as_long()"),
    B("c11-variable-duration-from-max", ["C11"], SV, "new_task_solution.duration = z3_sol[task._duration].as_long()", "new_task_solution.duration = task.max_duration"),
    B("c11-zero-duration-branch-dropped", ["C11"], SV, "            elif isinstance(task, ZeroDurationTask):\n                new_task_solution.duration = 0\n", ""),
    B("c11-scheduled-always-true", ["C11"], SV, '                new_task_solution.scheduled = f"{z3_sol[task._scheduled]}" == "True"', '                new_task_solution.scheduled = True'),
    B("c11-scheduled-compares-false", ["C11"], SV, '                new_task_solution.scheduled = f"{z3_sol[task._scheduled]}" == "True"', '                new_task_solution.scheduled = f"{z3_sol[task._scheduled]}" == "False"'),
    B("c11-assignment-tuple-swapped", ["C11"], SV, "new_resource_solution.assignments.append((task_name, start, end))", "new_resource_solution.assignments.append((task_name, end, start))"),
    B("c11-resource-view-unfiltered", ["C11"], SV, "                if (\n                    start >= 0\n                    and end >= 0\n                    and (task_name, start, end) not in new_resource_solution.assignments\n                ):", "                if (\n                    (task_name, start, end) not in new_resource_solution.assignments\n                ):"),
    B("c11-task-view-threshold", ["C11"], SV, "resource_is_assigned = z3_sol[lower_bound].as_long() >= 0", "resource_is_assigned = z3_sol[lower_bound].as_long() >= 1"),
    B("c11-end-time-from-start", ["C11"], SV, "                    + (new_task_solution.end - new_task_solution.start)\n                    * self.problem.delta_time", "                    + new_task_solution.start\n                    * self.problem.delta_time"),
    B("c11-end-time-from-the-declared-duration", ["C11"], SV, "                    + (new_task_solution.end - new_task_solution.start)\n                    * self.problem.delta_time", "                    + new_task_solution.duration\n                    * self.problem.delta_time"),
    T("c11-twin-end-time-from-the-end", ["C11"], SV, "                new_task_solution.end_time = (\n                    new_task_solution.start_time\n                    + (new_task_solution.end - new_task_solution.start)\n                    * self.problem.delta_time\n                )", "                new_task_solution.end_time = (\n                    new_task_solution.start_time - new_task_solution.start * self.problem.delta_time\n                    + new_task_solution.end * self.problem.delta_time\n                )"),
    B("c11-start-time-ignores-origin", ["C11"], SV, "                        self.problem.start_time\n                        + new_task_solution.start * self.problem.delta_time", "                        new_task_solution.start * self.problem.delta_time"),
    B("c11-horizon-from-task", ["C11"], SV, "            solution.horizon = z3_sol[self.problem._horizon].as_long()", "            solution.horizon = 0"),
    B("c11-horizon-ignores-user-value", ["C11"], SV, "            solution.horizon = self.problem.horizon\n", "            solution.horizon = self.problem.horizon - 1\n"),
    B("c11-marker-reader-typo", ["C11"], SV, 'resource_name = req_res.name.split("_CumulativeWorker_")[0]', 'resource_name = req_res.name.split("_CumulativeWorkers_")[0]'),
    B("c11-only-mandatory-tasks-reported", ["C11"], SV, "        # process tasks\n        for task in self.problem.tasks.values():", "        # process tasks\n        for task in [t for t in self.problem.tasks.values() if not t.optional]:"),
    T("c11-twin-task-view-both-ends", ["C11"], SV, "                lower_bound, _ = req_res._busy_intervals[task]\n                resource_is_assigned = z3_sol[lower_bound].as_long() >= 0", "                lower_bound, upper_bound = req_res._busy_intervals[task]\n                resource_is_assigned = (\n                    z3_sol[lower_bound].as_long() >= 0\n                    and z3_sol[upper_bound].as_long() >= 0\n                )"),
    T("c11-twin-duration-chain-order", ["C11"], SV, "            if isinstance(task, FixedDurationTask):\n                new_task_solution.duration = task.duration\n            elif isinstance(task, VariableDurationTask):\n                new_task_solution.duration = z3_sol[task._duration].as_long()\n            elif isinstance(task, ZeroDurationTask):\n                new_task_solution.duration = 0", "            if isinstance(task, ZeroDurationTask):\n                new_task_solution.duration = 0\n            elif isinstance(task, VariableDurationTask):\n                new_task_solution.duration = z3_sol[task._duration].as_long()\n            elif isinstance(task, FixedDurationTask):\n                new_task_solution.duration = task.duration"),
]

SOL = "solution.py"
XL = "excel_io.py"
PL = "plotter.py"
MUTANTS += [
    # ---- C16 ----------------------------------------------------------------------
    B("c16-df-start-end-swapped", ["C16"], SOL, '                "Start": starts,\n                "End": ends,', '                "Start": ends,\n                "End": starts,'),
    B("c16-df-duration-from-end", ["C16"], SOL, "            durations.append(t.duration)", "            durations.append(t.end)"),
    B("c16-df-only-scheduled", ["C16"], SOL, "        for task_name in self.tasks:\n            t = self.tasks[task_name]", "        for task_name in self.get_scheduled_tasks():\n            t = self.tasks[task_name]"),
    B("c16-csv-of-other-frame", ["C16"], SOL, "            return self.to_df().to_csv(index=False, sep=separator)", "            return self.to_df().head(1).to_csv(index=False, sep=separator)"),
    B("c16-excel-start-col-off", ["C16"], XL, "                    task_start + 1,  # start column", "                    task_start,  # start column"),
    B("c16-excel-merge-end-off", ["C16"], XL, "                    task_end,  # end column", "                    task_end + 1,  # end column"),
    B("c16-excel-merge-threshold", ["C16"], XL, "            if task_end - task_start > 1:", "            if task_end - task_start > 2:"),
    B("c16-excel-task-row-off", ["C16"], XL, "            worksheet_task.merge_range(\n                i + 1,  # row", "            worksheet_task.merge_range(\n                i,  # row"),
    B("c16-excel-unscheduled-drawn", ["C16"], XL, "        if not current_task.scheduled:\n            continue\n", ""),
    B("c16-excel-indicator-value-col0", ["C16"], XL, "worksheet_indicator.write(i + 1, 1, indicator_value, cell_indicator_name_format)", "worksheet_indicator.write(i + 1, 0, indicator_value, cell_indicator_name_format)"),
    B("c16-excel-text-is-task-name", ["C16"], XL, '        text_to_display = ",".join(current_task.assigned_resources)', '        text_to_display = task_name'),
    B("c16-smt-fresh-solver", ["C16"], SV, "                outfile.write(self._solver.to_smt2())", "                outfile.write(z3.Solver().to_smt2())"),
    B("c16-smt-optimize-no-method", ["C16"], SV, "            if isinstance(self._solver, z3.Optimize):\n                # z3.Optimize has no to_smt2 method\n                outfile.write(self._solver.sexpr())\n            else:\n                outfile.write(self._solver.to_smt2())", "            outfile.write(self._solver.to_smt2())"),
    B("c16-json-excludes-more", ["C16"], "base.py", 'exclude="problem")', 'exclude={"problem", "indicators"})'),
    B("c16-object-types-swapped", ["C16"], PB, '    "FixedDurationTask": FixedDurationTask,\n    "ZeroDurationTask": ZeroDurationTask,', '    "FixedDurationTask": ZeroDurationTask,\n    "ZeroDurationTask": FixedDurationTask,'),
    T("c16-twin-excel-col-commuted", ["C16"], XL, "                    task_start + 1,  # start column", "                    1 + task_start,  # start column"),
    # ---- C17 ----------------------------------------------------------------------
    B("c17-bar-length-minus-one", ["C17"], PL, "                    start, end - start, bar_color, text_to_display, hatch", "                    start, end - start - 1, bar_color, text_to_display, hatch"),
    B("c17-row-shifted", ["C17"], PL, "            (i * 2, 2),", "            (i * 2 + 1, 2),"),
    B("c17-task-mode-all-tasks", ["C17"], PL, "        tasks_to_render = (\n            solution.get_scheduled_tasks()\n        )", "        tasks_to_render = (\n            solution.tasks\n        )"),
    B("c17-marker-not-centred", ["C17"], PL, "bar_dimension = (start - 0.05, 0.1) if length == 0 else (start, length)", "bar_dimension = (start, 0.1) if length == 0 else (start, length)"),
    B("c17-draw-once-per-resource", ["C17"], PL, "                bar_color = task_colors[task_name]\n                text_to_display = task_name\n                draw_broken_barh_with_text(\n                    start, end - start, bar_color, text_to_display, hatch\n                )", "                bar_color = task_colors[task_name]\n                text_to_display = task_name\n            draw_broken_barh_with_text(\n                start, end - start, bar_color, text_to_display, hatch\n            )"),
    B("c17-label-at-start", ["C17"], PL, "            x=start + length / 2,", "            x=start,"),
    B("c17-task-bar-uses-end", ["C17"], PL, "                task_solution.start,\n                task_solution.duration,", "                task_solution.start,\n                task_solution.end,"),
    B("c17-ticklabels-other-dict", ["C17"], PL, "        plot_ticklabels = list(tasks_to_render.keys())", "        plot_ticklabels = list(solution.tasks.keys())"),
    B("c17-buffer-x-no-origin", ["C17"], PL, "            all_x = [0] + buffer.level_change_times + [solution.horizon]", "            all_x = buffer.level_change_times + [solution.horizon]"),
    B("c17-buffer-segment-same-x", ["C17"], PL, "                X += [all_x[i], all_x[i + 1], np.nan]", "                X += [all_x[i], all_x[i], np.nan]"),
    B("c17-skip-zero-length", ["C17"], PL, "                hatch = None\n                bar_color = task_colors[task_name]", "                hatch = None\n                if end == start:\n                    continue\n                bar_color = task_colors[task_name]"),
    T("c17-twin-row-commuted", ["C17"], PL, "            (i * 2, 2),", "            (2 * i, 2),"),
    T("c17-twin-buffer-enumerate", ["C17"], PL, "            i = 0\n            X = []\n            Y = []\n            for y in buffer.level:\n                X += [all_x[i], all_x[i + 1], np.nan]\n                Y += [y, y, np.nan]\n                i += 1", "            X = []\n            Y = []\n            for i, y in enumerate(buffer.level):\n                X += [all_x[i], all_x[i + 1], np.nan]\n                Y += [y, y, np.nan]"),
]

BS = "base.py"
MUTANTS += [
    # ---- C14 ----------------------------------------------------------------------
    B("c14-task-start-named-by-type", ["C14"], TK, 'self._start = z3.Int(f"{self.name}_start")', 'self._start = z3.Int(f"{self.type}_start")'),
    B("c14-busy-name-drops-task", ["C14"], TK, 'resource_busy_start = z3.Int(f"{resource.name}_busy_{self.name}_start")', 'resource_busy_start = z3.Int(f"{resource.name}_busy_start")'),
    B("c14-maybe-busy-drops-worker", ["C14"], TK, 'f"{worker.name}_maybe_busy_{self.name}_start"', 'f"maybe_busy_{self.name}_start"'),
    B("c14-selection-flag-constant-name", ["C14"], RS, 'worker_is_selected = z3.Bool(f"Selected_{worker.name}_{self._uid}")', 'worker_is_selected = z3.Bool(f"Selected_{self._uid}")'),
    B("c14-overlap-no-uuid", ["C14"], RC, 'f"Overlap_{time_interval_lower_bound}_{time_interval_upper_bound}_{uuid.uuid4().hex[:8]}"', 'f"Overlap_{time_interval_lower_bound}_{time_interval_upper_bound}"'),
    B("c14-buffer-mapping-constant", ["C14"], SV, 'f"Buffer_{buffer.name}_mapping", z3.IntSort(), z3.IntSort()', '"Buffer_mapping", z3.IntSort(), z3.IntSort()'),
    B("c14-duration-same-as-start", ["C14"], TK, 'self._duration = z3.Int(f"{self.name}_duration")', 'self._duration = z3.Int(f"{self.name}_start")'),
    B("c14-task-number-in-scheduled-rule", ["C14"], TK, "            self._end - self._start == self.duration,\n            self._start >= 0,\n", "            self._end - self._start == self.duration,\n            self._start >= self._task_number - self._task_number,\n"),
    B("c14-solver-reads-global", ["C14"], SV, "        self._is_not_optimization_problem = len(self.problem.objectives) == 0", "        import processscheduler.base\n        self._is_not_optimization_problem = len(processscheduler.base.active_problem.objectives) == 0"),
    B("c14-second-global-writer", ["C14"], TK, "        if processscheduler.base.active_problem is None:\n            raise AssertionError(\"No active problem. First create a SchedulingProblem\")", "        if processscheduler.base.active_problem is None:\n            processscheduler.base.active_problem = None\n            raise AssertionError(\"No active problem. First create a SchedulingProblem\")"),
    B("c14-single-objective-by-position", ["C14"], SV, "                equivalent_objective, _ = self.build_equivalent_weighted_objective()", "                equivalent_objective, _ = list(self.problem.objectives.values())[0], None\n                self._objective = equivalent_objective"),
    B("c14-threads-not-reset", ["C14", "C15"], SV, "        else:\n            z3.set_option(\"sat.threads\", 1)\n            z3.set_option(\"smt.threads\", 1)", "        else:\n            pass"),
    # the cache above needs a writer to be a defect: add one
    {"id": "c14-module-cache-written", "kind": "break", "props": ["C14"], "expect": [],
     "edits": [{"file": PB, "old": "_object_types = {", "new": "_seen_names = []\n\n_object_types = {"},
               {"file": PB, "old": "        self.tasks[task.name] = task\n", "new": "        self.tasks[task.name] = task\n        _seen_names.append(task.name)\n"}]},
    T("c14-twin-name-via-local", ["C14"], TK, 'self._start = z3.Int(f"{self.name}_start")', 'start_name = f"{self.name}_start"\n        self._start = z3.Int(start_name)'),
    # ---- C18 ----------------------------------------------------------------------
    B("c18-duration-plain-int", ["C18"], TK, "    duration: PositiveInt\n", "    duration: int\n"),
    B("c18-work-amount-unbounded", ["C18"], TK, "        default=0,\n        ge=0,\n        description=\"The quantity of work", "        default=0,\n        description=\"The quantity of work"),
    B("c18-priority-gt-zero", ["C18"], TK, "        default=1,\n        ge=0,", "        default=1,\n        gt=0,"),
    B("c18-min-duration-unbounded", ["C18"], TK, "    min_duration: int = Field(default=0, ge=0)", "    min_duration: int = Field(default=0)"),
    B("c18-select-min-length-one", ["C18"], RS, "Field(min_length=2)", "Field(min_length=1)"),
    B("c18-cumulative-size-ge-one", ["C18"], RS, "    size: int = Field(gt=1)", "    size: int = Field(ge=1)"),
    B("c18-offset-unbounded", ["C18"], TC, "    offset: int = Field(default=0, ge=0)", "    offset: int = Field(default=0)"),
    B("c18-extra-ignore", ["C18"], BS, 'model_config = ConfigDict(extra="forbid", arbitrary_types_allowed=True)', 'model_config = ConfigDict(extra="ignore", arbitrary_types_allowed=True)'),
    B("c18-kind-literal-extended", ["C18"], TC, '    kind: Literal["lax", "strict"] = Field(default="lax")\n\n    def __init__(self, **data) -> None:\n        super().__init__(**data)\n\n        if self.kind == "strict":\n            scheduled_assertion = self.task._start > self.value', '    kind: Literal["lax", "strict", "tight"] = Field(default="lax")\n\n    def __init__(self, **data) -> None:\n        super().__init__(**data)\n\n        if self.kind == "strict":\n            scheduled_assertion = self.task._start > self.value'),
    B("c18-optional-not-strict", ["C18"], TK, "    optional: StrictBool = Field(", "    optional: bool = Field("),
    B("c18-duplicate-check-after-insert", ["C18"], PB, "        if task.name in self.tasks:\n            raise ValueError(\n                f\"a Task instance with the name {task.name} already exists.\"\n            )\n        self.tasks[task.name] = task", "        self.tasks[task.name] = task\n        if task.name in self.tasks and False:\n            raise ValueError(\n                f\"a Task instance with the name {task.name} already exists.\"\n            )"),
    B("c18-worker-duplicate-by-other-key", ["C18"], PB, "        if worker.name in self.workers:", "        if worker.type in self.workers:"),
    B("c18-buffer-duplicate-unchecked", ["C18"], PB, "        if buffer.name in [b.name for b in self.buffers]:\n            raise ValueError(f\"a buffer with the name {buffer.name} already exists.\")\n", ""),
    B("c18-task-not-registered", ["C18"], TK, "        self._task_number = processscheduler.base.active_problem.add_task(self)  # type: int", "        self._task_number = len(processscheduler.base.active_problem.tasks) + 1  # type: int"),
    B("c18-buffer-levels-check-and", ["C18"], BF, "        if self.initial_level is None and self.final_level is None:", "        if self.initial_level is None and self.final_level is None and self.lower_bound is None:"),
    B("c18-indicator-bounds-or", ["C18"], "indicator_constraint.py", "        if self.lower_bound is None and self.upper_bound is None:", "        if self.lower_bound is None or self.upper_bound is None:"),
    B("c18-required-resource-type-unchecked", ["C18"], TK, "        if not isinstance(resource, Resource):\n            raise TypeError(\"you must pass a Resource instance\")\n", ""),
    B("c18-required-resource-duplicate-ok", ["C18"], TK, "        if resource in self._required_resources:\n            raise ValueError(", "        if False:\n            raise ValueError("),
    B("c18-dependency-mandatory-accepted", ["C18", "C06"], TC, "        if not self.task_2.optional:\n            raise TypeError(f\"Task {self.task_2.name} must be optional.\")\n", ""),
    B("c18-interrupted-accepts-unassigned", ["C18", "C04"], RC, '        if not resource_assigned:\n            raise AssertionError(\n                "The resource is not assigned to any task. Please first assign the resource to one or more tasks, and then add the ResourceInterrupted constraint."\n            )', '        pass'),
    B("c18-minimize-indicator-weight-required", ["C18"], OBJ, '        weight = data.get("weight", 1)', '        weight = data["weight"]'),
    B("c18-constraint-renamed-after-register", ["C18"], CN, "        processscheduler.base.active_problem.add_constraint(self)\n", "        processscheduler.base.active_problem.add_constraint(self)\n        self.name = f\"{self.name}_c\"\n"),
    T("c18-twin-duration-field-gt0", ["C18"], TK, "    duration: PositiveInt\n", "    duration: int = Field(gt=0)\n"),
    T("c18-twin-size-ge-two", ["C18"], RS, "    size: int = Field(gt=1)", "    size: int = Field(ge=2)"),
]


ALL = ["C01", "C02", "C03", "C04", "C05", "C06", "C07", "C08", "C09", "C10", "C11", "C12", "C13", "C14", "C15", "C16", "C17", "C18", "C19"]
# whole-package behaviour preserving transformations (AST computed): every check must stay silent
MUTANTS += [
    {"id": "global-twin-unparse", "kind": "twin", "props": ALL, "global": "unparse"},
    {"id": "global-twin-flip-comparisons", "kind": "twin", "props": ALL, "global": "flip-comparisons"},
    {"id": "global-twin-rename-locals", "kind": "twin", "props": ALL, "global": "rename-locals"},
    {"id": "global-twin-swap-branches", "kind": "twin", "props": ALL, "global": "swap-branches"},
    {"id": "global-twin-none-tests", "kind": "twin", "props": ALL, "global": "none-tests"},
    {"id": "global-twin-augassign", "kind": "twin", "props": ALL, "global": "augassign"},
    {"id": "global-twin-fstring-concat", "kind": "twin", "props": ALL, "global": "fstring-concat"},
    {"id": "global-twin-temp-for-sink", "kind": "twin", "props": ALL, "global": "temp-for-sink"},
    {"id": "global-twin-early-continue", "kind": "twin", "props": ALL, "global": "early-continue"},
    {"id": "global-twin-append-loop-to-extend", "kind": "twin", "props": ALL, "global": "append-loop-to-extend"},
    {"id": "global-twin-else-after-jump", "kind": "twin", "props": ALL, "global": "else-after-jump"},
    {"id": "global-twin-reverse-z3-args", "kind": "twin", "props": ALL, "global": "reverse-z3-args"},
    {"id": "global-twin-swap-eq", "kind": "twin", "props": ALL, "global": "swap-eq"},
    {"id": "global-twin-sub-as-add-neg", "kind": "twin", "props": ALL, "global": "sub-as-add-neg"},
    {"id": "global-twin-isinstance-split", "kind": "twin", "props": ALL, "global": "isinstance-split"},
    {"id": "global-twin-flip-ternary", "kind": "twin", "props": ALL, "global": "flip-ternary"},
    {"id": "global-twin-unpack-in-body", "kind": "twin", "props": ALL, "global": "unpack-in-body"},
    {"id": "global-twin-listcomp-to-loop", "kind": "twin", "props": ALL, "global": "listcomp-to-loop"},
    {"id": "global-twin-values-as-items", "kind": "twin", "props": ALL, "global": "values-as-items"},
]

MUTANTS += [
    B("c06-sorted-copy-half-guard", ["C06"], RC, "                condition_only_scheduled_tasks = z3.And(\n                    sorted_ends[i - 1] >= 0, sorted_starts[i] >= 0\n                )\n                conditions = [condition_only_scheduled_tasks]", "                condition_only_scheduled_tasks = sorted_starts[i] >= 0\n                conditions = [condition_only_scheduled_tasks]"),
    B("c06-contiguous-half-guard", ["C06"], TC, "            condition_only_scheduled_tasks = z3.And(\n                sorted_ends[i - 1] >= 0, sorted_starts[i] >= 0\n            )\n            # finally create the constraint\n            new_cstr = z3.Implies(z3.Or(condition_only_scheduled_tasks), asst)", "            condition_only_scheduled_tasks = z3.And(\n                sorted_starts[i] >= 0\n            )\n            # finally create the constraint\n            new_cstr = z3.Implies(z3.Or(condition_only_scheduled_tasks), asst)"),
]

MUTANTS += [
    B("c04-periodic-interrupted-fixed-fold-wrong", ["C04"], RC, "                                folded_start_task_i + duration <= interval_lower_bound,", "                                folded_start_task_i + duration < interval_lower_bound,"),
    B("c01-base-drops-duplicates-silently", ["C01", "C03", "C10"], BS, '            raise AssertionError(f"assertion {z3_assertion} already added.")', '            return False'),
    B("c01-base-get-assertions-partial", ["C01", "C10"], BS, "        return self._z3_assertions\n", "        return self._z3_assertions[1:]\n"),
]

FN = "function.py"
MUTANTS += [
    # ---- C08: cost functions (R-COST-FUNC) ----------------------------------------
    B("c08-fn-constant-ignores-value", ["C08"], FN, "self.set_function(lambda x: self.value)", "self.set_function(lambda x: self.value * x)"),
    B("c08-fn-linear-swapped", ["C08"], FN, "lambda x: self.slope * x + self.intercept", "lambda x: self.intercept * x + self.slope"),
    B("c08-fn-linear-no-intercept", ["C08"], FN, "lambda x: self.slope * x + self.intercept", "lambda x: self.slope * x"),
    B("c08-fn-poly-constant-is-first", ["C08"], FN, "result = self.coefficients[-1]", "result = self.coefficients[0]"),
    B("c08-fn-poly-power-squares", ["C08"], FN, "                v = v * x\n", "                v = v * v\n"),
    B("c08-fn-poly-skips-highest", ["C08"], FN, "for i in range(len(self.coefficients) - 2, -1, -1):", "for i in range(len(self.coefficients) - 2, 0, -1):"),
    B("c08-fn-poly-skips-negative", ["C08"], FN, "if self.coefficients[i] != 0:", "if self.coefficients[i] > 0:"),
    B("c08-fn-poly-power-starts-at-one", ["C08"], FN, "            v = x\n", "            v = 1\n"),
    B("c08-fn-poly-power-not-advanced-when-zero", ["C08"], FN, "                    result += self.coefficients[i] * v\n                v = v * x\n", "                    result += self.coefficients[i] * v\n                    v = v * x\n"),
    B("c08-fn-call-ignores-argument", ["C08"], FN, "to_return = self._function(value)", "to_return = self._function(0)"),
    B("c08-fn-general-not-installed", ["C08"], FN, "        self.set_function(self.function)\n", ""),
    B("c08-fn-default-one", ["C08"], FN, "self._function = lambda x: 0  # default returns 0", "self._function = lambda x: 1  # default returns 0"),
    T("c08-fn-twin-linear-commuted", ["C08"], FN, "lambda x: self.slope * x + self.intercept", "lambda x: self.intercept + x * self.slope"),
    T("c08-fn-twin-poly-no-zero-test", ["C08"], FN, "                if self.coefficients[i] != 0:\n                    result += self.coefficients[i] * v\n", "                result += self.coefficients[i] * v\n"),
    T("c08-fn-twin-poly-explicit-last", ["C08"], FN, "result = self.coefficients[-1]", "result = self.coefficients[len(self.coefficients) - 1]"),
    T("c08-fn-twin-poly-renamed", ["C08"], FN, "            v = x\n            for i in range(len(self.coefficients) - 2, -1, -1):\n                if self.coefficients[i] != 0:\n                    result += self.coefficients[i] * v\n                v = v * x\n", "            power = x\n            for j in range(len(self.coefficients) - 2, -1, -1):\n                if 0 != self.coefficients[j]:\n                    result = self.coefficients[j] * power + result\n                power = x * power\n"),
    T("c08-fn-twin-constant-def", ["C08"], FN, "        self.set_function(lambda x: self.value)", "        def _const(x):\n            return self.value\n\n        self.set_function(_const)"),
]

RC = "resource_constraint.py"
MUTANTS += [
    # ---- second wave: rules added after the independent seeded changes --------------
    B("c12-bound-kept-after-pop", ["C12", "C13"], SV, "            self._solver.pop(num_pushed_scopes)\n\n        print(f\"\\ttotal number of iterations: {num_iter}\")", "            self._solver.pop(num_pushed_scopes)\n        if current_variable_value is not None and kind == \"min\":\n            self.append_z3_assertion(variable >= current_variable_value)\n\n        print(f\"\\ttotal number of iterations: {num_iter}\")"),
    B("c13-assert-in-solve", ["C12", "C13"], SV, "            # then get the solution\n            model = self._solver.model()\n", "            # then get the solution\n            model = self._solver.model()\n            self._solver.add(self.problem._horizon <= model[self.problem._horizon].as_long())\n"),
    B("c13-bound-before-push", ["C12", "C13"], SV, "            self._solver.push()\n            num_pushed_scopes += 1\n            if kind == \"min\":\n                self.append_z3_assertion(variable < current_variable_value)", "            if kind == \"min\":\n                self.append_z3_assertion(variable <= current_variable_value)\n            self._solver.push()\n            num_pushed_scopes += 1\n            if kind == \"min\":\n                self.append_z3_assertion(variable < current_variable_value)"),
    B("c14-overlaps-accumulated-across-tasks", ["C14", "C04"], RC, "            conds = []\n            for task, (start_task_i, end_task_i) in worker._busy_intervals.items():\n                resource_assigned = True\n                overlaps = []\n", "            conds = []\n            overlaps = []\n            for task, (start_task_i, end_task_i) in worker._busy_intervals.items():\n                resource_assigned = True\n"),
    B("c15-single-objective-not-handed-in-weight-mode", ["C15", "C07"], SV, "            self._objective = list(self.problem.objectives.values())[0]\n            if self.optimizer == \"optimize\":", "            self._objective = list(self.problem.objectives.values())[0]\n            if self.optimizer == \"optimize\" and self.optimize_priority != \"weight\":"),
    B("c15-weighted-objective-not-handed", ["C15", "C07"], SV, "                if self.optimizer == \"optimize\":\n                    # the z3 Optimize solver has to be told what to optimize\n", "                if self.optimizer == \"optimize\" and False:\n                    # the z3 Optimize solver has to be told what to optimize\n"),
    B("c15-objective-direction-crossed", ["C15", "C07"], SV, "                if self._objective.kind == \"maximize\":\n                    self._solver.maximize(variable_to_optimize)\n                elif self._objective.kind == \"minimize\":\n                    self._solver.minimize(variable_to_optimize)", "                if self._objective.kind == \"maximize\":\n                    self._solver.minimize(variable_to_optimize)\n                elif self._objective.kind == \"minimize\":\n                    self._solver.maximize(variable_to_optimize)"),
    T("c15-twin-optimize-flag-hoisted", ["C15", "C07"], SV, "            self._objective = list(self.problem.objectives.values())[0]\n            if self.optimizer == \"optimize\":", "            self._objective = list(self.problem.objectives.values())[0]\n            builtin = self.optimizer == \"optimize\"\n            if builtin:"),
    B("c18-unassigned-test-on-cumulative-object", ["C18", "C04"], RC, "        super().__init__(**data)\n\n        if isinstance(self.resource, Worker):\n            workers = [self.resource]\n        elif isinstance(self.resource, CumulativeWorker):\n            workers = self.resource._cumulative_workers\n\n        resource_assigned = False\n\n        for interval_lower_bound, interval_upper_bound in self.list_of_time_intervals:", "        super().__init__(**data)\n\n        if not self.resource.get_busy_intervals():\n            raise AssertionError(\"The resource is not assigned to any task.\")\n\n        if isinstance(self.resource, Worker):\n            workers = [self.resource]\n        elif isinstance(self.resource, CumulativeWorker):\n            workers = self.resource._cumulative_workers\n\n        resource_assigned = False\n\n        for interval_lower_bound, interval_upper_bound in self.list_of_time_intervals:"),
    B("c19-optional-constraints-left-out-of-the-core-listing", ["C19"], SV, "                            conflicting_contraits.append(\n                                self.problem.constraints[constraint_name]\n                            )", "                            if not self.problem.constraints[constraint_name].optional:\n                                conflicting_contraits.append(\n                                    self.problem.constraints[constraint_name]\n                                )"),
    B("c19-core-listing-truncated", ["C19"], SV, "                    for c in conflicting_contraits:\n                        print(\"\\t -> \", end=\"\")", "                    conflicting_contraits.pop()\n                    for c in conflicting_contraits:\n                        print(\"\\t -> \", end=\"\")"),
    T("c19-twin-core-listing-deduplicated", ["C19"], SV, "                            conflicting_contraits.append(\n                                self.problem.constraints[constraint_name]\n                            )", "                            found = self.problem.constraints[constraint_name]\n                            if found not in conflicting_contraits:\n                                conflicting_contraits.append(found)"),
    B("c11-early-out-uses-delay-in", ["C11", "C02"], TK, "self.append_z3_assertion(resource_busy_end == self._end - early_out)", "self.append_z3_assertion(resource_busy_end == self._end - delay_in)"),
    B("c11-delay-in-subtracted", ["C11", "C02"], TK, "                        resource_busy_start == self._start + delay_in\n", "                        resource_busy_start == self._start - delay_in\n"),
]

MUTANTS += [
    # ---- periodic encodings (R-PERIODIC-CORE, linear integer arithmetic) -----------------
    B("c04-periodic-offset-dropped", ["C04"], RC, "                            # after the interval, and before its next repetition\n                            z3.And(\n                                (start_task_i - self.offset) % self.period\n                                >= interval_upper_bound,", "                            # after the interval, and before its next repetition\n                            z3.And(\n                                (start_task_i) % self.period\n                                >= interval_upper_bound,"),
    B("c04-periodic-unavailable-next-repetition-dropped", ["C04"], RC, "                            z3.And(\n                                (start_task_i - self.offset) % self.period\n                                >= interval_upper_bound,\n                                (start_task_i - self.offset) % self.period + duration\n                                <= interval_lower_bound + self.period,\n                            ),", "                            (start_task_i - self.offset) % self.period\n                            >= interval_upper_bound,"),
    B("c04-periodic-unavailable-before-without-duration", ["C04"], RC, "                            (start_task_i - self.offset) % self.period + duration\n                            <= interval_lower_bound,\n                        )\n                    ]", "                            (start_task_i - self.offset) % self.period\n                            <= interval_lower_bound,\n                        )\n                    ]"),
    B("c04-periodic-unavailable-next-repetition-strict", ["C04", "C05"], RC, "                                (start_task_i - self.offset) % self.period + duration\n                                <= interval_lower_bound + self.period,", "                                (start_task_i - self.offset) % self.period + duration\n                                < interval_lower_bound + self.period,"),
    B("c04-periodic-unavailable-next-repetition-upper", ["C04"], RC, "                                (start_task_i - self.offset) % self.period + duration\n                                <= interval_lower_bound + self.period,", "                                (start_task_i - self.offset) % self.period + duration\n                                <= interval_upper_bound + self.period,"),
    B("c04-periodic-interrupted-next-repetition-dropped", ["C04"], RC, "                                z3.And(\n                                    folded_start_task_i >= interval_upper_bound,\n                                    folded_start_task_i + duration\n                                    <= interval_lower_bound + self.period,\n                                ),\n                                folded_start_task_i + duration <= interval_lower_bound,", "                                folded_start_task_i >= interval_upper_bound,\n                                folded_start_task_i + duration <= interval_lower_bound,"),
    B("c04-periodic-interruptible-start-strict", ["C04", "C05"], RC, "                                    folded_start_task_i <= interval_lower_bound,\n                                    folded_start_task_i >= interval_upper_bound,", "                                    folded_start_task_i < interval_lower_bound,\n                                    folded_start_task_i >= interval_upper_bound,"),
    B("c04-periodic-interruptible-end-uses-start", ["C04"], RC, "                folded_end_task_i = (end_task_i - self.offset) % self.period", "                folded_end_task_i = (start_task_i - self.offset) % self.period"),
    B("c04-periodic-interruptible-end-not-folded-by-offset", ["C04"], RC, "                folded_end_task_i = (end_task_i - self.offset) % self.period", "                folded_end_task_i = (end_task_i + self.offset) % self.period"),
    T("c04-twin-periodic-or-instead-of-xor", ["C04", "C05"], RC, "                        z3.Xor(\n                            # after the interval, and before its next repetition", "                        z3.Or(\n                            # after the interval, and before its next repetition"),
    T("c04-twin-periodic-folded-local", ["C04", "C05"], RC, "                    duration = end_task_i - start_task_i\n                    conds = [\n                        z3.Xor(\n                            # after the interval, and before its next repetition\n                            z3.And(\n                                (start_task_i - self.offset) % self.period\n                                >= interval_upper_bound,\n                                (start_task_i - self.offset) % self.period + duration\n                                <= interval_lower_bound + self.period,\n                            ),\n                            (start_task_i - self.offset) % self.period + duration\n                            <= interval_lower_bound,", "                    duration = end_task_i - start_task_i\n                    folded = (start_task_i - self.offset) % self.period\n                    conds = [\n                        z3.Xor(\n                            z3.And(\n                                interval_upper_bound <= folded,\n                                interval_lower_bound + self.period >= duration + folded,\n                            ),\n                            folded + duration <= interval_lower_bound,"),
]

MUTANTS += [
    # ---- cardinality predicates decided semantically (count / n / size, linear integer arithmetic) ----
    B("c06-force-n-and-shortcut-all-kinds", ["C06"], TC, "        asst = problem_function[self.kind](\n            [(scheduled, True) for scheduled in sched_vars], self.nb_tasks_to_schedule\n        )", "        if self.nb_tasks_to_schedule == len(sched_vars):\n            asst = z3.And(sched_vars)\n        else:\n            asst = problem_function[self.kind](\n                [(scheduled, True) for scheduled in sched_vars], self.nb_tasks_to_schedule\n            )"),
    T("c06-twin-force-n-and-shortcut-not-max", ["C06"], TC, "        asst = problem_function[self.kind](\n            [(scheduled, True) for scheduled in sched_vars], self.nb_tasks_to_schedule\n        )", "        if self.nb_tasks_to_schedule == len(sched_vars) and self.kind != \"max\":\n            asst = z3.And(sched_vars)\n        else:\n            asst = problem_function[self.kind](\n                [(scheduled, True) for scheduled in sched_vars], self.nb_tasks_to_schedule\n            )"),
    B("c06-force-n-or-shortcut-wrong-kind", ["C06"], TC, "        asst = problem_function[self.kind](\n            [(scheduled, True) for scheduled in sched_vars], self.nb_tasks_to_schedule\n        )", "        if self.nb_tasks_to_schedule == 1 and self.kind != \"min\":\n            asst = z3.Or(sched_vars)\n        else:\n            asst = problem_function[self.kind](\n                [(scheduled, True) for scheduled in sched_vars], self.nb_tasks_to_schedule\n            )"),
    T("c06-twin-force-n-or-shortcut-min-one", ["C06"], TC, "        asst = problem_function[self.kind](\n            [(scheduled, True) for scheduled in sched_vars], self.nb_tasks_to_schedule\n        )", "        if self.nb_tasks_to_schedule == 1 and self.kind == \"min\":\n            asst = z3.Or(sched_vars)\n        else:\n            asst = problem_function[self.kind](\n                [(scheduled, True) for scheduled in sched_vars], self.nb_tasks_to_schedule\n            )"),
]

MUTANTS += [
    # ---- third wave: rules added / extended after the independent seeded changes ---------------
    B("c06-tasks-assigned-threshold-minus-one", ["C06", "C08"], IND, "z3.If(start > -1, 1, 0)", "z3.If(start < -1, 0, 1)"),
    T("c06-twin-tasks-assigned-ge-zero", ["C06", "C08"], IND, "z3.If(start > -1, 1, 0)", "z3.If(start >= 0, 1, 0)"),
    T("c06-twin-tasks-assigned-negated", ["C06", "C08"], IND, "z3.If(start > -1, 1, 0)", "z3.If(start <= -1, 0, 1)"),
    B("c07-weight-mode-hands-individual-objectives", ["C07", "C15"], SV, "                equivalent_objective, _ = self.build_equivalent_weighted_objective()\n                if self.optimizer == \"optimize\":\n                    # the z3 Optimize solver has to be told what to optimize\n                    if equivalent_objective.kind == \"maximize\":\n                        self._solver.maximize(equivalent_objective._target)\n                    elif equivalent_objective.kind == \"minimize\":\n                        self._solver.minimize(equivalent_objective._target)\n            else:\n", "                self.build_equivalent_weighted_objective()\n            if self.optimizer == \"optimize\":\n"),
    B("c11-horizon-bound-skipped-for-deadline-tasks", ["C11", "C01"], SV, "            self.append_z3_assertion(task.get_z3_assertions())\n            self.append_z3_assertion(task._end <= self.problem._horizon)", "            self.append_z3_assertion(task.get_z3_assertions())\n            if self.problem.horizon is not None and task.due_date is not None and task.due_date_is_deadline:\n                continue\n            self.append_z3_assertion(task._end <= self.problem._horizon)"),
    B("c12-unscheduled-variable-task-end-free", ["C12", "C06", "C01"], TK, "                    self._start == point_in_past,  # to past\n                    self._end == point_in_past,  # to past\n                    self._duration == 0,", "                    self._start == point_in_past,  # to past\n                    self._duration == 0,"),
    B("c13-initialize-reuses-the-solver", ["C13", "C15"], SV, "        # use the z3 z3.Optimize solver if requested\n        if self._is_optimization_problem and self.optimizer == \"optimize\":", "        # use the z3 z3.Optimize solver if requested\n        if self._solver is not None:\n            pass\n        elif self._is_optimization_problem and self.optimizer == \"optimize\":"),
    {"id": "c14-process-wide-task-counter", "kind": "break", "props": ["C14"], "expect": [], "edits": [
        {"file": TK, "old": "import processscheduler.base\n\n\nclass Task(NamedUIDObject):", "new": "import processscheduler.base\nimport itertools\n\n_task_numbers = itertools.count(1)\n\n\nclass Task(NamedUIDObject):"},
        {"file": TK, "old": "        self._task_number = processscheduler.base.active_problem.add_task(self)  # type: int", "new": "        processscheduler.base.active_problem.add_task(self)\n        self._task_number = next(_task_numbers)"}]},
    B("c14-class-level-counter", ["C14"], TK, "        self._task_number = processscheduler.base.active_problem.add_task(self)  # type: int", "        processscheduler.base.active_problem.add_task(self)\n        Task._created = getattr(Task, \"_created\", 0) + 1\n        self._task_number = Task._created"),
    B("c16-incremental-pops-one-scope-too-few", ["C16", "C13", "C12"], SV, "            self._solver.pop(num_pushed_scopes)", "            self._solver.pop(num_pushed_scopes - 1)"),
]

BS_ = "base.py"
BUF = "buffer.py"
MUTANTS += [
    # ---- fourth wave: R-STREAM-EXACT, R-CHECK-FRESH, R-OWN-ASSERTIONS, R-LOOPVAR per escaped loop, JSON dump whitelist ----
    B("c12-extra-start-bound-at-initialisation", ["C12", "C05"], SV, "            self.append_z3_assertion(task._end <= self.problem._horizon)", "            self.append_z3_assertion(task._end <= self.problem._horizon)\n            if self.problem.horizon is not None:\n                self.append_z3_assertion(task._start < self.problem.horizon)"),
    B("c05-extra-symmetry-breaking-between-tasks", ["C05", "C12"], SV, "        # process resources assertions", "        ordered_tasks = list(self.problem.tasks.values())\n        for i in range(len(ordered_tasks) - 1):\n            self.append_z3_assertion(ordered_tasks[i]._start <= ordered_tasks[i + 1]._start)\n        # process resources assertions"),
    B("c13-unsat-verdict-cached", ["C13", "C12", "C05"], SV, "        init_time = time.perf_counter()\n        sat_result = self._solver.check()\n        check_sat_time = time.perf_counter() - init_time", "        if getattr(self, \"_known_unsat\", False):\n            return z3.unsat, 0.0\n        init_time = time.perf_counter()\n        sat_result = self._solver.check()\n        check_sat_time = time.perf_counter() - init_time\n        self._known_unsat = sat_result == z3.unsat"),
    B("c19-interrupted-bounds-written-into-the-task", ["C19", "C10"], RC, "                    conds.append(min_duration_cond)\n                    if task.max_duration is not None:\n                        conds.append(\n                            task._duration <= task.max_duration + total_overlap\n                        )\n\n            # TODO: remove AND", "                    task.append_z3_assertion(min_duration_cond)\n                    if task.max_duration is not None:\n                        conds.append(\n                            task._duration <= task.max_duration + total_overlap\n                        )\n\n            # TODO: remove AND"),
    B("c04-periodic-interrupted-asserted-after-the-worker-loop", ["C04"], RC, "            # TODO: add AND only of mask is set?\n            core = z3.And(*conds)\n\n            mask = [core]\n            if self.start > 0:\n                mask.append(end_task_i <= self.start)\n            if self.end is not None:\n                mask.append(start_task_i >= self.end)\n\n            if len(mask) > 1:\n                self.set_z3_assertions(z3.Or(*mask))\n            else:\n                self.set_z3_assertions(*mask)\n", "        # TODO: add AND only of mask is set?\n        core = z3.And(*conds)\n\n        mask = [core]\n        if self.start > 0:\n            mask.append(end_task_i <= self.start)\n        if self.end is not None:\n            mask.append(start_task_i >= self.end)\n\n        if len(mask) > 1:\n            self.set_z3_assertions(z3.Or(*mask))\n        else:\n            self.set_z3_assertions(*mask)\n"),
    B("c16-json-dump-drops-defaults", ["C16"], BS_, "        return self.model_dump_json(indent=None if compact else 4, exclude=\"problem\")", "        return self.model_dump_json(indent=None if compact else 4, exclude=\"problem\", exclude_defaults=compact)"),
    T("c16-twin-json-dump-indent-local", ["C16"], BS_, "        return self.model_dump_json(indent=None if compact else 4, exclude=\"problem\")", "        indent = None if compact else 4\n        return self.model_dump_json(exclude=\"problem\", indent=indent)"),
    B("c09-zero-quantity-access-has-no-level", ["C09"], BUF, "    def add_unloading_task(self, task, quantity) -> None:\n        # store quantity\n        self._unloading_tasks[task] = quantity\n", "    def add_unloading_task(self, task, quantity) -> None:\n        # store quantity\n        self._unloading_tasks[task] = quantity\n        if quantity == 0:\n            return\n"),
    B("c02-busy-intervals-memoised", ["C02", "C05"], "resource.py", "        return list(self._busy_intervals.values())", "        if getattr(self, \"_busy_list\", None) is None:\n            self._busy_list = list(self._busy_intervals.values())\n        return self._busy_list"),
    B("c18-priority-must-be-positive", ["C18"], TK, "    priority: int = Field(\n        default=1,\n        ge=0,", "    priority: int = Field(\n        default=1,\n        gt=0,"),
    B("c17-optional-task-at-zero-reported-without-duration", ["C17", "C11"], SV, "                new_task_solution.duration = task.duration\n", "                new_task_solution.duration = 0 if (task.optional and new_task_solution.start <= 0) else task.duration\n"),
]

IC = "indicator_constraint.py"
MUTANTS += [
    # ---- fifth wave: R-INIT-ONCE from the constructor, R-DUP-NAME per registry, R-CLEAN-PAIRED, R-BOUND-PROVENANCE, R-JSON-READ,
    #      R-PRESENCE-TEST, R-MARKER own name; rules shared with C02 C05 C07 C12 C14 ----
    B("c03-constraint-system-built-by-the-constructor-guarded", ["C03", "C01", "C02", "C04", "C13"], SV,
      "        self._solver = None  # to be set in initialize\n",
      "        self._solver = None  # to be set in initialize\n\n        if not self._initialized:\n            self.initialize()\n"),
    B("c04-duplicate-constraint-test-on-the-object", ["C04", "C03", "C18"], PB,
      "        if constraint.name in self.constraints:", "        if constraint in self.constraints:"),
    B("c01-duplicate-task-replaced-silently", ["C01", "C18"], PB,
      "        if task.name in self.tasks:", "        if task.name in self.tasks and self.tasks[task.name] is task:"),
    T("c04-twin-duplicate-constraint-test-keys", ["C04", "C03", "C18"], PB,
      "        if constraint.name in self.constraints:", "        if constraint.name in self.constraints.keys():"),
    B("c02-assignment-reported-from-the-task-span", ["C02", "C11"], SV,
      "                start = z3_sol[st_var].as_long()\n                end = z3_sol[end_var].as_long()\n                if (\n                    start >= 0",
      "                busy_start = z3_sol[st_var].as_long()\n                start = solution.tasks[task_name].start\n                end = solution.tasks[task_name].end\n                if (\n                    busy_start >= 0"),
    B("c05-not-of-a-list-negates-each-assertion", ["C05", "C10"], FOL,
      "        asst = z3.Not(z3.And(_get_assertions(self.constraint)))",
      "        asst = z3.And([z3.Not(a) for a in _constraints_to_list_of_assertions([self.constraint])])"),
    T("c05-twin-not-as-or-of-negations", ["C05", "C10"], FOL,
      "        asst = z3.Not(z3.And(_get_assertions(self.constraint)))",
      "        asst = z3.Or([z3.Not(a) for a in _constraints_to_list_of_assertions([self.constraint])])"),
    B("c07-greatest-start-only-bounded", ["C07", "C08"], OBJ,
      "        assertions = get_maximum(\n            greatest_start_time, [task._start for task in list_of_tasks]\n        )",
      "        assertions = [greatest_start_time >= task._start for task in list_of_tasks]"),
    B("c09-levels-and-times-cleaned-separately", ["C09"], UT,
      "    for a, b in zip(buffer_levels, buffer_change_times):\n        if new_l2.count(b) < 1:\n            new_l1.append(a)\n            new_l2.append(b)\n",
      "    for a in buffer_levels:\n        if not new_l1 or new_l1[-1] != a:\n            new_l1.append(a)\n    for b in buffer_change_times:\n        if new_l2.count(b) < 1:\n            new_l2.append(b)\n"),
    B("c09-level-kept-under-another-condition", ["C09"], UT,
      "        if new_l2.count(b) < 1:\n            new_l1.append(a)\n            new_l2.append(b)\n",
      "        if new_l2.count(b) < 1:\n            new_l2.append(b)\n            if not new_l1 or new_l1[-1] != a:\n                new_l1.append(a)\n"),
    T("c09-twin-clean-with-not-in", ["C09"], UT,
      "        if new_l2.count(b) < 1:\n", "        if b not in new_l2:\n"),
    B("c11-unit-names-from-a-sanitised-base", ["C11"], RS,
      '                name=f"{self.name}_CumulativeWorker_{i+1}",', '                name=f"{self.name.strip()}_CumulativeWorker_{i+1}",'),
    B("c15-indicator-bounds-recorded-by-the-constraint", ["C15", "C07"], IC,
      "        if self.upper_bound is not None:\n            self.set_z3_assertions(\n                self.indicator._indicator_variable <= self.upper_bound\n            )\n",
      "        if self.upper_bound is not None:\n            self.set_z3_assertions(\n                self.indicator._indicator_variable <= self.upper_bound\n            )\n        self.indicator.bounds = (self.lower_bound, self.upper_bound)\n"),
    B("c15-objective-bounds-set-by-the-solver", ["C15", "C07"], SV,
      "        if self._objective._bounds is None:\n            bound = None",
      "        if self._objective._bounds is None and variable is self.problem._horizon:\n            self._objective._bounds = (0, self.problem.horizon)\n        if self._objective._bounds is None:\n            bound = None"),
    B("c16-json-import-drops-falsy-entries", ["C16"], PB,
      "        return _object_types[s_type].model_validate_json(json_string)",
      "        return _object_types[s_type].model_validate({k: v for k, v in s.items() if v})"),
    T("c16-twin-json-import-validates-the-parsed-document", ["C16"], PB,
      "        return _object_types[s_type].model_validate_json(json_string)",
      "        return _object_types[s_type].model_validate(s)"),
    B("c17-empty-solution-is-false", ["C17"], SOL,
      "    def __str__(self):\n        \"\"\"by default, return a panda dataframe, if panda available\"\"\"",
      "    def __len__(self):\n        return len(self.tasks)\n\n    def __str__(self):\n        \"\"\"by default, return a panda dataframe, if panda available\"\"\""),
    B("c17-solution-truth-is-any-scheduled", ["C17"], SOL,
      "    def __str__(self):\n        \"\"\"by default, return a panda dataframe, if panda available\"\"\"",
      "    def __bool__(self):\n        return any(t.scheduled for t in self.tasks.values())\n\n    def __str__(self):\n        \"\"\"by default, return a panda dataframe, if panda available\"\"\""),
    B("c12-max-duration-ignored-with-allowed-durations", ["C12", "C01"], TK,
      "            assertions.append(z3.Or(all_cstr))\n\n        if self.max_duration is not None:",
      "            assertions.append(z3.Or(all_cstr))\n\n        elif self.max_duration is not None:"),
    B("c14-bubble-sort-skips-the-last-pass", ["C14", "C09"], UT,
      "        for i in range(len(arr) - 1):\n            x = arr[i]", "        for i in range(1, len(arr) - 1):\n            x = arr[i]"),
    B("c14-bubble-sort-too-few-passes", ["C14", "C09"], UT,
      "    for _ in range(len(sorted_list)):\n        sorted_list, asst = bubble_up(sorted_list)", "    for _ in range(len(sorted_list) - 2):\n        sorted_list, asst = bubble_up(sorted_list)"),
]

MUTANTS += [
    T("c09-twin-bubble-sort-n-minus-one-passes", ["C09", "C14"], UT,
      "    for _ in range(len(sorted_list)):\n        sorted_list, asst = bubble_up(sorted_list)", "    for _ in range(len(sorted_list) - 1):\n        sorted_list, asst = bubble_up(sorted_list)"),
]

MUTANTS += [
    # ---- after the third round of sub-agent twins: the equivalences the engine now recognises must not hide the neighbouring breaks ----
    T("c18-twin-buffer-levels-all-none", ["C18"], BUF,
      "        if self.initial_level is None and self.final_level is None:",
      "        if all(level is None for level in (self.initial_level, self.final_level)):"),
    B("c18-buffer-levels-any-none", ["C18"], BUF,
      "        if self.initial_level is None and self.final_level is None:",
      "        if any(level is None for level in (self.initial_level, self.final_level)):"),
    T("c18-twin-add-buffer-any", ["C18"], PB,
      "        if buffer.name in [b.name for b in self.buffers]:",
      "        if any(b.name == buffer.name for b in self.buffers):"),
    B("c18-add-buffer-compares-the-object", ["C18"], PB,
      "        if buffer.name in [b.name for b in self.buffers]:",
      "        if any(b.name == buffer for b in self.buffers):"),
    B("c18-add-buffer-all-instead-of-any", ["C18"], PB,
      "        if buffer.name in [b.name for b in self.buffers]:",
      "        if self.buffers and all(b.name == buffer.name for b in self.buffers):"),
    B("c18-task-stored-before-the-duplicate-test", ["C18", "C01"], PB,
      "        if task.name in self.tasks:\n            raise ValueError(\n                f\"a Task instance with the name {task.name} already exists.\"\n            )\n        self.tasks[task.name] = task\n",
      "        known = task.name in self.tasks\n        self.tasks[task.name] = task\n        if known:\n            raise ValueError(\n                f\"a Task instance with the name {task.name} already exists.\"\n            )\n"),
    T("c02-twin-unit-workers-from-the-shares", ["C02"], RS,
      "            for i in range(self.size)\n        ]", "            for i in range(len(productivities))\n        ]"),
    B("c02-one-unit-worker-missing", ["C02"], RS,
      "            for i in range(self.size)\n        ]", "            for i in range(len(productivities) - 1)\n        ]"),
    T("c02-twin-busy-intervals-by-key", ["C02", "C05"], RS,
      "        return list(self._busy_intervals.values())", "        return [self._busy_intervals[t] for t in self._busy_intervals]"),
    B("c02-busy-intervals-all-but-the-first", ["C02"], RS,
      "        return list(self._busy_intervals.values())", "        return [self._busy_intervals[t] for t in list(self._busy_intervals)[1:]]"),
]

_SORT_DUP_OLD = ("    sorted_list = z3_int_list.copy()\n    glob_asst = []\n\n    def bubble_up(ar):\n        arr = ar.copy()\n        local_asst = []\n"
                 "        for i in range(len(arr) - 1):\n            x = arr[i]\n            y = arr[i + 1]\n            x1, y1 = z3.FreshInt(), z3.FreshInt()\n"
                 "            c = z3.If(x <= y, z3.And(x1 == x, y1 == y), z3.And(x1 == y, y1 == x))\n            arr[i] = x1\n            arr[i + 1] = y1\n"
                 "            local_asst.append(c)\n        return arr, local_asst\n\n    for _ in range(len(sorted_list)):\n"
                 "        sorted_list, asst = bubble_up(sorted_list)\n        glob_asst.extend(asst)\n\n    return sorted_list, glob_asst\n")


def _sort_dup_inline(passes="nb_values", first="1", cond="lower <= upper", write_hi="upper_idx"):
    return ("    nb_values = len(z3_int_list)\n    sorted_list = z3_int_list.copy()\n    glob_asst = []\n"
            f"    for _ in range({passes}):\n        next_pass = sorted_list.copy()\n        for upper_idx in range({first}, nb_values):\n"
            "            lower_idx = upper_idx - 1\n            lower, upper = next_pass[lower_idx], next_pass[upper_idx]\n"
            "            new_lower = z3.FreshInt()\n            new_upper = z3.FreshInt()\n"
            "            keep_order = z3.And(new_lower == lower, new_upper == upper)\n"
            "            swap_order = z3.And(new_lower == upper, new_upper == lower)\n"
            f"            glob_asst.append(z3.If({cond}, keep_order, swap_order))\n"
            f"            next_pass[lower_idx] = new_lower\n            next_pass[{write_hi}] = new_upper\n"
            "        sorted_list = next_pass\n\n    return sorted_list, glob_asst\n")


MUTANTS += [
    # ---- the sorter without its sweep helper (inline form of R-SORT-NET) ----
    T("c09-twin-bubble-sort-inlined", ["C09", "C14"], UT, _SORT_DUP_OLD, _sort_dup_inline()),
    T("c09-twin-bubble-sort-inlined-n-minus-one-passes", ["C09", "C14"], UT, _SORT_DUP_OLD, _sort_dup_inline(passes="nb_values - 1")),
    B("c09-inlined-sort-too-few-passes", ["C09", "C14"], UT, _SORT_DUP_OLD, _sort_dup_inline(passes="nb_values - 2")),
    B("c09-inlined-sort-skips-the-first-pair", ["C09", "C14"], UT, _SORT_DUP_OLD, _sort_dup_inline(first="2")),
    B("c09-inlined-sort-larger-first", ["C09", "C14"], UT, _SORT_DUP_OLD, _sort_dup_inline(cond="lower >= upper")),
    B("c09-inlined-sort-result-written-at-the-wrong-position", ["C09", "C14"], UT, _SORT_DUP_OLD, _sort_dup_inline(write_hi="lower_idx")),
    B("c09-inlined-sort-passes-not-chained", ["C09", "C14"], UT, _SORT_DUP_OLD,
      _sort_dup_inline().replace("        next_pass = sorted_list.copy()\n", "        next_pass = z3_int_list.copy()\n")),
]

MUTANTS += [
    # ---- sixth wave: R-CUMUL shares, exact R-WEIGHTED stream, R-SOLVER-READONLY registry mutations, R-NAMES-RESOLVE,
    #      R-JSON-FIELDS serializers, exact user horizon, R-NAME-ORDER; rules shared with C05 C11 ----
    B("c02-unit-productivity-floored-at-one", ["C02"], RS,
      "                productivity=productivities[i],", "                productivity=max(productivities[i], 1),"),
    B("c02-every-unit-gets-the-first-share", ["C02"], RS,
      "                productivity=productivities[i],", "                productivity=productivities[0],"),
    T("c02-twin-unit-productivity-through-a-local", ["C02"], RS,
      "        self._cumulative_workers = [\n            Worker(", "        shares = productivities\n        self._cumulative_workers = [\n            Worker("),
    B("c05-optional-constraint-asserted-as-an-equivalence", ["C05", "C10"], CN,
      "            self.append_z3_assertion(z3.Implies(self._applied, list_of_z3_assertions))",
      "            self.append_z3_assertion(self._applied == list_of_z3_assertions)"),
    B("c15-weighted-objective-asserted-non-negative", ["C15", "C07"], SV,
      "        # create an indicator\n        equivalent_indicator = IndicatorFromMathExpression(",
      "        self.append_z3_assertion(equivalent_single_objective >= 0)\n        # create an indicator\n        equivalent_indicator = IndicatorFromMathExpression("),
    B("c13-solver-pops-the-problem-registries", ["C13"], SV,
      "        # create an indicator\n        equivalent_indicator = IndicatorFromMathExpression(",
      "        self.problem.indicators.pop(\"EquivalentIndicator\", None)\n        self.problem.objectives.pop(\"MinimizeEquivalentObjective\", None)\n        # create an indicator\n        equivalent_indicator = IndicatorFromMathExpression("),
    B("c13-solver-clears-the-objectives-after-use", ["C13"], SV,
      "        self._objective = equivalent_objective\n", "        self._objective = equivalent_objective\n        self.problem.objectives.clear()\n"),
    B("c17-numpy-alias-dropped", ["C17"], PL,
      "    import numpy as np\n", "    from numpy import linspace\n"),
    B("c16-task-serializer-adds-a-key", ["C16"], TK,
      "    def set_assertions(self, list_of_z3_assertions: List[z3.BoolRef]) -> None:",
      "    @model_serializer(mode=\"wrap\")\n    def ser_model(self, handler):\n        exported = handler(self)\n        exported[\"nb_resources\"] = len(self._required_resources)\n        return exported\n\n    def set_assertions(self, list_of_z3_assertions: List[z3.BoolRef]) -> None:"),
    B("c16-cost-function-field-excluded", ["C16"], FN,
      "class ConstantFunction(Function):\n", "class ConstantFunction(Function):\n    unit: str = Field(default=\"\", exclude=True)\n"),
    B("c07-user-horizon-pins-the-horizon-variable", ["C07"], PB,
      "            self.append_z3_assertion(self._horizon <= self.horizon)", "            self.append_z3_assertion(self._horizon == self.horizon)"),
    T("c07-twin-user-horizon-bound-flipped", ["C07", "C01"], PB,
      "            self.append_z3_assertion(self._horizon <= self.horizon)", "            self.append_z3_assertion(self.horizon >= self._horizon)"),
    B("c14-objectives-handed-in-name-order", ["C14"], SV,
      "                for obj in self.problem.objectives.values():\n                    variable_to_optimize = obj._target",
      "                for _, obj in sorted(self.problem.objectives.items()):\n                    variable_to_optimize = obj._target"),
    B("c14-objectives-sorted-by-a-name-key", ["C14"], SV,
      "                for obj in self.problem.objectives.values():\n                    variable_to_optimize = obj._target",
      "                for obj in sorted(self.problem.objectives.values(), key=lambda o: o.name):\n                    variable_to_optimize = obj._target"),
    T("c14-twin-objectives-through-a-list", ["C14", "C07", "C15"], SV,
      "                for obj in self.problem.objectives.values():\n                    variable_to_optimize = obj._target",
      "                for obj in list(self.problem.objectives.values()):\n                    variable_to_optimize = obj._target"),
    B("c11-start-lower-bound-only-without-release-date", ["C11", "C01", "C12"], TK,
      "        assertions = [\n            self._end - self._start == self.duration,\n            self._start >= 0,\n        ]",
      "        assertions = [\n            self._end - self._start == self.duration,\n        ]\n        if self.release_date is None:\n            assertions.append(self._start >= 0)"),
]

MUTANTS += [
    # ---- audit of the claims of R-STREAM-EXACT: an extra assertion placed inside a documented group must not be adopted by it ----
    B("c05-extra-assertion-inside-the-pair-loop", ["C05", "C12"], SV,
      "                    self.append_z3_assertion(\n                        z3.Or(start_task_k >= end_task_i, start_task_i >= end_task_k)\n                    )\n",
      "                    self.append_z3_assertion(\n                        z3.Or(start_task_k >= end_task_i, start_task_i >= end_task_k)\n                    )\n                    self.append_z3_assertion(start_task_k != start_task_i)\n"),
    B("c05-extra-assertion-inside-the-buffer-loop", ["C05", "C12", "C09"], SV,
      "            # first add all buffer assertions\n            self.append_z3_assertion(buffer.get_z3_assertions())\n",
      "            # first add all buffer assertions\n            self.append_z3_assertion(buffer.get_z3_assertions())\n            self.append_z3_assertion(buffer._buffer_levels[0] >= 0)\n"),
    B("c05-extra-assertion-beside-the-work-amount", ["C05", "C12", "C02"], SV,
      "                    self.append_z3_assertion(work_amount_assertion)\n",
      "                    self.append_z3_assertion(work_amount_assertion)\n                    self.append_z3_assertion(task._end - task._start <= task.work_amount)\n"),
    B("c05-extra-assertion-in-the-task-loop-guarded", ["C05", "C12"], SV,
      "            self.append_z3_assertion(task._end <= self.problem._horizon)",
      "            self.append_z3_assertion(task._end <= self.problem._horizon)\n            if task.priority > 1:\n                self.append_z3_assertion(task._start <= self.problem._horizon - task.priority)"),
]

MUTANTS += [
    # ---- audit: an extra assertion slipped into a constructor that already asserts the right thing ----
    B("c05-indicator-also-asserted-non-negative", ["C05", "C08"], IND,
      "        self.append_z3_assertion(self._indicator_variable == expression)", 
      "        self.append_z3_assertion(self._indicator_variable == expression)\n        self.append_z3_assertion(self._indicator_variable >= 0)", occurrence=3),
    B("c05-buffer-initial-level-also-bounded", ["C05", "C09"], BUF,
      "            self.append_z3_assertion(buffer_initial_level == self.initial_level)",
      "            self.append_z3_assertion(buffer_initial_level == self.initial_level)\n        self.append_z3_assertion(buffer_initial_level >= 0)"),
    B("c05-worker-asserts-something", ["C05", "C02"], RS,
      "        # only worker are added to the main context, not SelectWorkers\n",
      "        self.append_z3_assertion(z3.Int(f\"{self.name}_load\") >= 0)\n        # only worker are added to the main context, not SelectWorkers\n"),
    B("c05-selection-also-forces-the-first-worker", ["C05", "C02"], RS,
      "        processscheduler.base.active_problem.add_resource_select_workers(self)",
      "        self.append_z3_assertion(self._selection_dict[self._list_of_workers[0]])\n        processscheduler.base.active_problem.add_resource_select_workers(self)"),
]

MUTANTS += [
    # ---- audit (continued): extra assertions in constraint constructors that already assert their relation ----
    B("c05-indicator-target-also-bounds-the-horizon", ["C05"], IC,
      "        self.set_z3_assertions(self.indicator._indicator_variable == self.value)",
      "        self.set_z3_assertions(self.indicator._indicator_variable == self.value)\n        self.set_z3_assertions(self.indicator._indicator_variable >= 0)"),
    B("c05-condition-schedule-also-pins-the-start", ["C05", "C06"], TC,
      "                self.task._scheduled == False,\n            )\n        )\n",
      "                self.task._scheduled == False,\n            )\n        )\n        self.set_z3_assertions(z3.Implies(self.condition, self.task._start == 0))\n"),
    B("c05-load-buffer-asserts-a-start-bound", ["C05", "C09"], TC,
      "        self.buffer.add_loading_task(self.task, self.quantity)",
      "        self.buffer.add_loading_task(self.task, self.quantity)\n        self.set_z3_assertions(self.task._end >= self.quantity)"),
    B("c05-solve-asserts-before-checking", ["C05", "C12", "C13"], SV,
      "        # for all cases\n", "        self.append_z3_assertion(self.problem._horizon >= 1)\n        # for all cases\n"),
]

MUTANTS += [
    B("c05-condition-schedule-also-pins-the-start-guarded", ["C05", "C06"], TC,
      "                self.task._scheduled == False,\n            )\n        )\n",
      "                self.task._scheduled == False,\n            )\n        )\n        self.set_z3_assertions(z3.Implies(z3.And(self.condition, self.task._scheduled), self.task._start == 0))\n"),
    B("c05-load-buffer-asserts-a-bound-for-mandatory-tasks", ["C05", "C09"], TC,
      "        self.buffer.add_loading_task(self.task, self.quantity)",
      "        self.buffer.add_loading_task(self.task, self.quantity)\n        if not self.task.optional:\n            self.set_z3_assertions(self.task._end >= self.quantity)"),
    B("c05-dependency-also-orders-the-tasks", ["C05", "C06"], TC,
      "        self.set_z3_assertions(self.task_1._scheduled == self.task_2._scheduled)",
      "        self.set_z3_assertions(self.task_1._scheduled == self.task_2._scheduled)\n        self.set_z3_assertions(z3.Implies(z3.And(self.task_1._scheduled, self.task_2._scheduled), self.task_1._end <= self.task_2._start))"),
]

MUTANTS += [
    # ---- audit of the exporters: the right call is there, but its result is post-processed ----
    B("c16-json-dump-post-processed", ["C16"], BS_,
      "        return self.model_dump_json(indent=None if compact else 4, exclude=\"problem\")",
      "        return self.model_dump_json(indent=None if compact else 4, exclude=\"problem\").replace(\"null\", \"0\")"),
    B("c16-json-file-writes-a-truncated-dump", ["C16"], BS_,
      "            f.write(self.to_json(compact))", "            f.write(self.to_json(compact)[:65536])"),
    B("c16-smt-export-post-processed", ["C16"], SV,
      "                outfile.write(self._solver.to_smt2())", "                outfile.write(self._solver.to_smt2().replace(\"(check-sat)\", \"\"))"),
    B("c16-data-frame-drops-unscheduled-rows", ["C16"], SOL,
      "        return tasks_df\n", "        return tasks_df[tasks_df[\"Scheduled\"]]\n"),
    B("c16-csv-file-capped-at-1000-rows", ["C16"], SOL,
      "            self.to_df().to_csv(path_or_buf=csv_filename, index=False, sep=separator)",
      "            self.to_df().head(1000).to_csv(path_or_buf=csv_filename, index=False, sep=separator)"),
]

MUTANTS += [
    # ---- audit: attribute / method names that do not exist on the reported objects (AttributeError at render / export time) ----
    B("c17-renderer-reads-a-field-that-does-not-exist", ["C17"], PL,
      "            all_x = [0] + buffer.level_change_times + [solution.horizon]", "            all_x = [0] + buffer.level_changes_time + [solution.horizon]"),
    B("c17-renderer-calls-a-method-that-does-not-exist", ["C17"], PL,
      "            solution.get_scheduled_tasks()", "            solution.get_schedule_tasks()"),
    B("c16-excel-export-reads-a-missing-field", ["C16"], XL,
      "        for task_name, task_start, task_end in ress.assignments:", "        for task_name, task_start, task_end in ress.assignements:"),
]

_POLY_OLD = ("            for i in range(len(self.coefficients) - 2, -1, -1):\n                if self.coefficients[i] != 0:\n"
             "                    result += self.coefficients[i] * v\n                v = v * x\n")


def _poly_slice(sl):
    return (f"            for coefficient in self.coefficients[{sl}]:\n                if coefficient != 0:\n"
            "                    result += coefficient * v\n                v = v * x\n")


MUTANTS += [
    # ---- walking the coefficients backwards through a slice (reversed slices are index ranges) ----
    T("c08-twin-polynomial-over-a-reversed-slice", ["C08"], FN, _POLY_OLD, _poly_slice("-2::-1")),
    B("c08-polynomial-reversed-slice-takes-the-constant-twice", ["C08"], FN, _POLY_OLD, _poly_slice("::-1")),
    B("c08-polynomial-reversed-slice-stops-before-the-leading-term", ["C08"], FN, _POLY_OLD, _poly_slice("-2:0:-1")),
]

MUTANTS += [
    # ---- seventh wave: R-REPORT-READONLY, computed horizon, read-only export, typed constant names, justified bounds, flowtime premise ----
    B("c09-renderer-prepends-to-the-reported-change-times", ["C09", "C17", "C11", "C16"], PL,
      "            all_x = [0] + buffer.level_change_times + [solution.horizon]",
      "            all_x = buffer.level_change_times\n            all_x.insert(0, 0)\n            all_x.append(solution.horizon)"),
    B("c17-renderer-sorts-the-assignments-in-place", ["C17", "C11"], PL,
      "            for task_name, start, end in ress.assignments:", "            ress.assignments.sort()\n            for task_name, start, end in ress.assignments:"),
    T("c17-twin-renderer-sorts-a-copy", ["C17", "C11"], PL,
      "            for task_name, start, end in ress.assignments:", "            for task_name, start, end in list(ress.assignments):"),
    B("c11-horizon-derived-after-the-bound-is-asserted", ["C11", "C01"], PB,
      "        # the counter to be decremented in the get_unique_negative_integer method\n",
      "        if self.horizon is None and self.delta_time is not None and self.end_time is not None and self.start_time is not None:\n            self.horizon = (self.end_time - self.start_time) // self.delta_time\n        # the counter to be decremented in the get_unique_negative_integer method\n"),
    B("c17-horizon-derived-as-a-float", ["C17", "C11"], PB,
      "        if self.horizon is not None:\n            self.append_z3_assertion(self._horizon <= self.horizon)",
      "        if self.horizon is None and self.delta_time is not None and self.end_time is not None and self.start_time is not None:\n            self.horizon = (self.end_time - self.start_time) / self.delta_time\n        if self.horizon is not None:\n            self.append_z3_assertion(self._horizon <= self.horizon)"),
    T("c17-twin-horizon-derived-as-an-integer-before-the-bound", ["C17", "C11", "C01"], PB,
      "        if self.horizon is not None:\n            self.append_z3_assertion(self._horizon <= self.horizon)",
      "        if self.horizon is None and self.delta_time is not None and self.end_time is not None and self.start_time is not None:\n            self.horizon = (self.end_time - self.start_time) // self.delta_time\n        if self.horizon is not None:\n            self.append_z3_assertion(self._horizon <= self.horizon)"),
    B("c13-export-checks-the-solver", ["C13", "C16"], SV,
      "        with open(smt_filename, \"w\", encoding=\"utf-8\") as outfile:\n",
      "        status = self._solver.check()\n        with open(smt_filename, \"w\", encoding=\"utf-8\") as outfile:\n"),
    B("c16-indicator-constant-named-like-the-indicator", ["C16", "C14"], IND,
      "z3.Int(f\"Indicator_{self.name}\")", "z3.Int(self.name)"),
    B("c15-cost-indicator-declares-a-lower-bound", ["C15", "C07"], IND,
      "        constant_costs = []\n        variable_costs = []\n", "        self.bounds = (0, None)\n        constant_costs = []\n        variable_costs = []\n"),
    B("c15-utilisation-bounds-widened", ["C15", "C07"], IND,
      "        self.bounds = (0, 100)", "        self.bounds = (1, 100)"),
]

MUTANTS += [
    # ---- finding #40 (debug-mode SMT export): silent on a repaired copy ----
    T("c16-repaired-export-asserts-the-tracking-labels", ["C16"], SV,
      "            if isinstance(self._solver, z3.Optimize):\n                # z3.Optimize has no to_smt2 method\n                outfile.write(self._solver.sexpr())\n            else:\n                outfile.write(self._solver.to_smt2())",
      "            if isinstance(self._solver, z3.Optimize):\n                # z3.Optimize has no to_smt2 method\n                text = self._solver.sexpr()\n            else:\n                text = self._solver.to_smt2()\n            if self.debug:\n                labels = \"\".join(f\"(assert {label})\\n\" for label in self._tracked_labels)\n                text = text.replace(\"(check-sat)\", labels + \"(check-sat)\")\n            outfile.write(text)"),
]

MUTANTS += [
    # ---- next to the repairs made after the defect hunt ----
    B("c07-only-the-upper-indicator-bound-asserted", ["C07", "C15"], IND,
      "            if lower_bound is not None:\n                self.append_z3_assertion(self._indicator_variable >= lower_bound)\n", ""),
    B("c04-same-workers-second-side-left-free", ["C04"], RC,
      "        for res_work_2 in self.select_workers_2._selection_dict:\n            if res_work_2 not in self.select_workers_1._selection_dict:\n                self.set_z3_assertions(\n                    z3.Not(self.select_workers_2._selection_dict[res_work_2])\n                )\n", ""),
    B("c17-calendar-ticks-through-pyplot", ["C17"], PL,
      "        gantt_chart.set_xticks(range(solution.horizon + 1))\n        gantt_chart.set_xticklabels(times_str, rotation=60)\n",
      "        plt.xticks(range(solution.horizon + 1), times_str, rotation=60)\n"),
    B("c18-sorter-chain-for-a-single-value", ["C18"], UT,
      "    if n > 1:\n        constraints.append(z3.And([a[i] < a[i + 1] for i in range(n - 1)]))", "    if n > 0:\n        constraints.append(z3.And([a[i] < a[i + 1] for i in range(n - 1)]))"),
]

MUTANTS += [
    # ---- Excel cell colours (repair ba5ebb2) ----
    B("c16-excel-colour-of-variable-length", ["C16"], XL, '        return f"#{hash_str[2:8]:0>6}"', '        return f"#{hash_str[2:8]}"'),
    T("c16-excel-colour-from-a-hexdigest", ["C16"], XL,
      '        hash_str = f"{crc32(a_string.encode(\'utf-8\'))}"\n        # always six digits: crc32 of a short text can be a small number\n        return f"#{hash_str[2:8]:0>6}"',
      '        import hashlib\n        return f"#{hashlib.md5(a_string.encode(\'utf-8\')).hexdigest()[:6]}"'),
    T("c16-excel-colour-zfill", ["C16"], XL, '        return f"#{hash_str[2:8]:0>6}"', '        return f"#{hash_str[2:8].zfill(6)}"'),
]

_DRAIN_OLD = "        constraints_not_from_assertion = [\n            c\n            for c in self.problem.constraints.values()\n            if not c._created_from_assertion\n        ]\n"
_PAIR_OLD = ("            for i in range(nb_intervals):\n                start_task_i, end_task_i = busy_intervals[i]\n"
             "                for k in range(i + 1, nb_intervals):\n                    start_task_k, end_task_k = busy_intervals[k]\n")
_CHAIN_OLD = "    if n > 1:\n        constraints.append(z3.And([a[i] < a[i + 1] for i in range(n - 1)]))"
MUTANTS += [
    # ---- the spellings the fifth twin round taught the extractor: each one again with the wrong polarity / offset ----
    T("c01-drain-through-filterfalse", ["C01", "C10"], SV, _DRAIN_OLD,
      "        from itertools import filterfalse\n        from operator import attrgetter\n        constraints_not_from_assertion = list(filterfalse(attrgetter('_created_from_assertion'), self.problem.constraints.values()))\n"),
    B("c01-drain-through-filter-wrong-polarity", ["C01", "C10"], SV, _DRAIN_OLD,
      "        from operator import attrgetter\n        constraints_not_from_assertion = list(filter(attrgetter('_created_from_assertion'), self.problem.constraints.values()))\n"),
    T("c02-pairwise-enumerate-and-slice", ["C02"], SV, _PAIR_OLD,
      "            for rank, (start_task_i, end_task_i) in enumerate(busy_intervals, start=1):\n                for start_task_k, end_task_k in busy_intervals[rank:]:\n"),
    B("c02-pairwise-enumerate-starts-one-too-far", ["C02"], SV, _PAIR_OLD,
      "            for rank, (start_task_i, end_task_i) in enumerate(busy_intervals, start=2):\n                for start_task_k, end_task_k in busy_intervals[rank:]:\n"),
    B("c02-pairwise-slice-skips-the-neighbour", ["C02"], SV, _PAIR_OLD,
      "            for rank, (start_task_i, end_task_i) in enumerate(busy_intervals, start=1):\n                for start_task_k, end_task_k in busy_intervals[rank + 1:]:\n"),
    T("c09-chain-over-zipped-neighbours", ["C09"], UT, _CHAIN_OLD,
      "    pairs = list(zip(a, a[1:]))\n    if pairs:\n        constraints.append(z3.And([lo < hi for lo, hi in pairs]))"),
    B("c09-chain-over-every-second-neighbour", ["C09"], UT, _CHAIN_OLD,
      "    pairs = list(zip(a, a[2:]))\n    if pairs:\n        constraints.append(z3.And([lo < hi for lo, hi in pairs]))"),
    B("c09-chain-only-from-three-values", ["C09"], UT, _CHAIN_OLD,
      "    if n > 2:\n        constraints.append(z3.And([a[i] < a[i + 1] for i in range(n - 1)]))"),
    B("c09-early-return-for-two-values", ["C09"], UT, _CHAIN_OLD,
      "    if len(a) < 3:\n        return a, constraints\n    constraints.append(z3.And([a[i] < a[i + 1] for i in range(n - 1)]))"),
    T("c09-early-return-for-one-value", ["C09"], UT, _CHAIN_OLD,
      "    if len(a) < 2:\n        return a, constraints\n    constraints.append(z3.And([a[i] < a[i + 1] for i in range(n - 1)]))"),
    B("c16-excel-colour-padded-to-five", ["C16"], XL, '        return f"#{hash_str[2:8]:0>6}"', '        return "#" + hash_str[2:8].rjust(5, "0")'),
    T("c16-excel-colour-rjust", ["C16"], XL, '        return f"#{hash_str[2:8]:0>6}"', '        return "#" + hash_str[2:8].rjust(6, "0")'),
    B("c01-base-store-return-before-the-append", ["C01"], BS,
      "        self._z3_assertions.append(z3_assertion)\n        self._z3_assertion_hashes.append(assertion_hash)\n        return True",
      "        if len(self._z3_assertions) > 1000:\n            return True\n        self._z3_assertions.append(z3_assertion)\n        self._z3_assertion_hashes.append(assertion_hash)\n        return True"),
]

MUTANTS += [
    # ---- eighth wave: rules added for what the seeds showed ----
    B("c16-csv-file-without-the-separator", ["C16"], SOL,
      "            self.to_df().to_csv(path_or_buf=csv_filename, index=False, sep=separator)",
      "            self.to_df().to_csv(path_or_buf=csv_filename, index=False)"),
    B("c16-csv-with-the-index-column", ["C16"], SOL,
      "            return self.to_df().to_csv(index=False, sep=separator)", "            return self.to_df().to_csv(sep=separator)"),
    T("c16-csv-frame-built-once", ["C16"], SOL,
      "        if csv_filename is not None:\n            self.to_df().to_csv(path_or_buf=csv_filename, index=False, sep=separator)\n        else:\n            return self.to_df().to_csv(index=False, sep=separator)",
      "        frame = self.to_df()\n        if csv_filename is None:\n            return frame.to_csv(sep=separator, index=False)\n        frame.to_csv(csv_filename, sep=separator, index=False)"),
    B("c01-solver-drains-the-list-it-is-given", ["C01", "C13"], SV,
      "            for asst in assts:\n                asst_identifier", "            while assts:\n                asst = assts.pop(0)\n                asst_identifier"),
    T("c01-solver-drains-a-copy", ["C01", "C13"], SV,
      "            for asst in assts:\n                asst_identifier", "            assts = list(assts)\n            while assts:\n                asst = assts.pop(0)\n                asst_identifier"),
]

_BOUND_OLD = ("            bound = (\n                self._objective._bounds[0]\n                if kind == \"min\"\n"
              "                else self._objective._bounds[1]\n            )\n")
_HORNER_OLD = ("            for i in range(len(self.coefficients) - 2, -1, -1):\n                if self.coefficients[i] != 0:\n"
               "                    result += self.coefficients[i] * v\n                v = v * x\n")
MUTANTS += [
    # ---- spellings of the sixth twin round, with their wrong-polarity / wrong-offset neighbours ----
    T("c07-bound-by-boolean-index", ["C07", "C15"], SV, _BOUND_OLD, "            bound = self._objective._bounds[kind != \"min\"]\n"),
    B("c07-bound-by-boolean-index-swapped", ["C07", "C15"], SV, _BOUND_OLD, "            bound = self._objective._bounds[kind == \"min\"]\n"),
    T("c08-horner-over-reversed-slice", ["C08"], FN, _HORNER_OLD,
      "            for c in reversed(self.coefficients[:-1]):\n                if c != 0:\n                    result += c * v\n                v = v * x\n"),
    B("c08-horner-over-reversed-slice-off-by-one", ["C08"], FN, _HORNER_OLD,
      "            for c in reversed(self.coefficients[1:]):\n                if c != 0:\n                    result += c * v\n                v = v * x\n"),
]
