"""Catalogue of seeded variants (E8).  Text anchored edits on /repo/processscheduler; a
variant whose anchor no longer exists is skipped, never failed."""

def B(id, props, file, old, new, expect=None, occurrence=1):
    return {"id": id, "kind": "break", "props": props, "file": file, "old": old, "new": new,
            "expect": expect or [], "occurrence": occurrence}

def T(id, props, file, old, new, occurrence=1):
    return {"id": id, "kind": "twin", "props": props, "file": file, "old": old, "new": new,
            "occurrence": occurrence}

TC = "task_constraint.py"
MUTANTS = [
    # ---- C03 ----------------------------------------------------------------------
    B("c03-precedence-strict-as-lax", ["C03"], TC, "scheduled_assertion = lower < upper", "scheduled_assertion = lower <= upper"),
    B("c03-precedence-offset-subtracted", ["C03"], TC, "self.task_before._end + self.offset", "self.task_before._end - self.offset"),
    B("c03-precedence-tight-as-lax", ["C03"], TC, "scheduled_assertion = lower == upper", "scheduled_assertion = lower <= upper"),
    B("c03-startafter-strict-ge", ["C03"], TC, "scheduled_assertion = self.task._start > self.value", "scheduled_assertion = self.task._start >= self.value"),
    B("c03-endbefore-lax-lt", ["C03"], TC, "scheduled_assertion = self.task._end <= self.value", "scheduled_assertion = self.task._end < self.value"),
    B("c03-startat-uses-end", ["C03"], TC, "scheduled_assertion = self.task._start == self.value", "scheduled_assertion = self.task._end == self.value"),
    B("c03-endsynced-start", ["C03"], TC, "scheduled_assertion = self.task_1._end == self.task_2._end", "scheduled_assertion = self.task_1._end == self.task_2._start"),
    B("c03-dontoverlap-and", ["C03"], TC, "scheduled_assertion = z3.Xor(\n            self.task_2._start >= self.task_1._end,", "scheduled_assertion = z3.And(\n            self.task_2._start >= self.task_1._end,"),
    B("c03-dontoverlap-strict", ["C03"], TC, "self.task_2._start >= self.task_1._end,", "self.task_2._start > self.task_1._end,"),
    B("c03-contiguous-from-2", ["C03"], TC, "for i in range(1, len(sorted_starts)):\n            asst = sorted_starts[i] == sorted_ends[i - 1]\n            #  another", "for i in range(2, len(sorted_starts)):\n            asst = sorted_starts[i] == sorted_ends[i - 1]\n            #  another"),
    B("c03-group-end-uses-start", ["C03"], TC, "task._end <= self._end,", "task._start <= self._end,"),
    B("c03-ordered-group-skip-last", ["C03"], TC, "for i in range(len(self.list_of_tasks) - 1):", "for i in range(len(self.list_of_tasks) - 2):"),
    B("c03-ordered-group-strict-as-lax", ["C03"], TC, "self.list_of_tasks[i]._end < self.list_of_tasks[i + 1]._start", "self.list_of_tasks[i]._end <= self.list_of_tasks[i + 1]._start"),
    B("c03-group-window-upper", ["C03"], TC, "self._end <= self.time_interval[1],", "self._end <= self.time_interval[0],"),
    B("c03-nintervals-pb-swapped", ["C03"], TC, 'problem_function = {"min": z3.PbGe, "max": z3.PbLe, "exact": z3.PbEq}\n\n        # count', 'problem_function = {"min": z3.PbLe, "max": z3.PbGe, "exact": z3.PbEq}\n\n        # count'),
    B("c03-nintervals-start-strict", ["C03"], TC, "task._start >= lower_bound,\n                    task._end <= upper_bound,", "task._start > lower_bound,\n                    task._end <= upper_bound,"),
    B("c03-startafter-elif-removed", ["C03"], TC, '        if self.kind == "strict":\n            scheduled_assertion = self.task._start > self.value\n        elif self.kind == "lax":', '        if self.kind == "strict":\n            scheduled_assertion = self.task._start > self.value\n        elif self.kind == "laxx":'),
    T("c03-twin-flip-compare", ["C03"], TC, "scheduled_assertion = lower <= upper", "scheduled_assertion = upper >= lower"),
    T("c03-twin-lt-as-le-minus-one", ["C03"], TC, "scheduled_assertion = lower < upper", "scheduled_assertion = lower + 1 <= upper"),
    T("c03-twin-temp-var", ["C03"], TC, "scheduled_assertion = self.task._start == self.value\n", "the_start = self.task._start\n        scheduled_assertion = the_start == self.value\n"),
    T("c03-twin-range-shift", ["C03"], TC, "for i in range(1, len(sorted_starts)):\n            asst = sorted_starts[i] == sorted_ends[i - 1]\n            #  another set of conditions, related to the time periods\n            condition_only_scheduled_tasks = z3.And(\n                sorted_ends[i - 1] >= 0, sorted_starts[i] >= 0\n            )", "for i in range(len(sorted_starts) - 1):\n            asst = sorted_starts[i + 1] == sorted_ends[i]\n            #  another set of conditions, related to the time periods\n            condition_only_scheduled_tasks = z3.And(\n                sorted_ends[i] >= 0, sorted_starts[i + 1] >= 0\n            )"),
    T("c03-twin-or-instead-of-xor", ["C03"], TC, "scheduled_assertion = z3.Xor(\n            self.task_2._start >= self.task_1._end,", "scheduled_assertion = z3.Or(\n            self.task_2._start >= self.task_1._end,"),
    T("c03-twin-always-guarded", ["C03"], TC, "        if self.task.optional:\n            self.set_z3_assertions(\n                z3.Implies(self.task._scheduled, scheduled_assertion)\n            )\n        else:\n            self.set_z3_assertions(scheduled_assertion)\n\n\nclass TaskStartAfter", "        self.set_z3_assertions(\n            z3.Implies(self.task._scheduled, scheduled_assertion)\n        )\n\n\nclass TaskStartAfter"),
]
