"""Catalogue of seeded variants (E8).  Text anchored edits on /repo/processscheduler; a
variant whose anchor no longer exists is skipped, never failed."""

def B(id, props, file, old, new, expect=None, occurrence=1):
    return {"id": id, "kind": "break", "props": props, "file": file, "old": old, "new": new,
            "expect": expect or [], "occurrence": occurrence}

def T(id, props, file, old, new, occurrence=1):
    return {"id": id, "kind": "twin", "props": props, "file": file, "old": old, "new": new,
            "occurrence": occurrence}

TC = "task_constraint.py"
MUTANTS = [
    # ---- C03 ----------------------------------------------------------------------
    B("c03-precedence-strict-as-lax", ["C03"], TC, "scheduled_assertion = lower < upper", "scheduled_assertion = lower <= upper"),
    B("c03-precedence-offset-subtracted", ["C03"], TC, "self.task_before._end + self.offset", "self.task_before._end - self.offset"),
    B("c03-precedence-tight-as-lax", ["C03"], TC, "scheduled_assertion = lower == upper", "scheduled_assertion = lower <= upper"),
    B("c03-startafter-strict-ge", ["C03"], TC, "scheduled_assertion = self.task._start > self.value", "scheduled_assertion = self.task._start >= self.value"),
    B("c03-endbefore-lax-lt", ["C03"], TC, "scheduled_assertion = self.task._end <= self.value", "scheduled_assertion = self.task._end < self.value"),
    B("c03-startat-uses-end", ["C03"], TC, "scheduled_assertion = self.task._start == self.value", "scheduled_assertion = self.task._end == self.value"),
    B("c03-endsynced-start", ["C03"], TC, "scheduled_assertion = self.task_1._end == self.task_2._end", "scheduled_assertion = self.task_1._end == self.task_2._start"),
    B("c03-dontoverlap-and", ["C03"], TC, "scheduled_assertion = z3.Xor(\n            self.task_2._start >= self.task_1._end,", "scheduled_assertion = z3.And(\n            self.task_2._start >= self.task_1._end,"),
    B("c03-dontoverlap-strict", ["C03"], TC, "self.task_2._start >= self.task_1._end,", "self.task_2._start > self.task_1._end,"),
    B("c03-contiguous-from-2", ["C03"], TC, "for i in range(1, len(sorted_starts)):\n            asst = sorted_starts[i] == sorted_ends[i - 1]\n            #  another", "for i in range(2, len(sorted_starts)):\n            asst = sorted_starts[i] == sorted_ends[i - 1]\n            #  another"),
    B("c03-group-end-uses-start", ["C03"], TC, "task._end <= self._end,", "task._start <= self._end,"),
    B("c03-ordered-group-skip-last", ["C03"], TC, "for i in range(len(self.list_of_tasks) - 1):", "for i in range(len(self.list_of_tasks) - 2):"),
    B("c03-ordered-group-strict-as-lax", ["C03"], TC, "self.list_of_tasks[i]._end < self.list_of_tasks[i + 1]._start", "self.list_of_tasks[i]._end <= self.list_of_tasks[i + 1]._start"),
    B("c03-group-window-upper", ["C03"], TC, "self._end <= self.time_interval[1],", "self._end <= self.time_interval[0],"),
    B("c03-nintervals-pb-swapped", ["C03"], TC, 'problem_function = {"min": z3.PbGe, "max": z3.PbLe, "exact": z3.PbEq}\n\n        # count', 'problem_function = {"min": z3.PbLe, "max": z3.PbGe, "exact": z3.PbEq}\n\n        # count'),
    B("c03-nintervals-start-strict", ["C03"], TC, "task._start >= lower_bound,\n                    task._end <= upper_bound,", "task._start > lower_bound,\n                    task._end <= upper_bound,"),
    B("c03-startafter-elif-removed", ["C03"], TC, '        if self.kind == "strict":\n            scheduled_assertion = self.task._start > self.value\n        elif self.kind == "lax":', '        if self.kind == "strict":\n            scheduled_assertion = self.task._start > self.value\n        elif self.kind == "laxx":'),
    T("c03-twin-flip-compare", ["C03"], TC, "scheduled_assertion = lower <= upper", "scheduled_assertion = upper >= lower"),
    T("c03-twin-lt-as-le-minus-one", ["C03"], TC, "scheduled_assertion = lower < upper", "scheduled_assertion = lower + 1 <= upper"),
    T("c03-twin-temp-var", ["C03"], TC, "scheduled_assertion = self.task._start == self.value\n", "the_start = self.task._start\n        scheduled_assertion = the_start == self.value\n"),
    T("c03-twin-range-shift", ["C03"], TC, "for i in range(1, len(sorted_starts)):\n            asst = sorted_starts[i] == sorted_ends[i - 1]\n            #  another set of conditions, related to the time periods\n            condition_only_scheduled_tasks = z3.And(\n                sorted_ends[i - 1] >= 0, sorted_starts[i] >= 0\n            )", "for i in range(len(sorted_starts) - 1):\n            asst = sorted_starts[i + 1] == sorted_ends[i]\n            #  another set of conditions, related to the time periods\n            condition_only_scheduled_tasks = z3.And(\n                sorted_ends[i] >= 0, sorted_starts[i + 1] >= 0\n            )"),
    T("c03-twin-or-instead-of-xor", ["C03"], TC, "scheduled_assertion = z3.Xor(\n            self.task_2._start >= self.task_1._end,", "scheduled_assertion = z3.Or(\n            self.task_2._start >= self.task_1._end,"),
    T("c03-twin-always-guarded", ["C03"], TC, "        if self.task.optional:\n            self.set_z3_assertions(\n                z3.Implies(self.task._scheduled, scheduled_assertion)\n            )\n        else:\n            self.set_z3_assertions(scheduled_assertion)\n\n\nclass TaskStartAfter", "        self.set_z3_assertions(\n            z3.Implies(self.task._scheduled, scheduled_assertion)\n        )\n\n\nclass TaskStartAfter"),
]

TK = "task.py"
SV = "solver.py"
IND = "indicator.py"
OBJ = "objective.py"
MUTANTS += [
    # ---- C01 ----------------------------------------------------------------------
    B("c01-fixed-drop-start-ge-0", ["C01"], TK, "            self._end - self._start == self.duration,\n            self._start >= 0,\n", "            self._end - self._start == self.duration,\n"),
    B("c01-fixed-duration-off", ["C01"], TK, "self._end - self._start == self.duration,", "self._end - self._start >= self.duration,"),
    B("c01-variable-min-strict", ["C01", "C05"], TK, "self._duration >= self.min_duration,", "self._duration > self.min_duration,", expect=["R-TASK-OBLIG", "R-TASK-EXACT"]),
    B("c01-variable-skip-max", ["C01"], TK, "        if self.max_duration is not None:\n            assertions.append(self._duration <= self.max_duration)\n", "        if self.max_duration is not None:\n            pass\n"),
    B("c01-variable-allowed-partial", ["C01"], TK, "self._duration == duration for duration in self.allowed_durations\n", "self._duration >= duration for duration in self.allowed_durations\n"),
    B("c01-variable-sum-wrong", ["C01"], TK, "self._start + self._duration == self._end,", "self._start + self._duration <= self._end,"),
    B("c01-zero-drop-equal", ["C01"], TK, "            self._start == self._end,\n            self._start >= 0,", "            self._start <= self._end,\n            self._start >= 0,"),
    B("c01-release-wrong-point", ["C01"], TK, "self._release_due_assertions.append(self._start >= self.release_date)", "self._release_due_assertions.append(self._end >= self.release_date)"),
    B("c01-release-guard-wider", ["C01"], TK, "if self.release_date > 0:  # other wise redundant constraint", "if self.release_date > 1:  # other wise redundant constraint"),
    B("c01-deadline-on-start", ["C01"], TK, "self._release_due_assertions.append(self._end <= self.due_date)", "self._release_due_assertions.append(self._start <= self.due_date)"),
    B("c01-deadline-inverted-flag", ["C01"], TK, "            if self.due_date_is_deadline:\n", "            if not self.due_date_is_deadline:\n"),
    B("c01-release-list-not-merged", ["C01"], TK, "        list_of_z3_assertions = list_of_z3_assertions + self._release_due_assertions\n", ""),
    B("c01-horizon-on-start", ["C01"], SV, "self.append_z3_assertion(task._end <= self.problem._horizon)", "self.append_z3_assertion(task._start <= self.problem._horizon)"),
    B("c01-horizon-only-mandatory", ["C01"], SV, "            self.append_z3_assertion(task._end <= self.problem._horizon)", "            if not task.optional:\n                self.append_z3_assertion(task._end <= self.problem._horizon)"),
    B("c01-task-drain-filtered", ["C01"], SV, "        for task in self.problem.tasks.values():\n            self.append_z3_assertion(task.get_z3_assertions())", "        for task in self.problem.tasks.values():\n            if task.work_amount == 0:\n                self.append_z3_assertion(task.get_z3_assertions())"),
    B("c01-problem-horizon-bound-dropped", ["C01"], "problem.py", "            self.append_z3_assertion(self._horizon <= self.horizon)", "            pass"),
    B("c01-problem-assertions-not-drained", ["C01"], SV, "        for z3_assertion in self.problem.get_z3_assertions():\n            self.append_z3_assertion(z3_assertion)", "        for z3_assertion in self.problem.get_z3_assertions()[1:]:\n            self.append_z3_assertion(z3_assertion)"),
    T("c01-twin-duration-flip", ["C01", "C05"], TK, "self._end - self._start == self.duration,", "self.duration == self._end - self._start,"),
    T("c01-twin-variable-as-difference", ["C01", "C05"], TK, "self._start + self._duration == self._end,", "self._end - self._start == self._duration,"),
    T("c01-twin-zero-as-difference", ["C01", "C05"], TK, "            self._start == self._end,\n            self._start >= 0,", "            self._end - self._start == 0,\n            0 <= self._start,"),
    T("c01-twin-horizon-ge", ["C01"], SV, "self.append_z3_assertion(task._end <= self.problem._horizon)", "self.append_z3_assertion(self.problem._horizon >= task._end)"),
    T("c01-twin-drain-one-loop", ["C01"], SV, "        for ress in self.problem.workers.values():\n            self.append_z3_assertion(ress.get_z3_assertions())\n\n        # process resource intervals\n        for ress in self.problem.workers.values():\n", "        for ress in self.problem.workers.values():\n            self.append_z3_assertion(ress.get_z3_assertions())\n"),
    # ---- C06 ----------------------------------------------------------------------
    B("c06-startat-guard-dropped", ["C06"], TC, "            self.set_z3_assertions(\n                z3.Implies(self.task._scheduled, scheduled_assertion)\n            )\n        else:\n            self.set_z3_assertions(scheduled_assertion)\n\n\nclass TaskStartAfter", "            self.set_z3_assertions(scheduled_assertion)\n        else:\n            self.set_z3_assertions(scheduled_assertion)\n\n\nclass TaskStartAfter"),
    B("c06-precedence-one-flag", ["C06"], TC, "z3.And(self.task_before._scheduled, self.task_after._scheduled),\n                    scheduled_assertion,", "z3.And(self.task_before._scheduled),\n                    scheduled_assertion,"),
    B("c06-startsynced-inverted-test", ["C06"], TC, "        if self.task_1.optional or self.task_2.optional:\n            # both tasks must be scheduled so that the startsynced", "        if self.task_1.optional and self.task_2.optional:\n            # both tasks must be scheduled so that the startsynced"),
    B("c06-flowtime-drop-flag", ["C06"], OBJ, "task_ends.append(task._end * task._scheduled)", "task_ends.append(task._end)"),
    B("c06-priorities-drop-flag", ["C06"], OBJ, "all_priorities.append(task._end * task.priority * task._scheduled)", "all_priorities.append(task._end * task.priority)"),
    B("c06-tardiness-drop-flag", ["C06"], IND, "z3.And(t._end > t.due_date, t._scheduled),", "z3.And(t._end > t.due_date),"),
    B("c06-earliness-drop-flag", ["C06"], IND, "z3.And(t.due_date - t._end >= 0, t._scheduled),", "z3.And(t.due_date - t._end >= 0),"),
    B("c08-tasks-assigned-always", ["C08"], IND, "z3.If(start > -1, 1, 0)", "z3.If(True, 1, 0)"),
    B("c06-release-outside-if", ["C06"], TK, "self._release_due_assertions.append(self._start >= self.release_date)", "self.append_z3_assertion(self._start >= self.release_date)"),
    B("c06-zero-task-no-set-assertions", ["C06", "C01"], TK, "            self._start == self._end,\n            self._start >= 0,\n        ]\n\n        self.set_assertions(assertions)", "            self._start == self._end,\n            self._start >= 0,\n        ]\n\n        self.append_z3_list_of_assertions(assertions)"),
    B("c06-unscheduled-end-not-moved", ["C06"], TK, "                not_scheduled_assertion = z3.And(\n                    self._start == point_in_past,  # to past\n                    self._end == point_in_past,  # to past\n                )", "                not_scheduled_assertion = z3.And(\n                    self._start == point_in_past,  # to past\n                )"),
    B("c06-variable-unscheduled-duration-free", ["C06"], TK, "                    self._end == point_in_past,  # to past\n                    self._duration == 0,\n", "                    self._end == point_in_past,  # to past\n"),
    B("c06-force-schedule-negated", ["C06"], TC, "self.set_z3_assertions(self.task._scheduled == self.to_be_scheduled)", "self.set_z3_assertions(self.task._scheduled != self.to_be_scheduled)"),
    B("c06-condition-schedule-one-way", ["C06"], TC, "                self.task._scheduled == True,\n                self.task._scheduled == False,", "                self.task._scheduled == True,\n                True,"),
    B("c06-dependency-wrong-task", ["C06"], TC, "self.set_z3_assertions(self.task_1._scheduled == self.task_2._scheduled)", "self.set_z3_assertions(self.task_1._scheduled == self.task_1._scheduled)"),
    B("c06-force-n-pb-table", ["C06"], TC, 'problem_function = {"min": z3.PbGe, "max": z3.PbLe, "exact": z3.PbEq}\n\n        # first check that all tasks from the list_of_optional_tasks', 'problem_function = {"min": z3.PbGe, "max": z3.PbLe, "exact": z3.PbLe}\n\n        # first check that all tasks from the list_of_optional_tasks'),
    B("c06-force-schedule-accepts-mandatory", ["C06", "C18"], TC, '        if not self.task.optional:\n            raise TypeError(f"Task {self.task.name} must be optional.")\n\n        self.set_z3_assertions(self.task._scheduled == self.to_be_scheduled)', '        self.set_z3_assertions(self.task._scheduled == self.to_be_scheduled)'),
    B("c06-interrupted-min-duration-unguarded", ["C06"], "resource_constraint.py", "                    if task.optional:\n                        # the duration of a task that is not scheduled is 0\n                        min_duration_cond = z3.Implies(\n                            task._scheduled, min_duration_cond\n                        )\n", ""),
    T("c06-twin-guard-as-or", ["C06", "C03"], TC, "z3.Implies(self.task._scheduled, scheduled_assertion)\n            )\n        else:\n            self.set_z3_assertions(scheduled_assertion)\n\n\nclass TaskStartAfter", "z3.Implies(z3.And(self.task._scheduled), scheduled_assertion)\n            )\n        else:\n            self.set_z3_assertions(scheduled_assertion)\n\n\nclass TaskStartAfter"),
    T("c06-twin-flag-first-in-product", ["C06"], OBJ, "task_ends.append(task._end * task._scheduled)", "task_ends.append(task._scheduled * task._end)"),
]

FOL = "first_order_logic.py"
CN = "constraint.py"
MUTANTS += [
    # ---- C10 ----------------------------------------------------------------------
    B("c10-or-builds-and", ["C10"], FOL, "        asst = z3.Or(\n            [\n                z3.And(_get_assertions(constraint))", "        asst = z3.And(\n            [\n                z3.And(_get_assertions(constraint))"),
    B("c10-or-flattens-operands", ["C10"], FOL, "        asst = z3.Or(\n            [\n                z3.And(_get_assertions(constraint))\n                for constraint in self.list_of_constraints\n            ]\n        )", "        asst = z3.Or(_constraints_to_list_of_assertions(self.list_of_constraints))"),
    B("c10-and-builds-or", ["C10"], FOL, "asst = z3.And(_constraints_to_list_of_assertions(self.list_of_constraints))", "asst = z3.Or(_constraints_to_list_of_assertions(self.list_of_constraints))"),
    B("c10-ifthenelse-swapped", ["C10"], FOL, "            z3.And(_constraints_to_list_of_assertions(self.then_list_of_constraints)),\n            z3.And(_constraints_to_list_of_assertions(self.else_list_of_constraints)),", "            z3.And(_constraints_to_list_of_assertions(self.else_list_of_constraints)),\n            z3.And(_constraints_to_list_of_assertions(self.then_list_of_constraints)),"),
    B("c10-implies-reversed", ["C10"], FOL, "        asst = z3.Implies(\n            self.condition,\n            z3.And(_constraints_to_list_of_assertions(self.list_of_constraints)),\n        )", "        asst = z3.Implies(\n            z3.And(_constraints_to_list_of_assertions(self.list_of_constraints)),\n            self.condition,\n        )"),
    B("c10-not-dropped", ["C10"], FOL, "asst = z3.Not(z3.And(_get_assertions(self.constraint)))", "asst = z3.And(_get_assertions(self.constraint))"),
    B("c10-xor-same-operand", ["C10"], FOL, "            z3.And(_get_assertions(self.constraint_1)),\n            z3.And(_get_assertions(self.constraint_2)),", "            z3.And(_get_assertions(self.constraint_1)),\n            z3.And(_get_assertions(self.constraint_1)),"),
    B("c10-no-tag", ["C10"], FOL, "        constraint.set_created_from_assertion()\n", "        pass\n"),
    B("c10-tag-method-noop", ["C10"], CN, "        self._created_from_assertion = True\n", "        self._created_from_assertion = False\n"),
    B("c10-drain-filter-removed", ["C10"], SV, "            for c in self.problem.constraints.values()\n            if not c._created_from_assertion\n", "            for c in self.problem.constraints.values()\n"),
    B("c10-drain-filter-inverted", ["C10", "C01"], SV, "            if not c._created_from_assertion\n", "            if c._created_from_assertion\n"),
    B("c10-optional-emits-bare", ["C10"], CN, "            self.append_z3_assertion(z3.Implies(self._applied, list_of_z3_assertions))", "            self.append_z3_assertion(list_of_z3_assertions)"),
    B("c10-optional-implication-reversed", ["C10"], CN, "z3.Implies(self._applied, list_of_z3_assertions)", "z3.Implies(list_of_z3_assertions, self._applied)"),
    B("c10-indicator-target-direct", ["C10"], "indicator_constraint.py", "self.set_z3_assertions(self.indicator._indicator_variable == self.value)", "self.append_z3_assertion(self.indicator._indicator_variable == self.value)"),
    B("c10-expression-negated", ["C10"], CN, "        self.set_z3_assertions(self.expression)", "        self.set_z3_assertions(z3.Not(self.expression))"),
    B("c10-force-apply-pb", ["C10"], CN, 'problem_function = {"min": z3.PbGe, "max": z3.PbLe, "exact": z3.PbEq}', 'problem_function = {"min": z3.PbLe, "max": z3.PbLe, "exact": z3.PbEq}'),
    B("c10-force-apply-count-constant", ["C10"], CN, "[(applied, True) for applied in applied_vars], self.nb_constraints_to_apply", "[(applied, True) for applied in applied_vars], 1"),
    B("c10-force-apply-accepts-mandatory", ["C10", "C18"], CN, "            if not constraint.optional:\n                raise TypeError(", "            if False:\n                raise TypeError("),
    T("c10-twin-and-via-helper-var", ["C10"], FOL, "        asst = z3.And(_constraints_to_list_of_assertions(self.list_of_constraints))\n", "        operands = _constraints_to_list_of_assertions(self.list_of_constraints)\n        asst = z3.And(operands)\n"),
    T("c10-twin-not-star", ["C10"], FOL, "asst = z3.Not(z3.And(_get_assertions(self.constraint)))", "inner = _get_assertions(self.constraint)\n        asst = z3.Not(z3.And(inner))"),
]

RS = "resource.py"
PB = "problem.py"
MUTANTS += [
    # ---- C02 ----------------------------------------------------------------------
    B("c02-pair-loop-skips-neighbour", ["C02"], SV, "for k in range(i + 1, nb_intervals):", "for k in range(i + 2, nb_intervals):"),
    B("c02-pair-strict", ["C02", "C05"], SV, "z3.Or(start_task_k >= end_task_i, start_task_i >= end_task_k)", "z3.Or(start_task_k > end_task_i, start_task_i >= end_task_k)", expect=["R-PAIRWISE", "R-PAIRWISE-EXACT"]),
    B("c02-pair-wrong-end", ["C02"], SV, "z3.Or(start_task_k >= end_task_i, start_task_i >= end_task_k)", "z3.Or(start_task_k >= end_task_i, start_task_i >= start_task_k)"),
    B("c02-pair-and", ["C02", "C05"], SV, "z3.Or(start_task_k >= end_task_i, start_task_i >= end_task_k)", "z3.And(start_task_k >= end_task_i, start_task_i >= end_task_k)"),
    B("c02-pair-only-first-worker", ["C02"], SV, "        for ress in self.problem.workers.values():\n            busy_intervals = ress.get_busy_intervals()", "        for ress in list(self.problem.workers.values())[:1]:\n            busy_intervals = ress.get_busy_intervals()"),
    B("c02-pair-unpack-swapped", ["C02"], SV, "                    start_task_k, end_task_k = busy_intervals[k]", "                    end_task_k, start_task_k = busy_intervals[k]"),
    B("c02-early-out-added", ["C02"], TK, "self.append_z3_assertion(resource_busy_end == self._end - early_out)", "self.append_z3_assertion(resource_busy_end == self._end + early_out)"),
    B("c02-delay-in-ignored", ["C02"], TK, "                        resource_busy_start == self._start + delay_in\n", "                        resource_busy_start == self._start\n"),
    B("c02-dynamic-no-nonneg-span", ["C02"], TK, "                self.append_z3_assertion(resource_busy_start <= resource_busy_end)\n", ""),
    B("c02-dynamic-outside-task", ["C02"], TK, "self.append_z3_assertion(resource_busy_end <= self._end)", "self.append_z3_assertion(resource_busy_end >= self._end)"),
    B("c02-busy-tuple-swapped", ["C02"], TK, "resource.add_busy_interval(self, (resource_busy_start, resource_busy_end))", "resource.add_busy_interval(self, (resource_busy_end, resource_busy_start))"),
    B("c02-alternative-unselected-at-zero", ["C02"], TK, "                single_point_in_past = (\n                    processscheduler.base.active_problem.get_unique_negative_integer()\n                )", "                single_point_in_past = 0"),
    B("c02-alternative-selected-not-synced", ["C02"], TK, "                    resource_maybe_busy_end == self._end,\n                )", "                    resource_maybe_busy_end <= self._end,\n                )"),
    B("c02-alternative-branches-swapped", ["C02"], TK, "assertion = z3.If(selected_variable, schedule_as_usual, move_to_past)", "assertion = z3.If(selected_variable, move_to_past, schedule_as_usual)"),
    B("c02-selection-assertion-dropped", ["C02"], TK, "            self.append_z3_assertion(resource._selection_assertion)\n", ""),
    B("c02-select-pb-min-as-max", ["C02"], RS, 'problem_function = {"min": z3.PbGe, "max": z3.PbLe, "exact": z3.PbEq}', 'problem_function = {"min": z3.PbLe, "max": z3.PbGe, "exact": z3.PbEq}'),
    B("c02-select-count-off", ["C02"], RS, "[(selected, True) for selected in selection_list], self.nb_workers_to_select", "[(selected, True) for selected in selection_list], self.nb_workers_to_select + 1"),
    B("c02-select-flags-partial", ["C02"], RS, "        selection_list = list(self._selection_dict.values())\n", "        selection_list = list(self._selection_dict.values())[1:]\n"),
    B("c02-select-too-many-accepted", ["C02", "C18"], RS, "        if self.nb_workers_to_select > len(self.list_of_workers):", "        if self.nb_workers_to_select > len(self.list_of_workers) + 1:"),
    B("c02-cumulative-one-less", ["C02"], RS, "            for i in range(self.size)\n        ]", "            for i in range(self.size - 1)\n        ]"),
    B("c02-cumulative-select-max", ["C02"], RS, 'list_of_workers=self._cumulative_workers, nb_workers_to_select=1, kind="min"', 'list_of_workers=self._cumulative_workers, nb_workers_to_select=1, kind="max"'),
    B("c02-negative-counter-reused", ["C02"], PB, "        self._unique_integer += -1\n        return self._unique_integer", "        return self._unique_integer"),
    B("c02-negative-counter-from-zero", ["C02"], PB, "        self._unique_integer = -1\n", "        self._unique_integer = 1\n"),
    B("c02-work-amount-strict", ["C02", "C05"], SV, "z3.Sum(total_work_for_all_resources) >= task.work_amount", "z3.Sum(total_work_for_all_resources) > task.work_amount"),
    B("c02-work-amount-no-productivity", ["C02"], SV, "work_contribution = required_resource.productivity * (\n                        interv_up - interv_low\n                    )", "work_contribution = (\n                        interv_up - interv_low\n                    )"),
    B("c02-work-amount-unguarded", ["C02", "C06"], SV, "                    if task.optional:\n                        work_amount_assertion = z3.Implies(\n                            task._scheduled, work_amount_assertion\n                        )\n", ""),
    B("c02-worker-drain-dropped", ["C02"], SV, "        for ress in self.problem.workers.values():\n            self.append_z3_assertion(ress.get_z3_assertions())\n", "        for ress in self.problem.workers.values():\n            pass\n"),
    B("c02-busy-intervals-partial", ["C02"], RS, "return list(self._busy_intervals.values())", "return list(self._busy_intervals.values())[:-1]"),
    T("c02-twin-pair-flipped", ["C02", "C05"], SV, "z3.Or(start_task_k >= end_task_i, start_task_i >= end_task_k)", "z3.Or(end_task_k <= start_task_i, end_task_i <= start_task_k)"),
    T("c02-twin-busy-end-first", ["C02"], TK, "                self.append_z3_assertion(resource_busy_end <= self._end)\n                self.append_z3_assertion(resource_busy_start >= self._start)\n", "                self.append_z3_assertion(resource_busy_start >= self._start)\n                self.append_z3_assertion(self._end >= resource_busy_end)\n"),
    T("c02-twin-static-unconditional", ["C02"], TK, "                if early_out > 0:\n                    self.append_z3_assertion(resource_busy_end == self._end - early_out)\n                else:\n                    self.append_z3_assertion(resource_busy_end == self._end)\n", "                self.append_z3_assertion(resource_busy_end == self._end - early_out)\n"),
]
