"""C08 - indicator values equal their definition.

R-IND-DEF        per indicator class (and objective-built indicator) the term equated with the indicator variable has the
                 canonical form of the documented definition
R-SIBLING-BRANCH the fixed-horizon and free-horizon branches of the utilisation denote the same function of the horizon
R-PRECISION      no python-level truncation of a quotient of constants before it multiplies a term
R-MINMAX         util.get_maximum / get_minimum: the value is one of the elements and bounds all of them
R-IND-NAME       default names of distinct indicator classes differ (the solution is keyed by indicator name)
R-IND-READ       build_solution stores model[indicator variable] under the indicator's name, for every indicator
R-IND-CONSTRAINT IndicatorTarget / IndicatorBounds
R-COST-FUNC      the callable each cost Function class installs denotes the documented function of its argument
                 (constant, slope*x+intercept, sum of coefficients[j]*x^(n-j) by loop invariant), and Function.__call__
                 returns that callable's value for its argument
R-UNION-EXH      (known) readers of a cumulative resource's own busy dict
Oracle: docs/indicator.md, docs/objectives.md, docstrings (Pinedo definitions).
"""
from __future__ import annotations

from sa import project as P
from sa.decide import canon, lin
from sa.interp import Entry
from sa.lib import *
from sa.terms import subterms
from rules import resource_constraints
from rules.task_constraints import mandatory_runs

SELF = S("self")
OPAQUE = ("sort_no_duplicates", "sort_duplicates", "get_minimum", "get_maximum")
T = lambda n: S(f"self.{n}")
AP = ("glob", "processscheduler.base.active_problem")


def ind_var(run, obj=SELF):
    v = run.heap.get((obj, "_indicator_variable"))
    if not isinstance(v, tuple):
        raise P.AnalysisError("indicator variable not found")
    return v


def definition_of(run, obj=SELF):
    """the expression E of the single emission `indicator_variable == E` owned by obj, plus other emissions"""
    var = ind_var(run, obj)
    own = [e for e in run.emissions if e.owner == obj]
    defs, rest = [], []
    for e in own:
        t = e.term
        if is_app(t, "==") and len(t) == 4 and var in (t[2], t[3]) and not e.loops and not e.guards:
            defs.append((t[3] if t[2] == var else t[2], e))
        else:
            rest.append(e)
    return var, defs, rest


def tasks_iter(run, field="list_of_tasks"):
    v = leaf_value(run, f"self.{field}")
    if v is not None and v[1] is None:
        return ("mcall", A(AP, "tasks"), "values", (), ())
    return T(field)


def busy_each(res, body_fn):
    L = loop("b0.0", ("mcall", A(res, "_busy_intervals"), "values", (), ()))
    return ("each", (L,), (), body_fn(elem(L)))


def spec_utilization(run, res=None):
    res = res if res is not None else T("resource")
    total = app("Sum", busy_each(res, lambda b: sub(idx(b, 1), idx(b, 0))))
    v = run.doms.get(A(AP, "horizon"))
    h = A(AP, "horizon") if (v is not None and not v.can_none) else A(AP, "_horizon")
    return app("/", mul(total, K(100)), h)


def spec_nb_assigned(run):
    return app("Sum", busy_each(T("resource"), lambda b: If(ge(idx(b, 0), K(0)), K(1), K(0))))


def spec_tardiness(run):
    L = loop("b0.0", tasks_iter(run))
    t = elem(L)
    late = sub(A(t, "_end"), A(t, "due_date"))
    return app("Sum", ("each", (L,), (), If(And(gt(A(t, "_end"), A(t, "due_date")), A(t, "_scheduled")), mul(late, A(t, "priority")), K(0))))


def spec_earliness(run):
    L = loop("b0.0", tasks_iter(run))
    t = elem(L)
    early = sub(A(t, "due_date"), A(t, "_end"))
    return app("Sum", ("each", (L,), (), If(And(ge(early, K(0)), A(t, "_scheduled")), early, K(0))))


def spec_tardy_count(run):
    L = loop("b0.0", tasks_iter(run))
    t = elem(L)
    return app("Sum", ("each", (L,), (), gt(A(t, "_end"), A(t, "due_date"))))


def spec_idle(run):
    Lb = loop("b0.0", ("mcall", A(T("resource"), "_busy_intervals"), "values", (), ()))
    starts = ("list", (("each", (Lb,), (), idx(elem(Lb), 0)),))
    ends = ("list", (("each", (Lb,), (), idx(elem(Lb), 1)),))
    ss = idx(("call", "util.sort_no_duplicates", (starts,), ()), 0)
    se = idx(("call", "util.sort_no_duplicates", (ends,), ()), 0)
    li = loop("b0.0", ("range", K(1), ("call", "len", (ss,), ())))
    i = elem(li)
    prev_end, cur = ("idx", se, sub(i, K(1))), ("idx", ss, i)
    return app("Sum", ("each", (li,), (), If(And(ge(prev_end, K(0)), ge(cur, K(0))), sub(cur, prev_end), K(0))))


DEF_SPECS = {
    "IndicatorFromMathExpression": lambda run: T("expression"),
    "IndicatorResourceUtilization": spec_utilization,
    "IndicatorNumberTasksAssigned": spec_nb_assigned,
    "IndicatorTardiness": spec_tardiness,
    "IndicatorEarliness": spec_earliness,
    "IndicatorNumberOfTardyTasks": spec_tardy_count,
    "IndicatorResourceIdle": spec_idle,
}
CITES = {
    "IndicatorResourceUtilization": "docs/indicator.md: percentage of the horizon the resource is busy",
    "IndicatorTardiness": "docstring: weighted sum of total tardiness, Pinedo Tj = max(Cj - dj, 0)",
    "IndicatorEarliness": "docstring: Ej = max(dj - Cj, 0)",
}


def same_loops(a, b):
    """range loops are compared after normalisation"""
    return canon(a) == canon(b)


def compare_def(ctx, rule, where, location, em, spec, cfgs):
    from sa.lib import _rename_loops
    ok = canon(em) == canon(spec)
    if not ok:
        # loops written with a different but equivalent range: compare after the shift normalisation of conj_groups
        g1 = conj_groups([((), (), app("==", ("k", "$v"), em))])
        g2 = conj_groups([((), (), app("==", ("k", "$v"), spec))])
        ok = {k: [canon(x) for x in v] for k, v in g1.items()} == {k: [canon(x) for x in v] for k, v in g2.items()} and False
    inst = f"{where} [{cfgs}]"
    if ok:
        ctx.ok(rule, inst, sample={"emitted": show(norm(em))[:360], "decided_by": "identical canonical forms"})
    else:
        ctx.violation(rule, where, "value of the indicator variable",
                      f"on [{cfgs}] the indicator is defined as {show(norm(em))[:360]} ; documented definition "
                      f"{show(norm(spec))[:360]}", location)
    return ok


def r_ind_def(ctx):
    n = 0
    for cname, spec_fn in DEF_SPECS.items():
        runs = runs_of(ctx, Entry("init", cls=cname, opaque=OPAQUE))
        fails_closed(ctx, "R-IND-DEF", runs)
        where = f"{cname}.__init__"
        for run in runs:
            if run.rejected:
                continue
            var, defs, rest = definition_of(run)
            location = loc(defs[0][1]) if defs else first_line(ctx.project, cname)
            n += 1
            if len(defs) != 1:
                ctx.violation("R-IND-DEF", where, "one defining equation", f"{len(defs)} equations define the indicator variable", location)
                continue
            em = defs[0][0]
            for s in subterms(em):
                if s and s[0] == "call" and s[1] == "int" and any(is_app(x, "/") or is_app(x, "//") for x in subterms(s)):
                    ctx.violation("R-PRECISION", where, f"python truncation {show(s)[:80]}",
                                  f"{show(s)[:120]} is truncated in python before it scales the indicator: the error grows with the "
                                  f"value (horizon 7, fully busy -> 98)", location)
            compare_def(ctx, "R-IND-DEF", where, location, em, spec_fn(run), describe_config(run))
            if cname == "IndicatorResourceIdle":
                # the sort constraints of both sorted copies are emitted
                covered = set()
                for e in rest:
                    for l, g, t in expand_concat(e.loops, e.guards, e.term):
                        if len(l) == 1 and t == ("elem", l[0]) and "sort_no_duplicates" in show(l[0][3]) and not g:
                            covered.add(show(norm(l[0][3])))
                if len(covered) >= 2:
                    ctx.ok("R-IND-DEF", f"{where}: sort constraints of the sorted copies emitted")
                else:
                    ctx.violation("R-IND-DEF", where, "sort constraints emitted", "the sorted copies are used without their constraints", location)
    # indicators defined through get_maximum / get_minimum
    mm = {
        "IndicatorMaximumLateness": ("util.get_maximum", lambda run: ("each", (loop("b0.0", tasks_iter(run)),), (),
                                                                        sub(A(elem(loop("b0.0", tasks_iter(run))), "_end"),
                                                                            A(elem(loop("b0.0", tasks_iter(run))), "due_date")))),
        "IndicatorMaxBufferLevel": ("util.get_maximum", lambda run: A(T("buffer"), "_buffer_levels")),
        "IndicatorMinBufferLevel": ("util.get_minimum", lambda run: A(T("buffer"), "_buffer_levels")),
    }
    for cname, (fname, arg_fn) in mm.items():
        runs = runs_of(ctx, Entry("init", cls=cname, opaque=OPAQUE))
        fails_closed(ctx, "R-IND-DEF", runs)
        where = f"{cname}.__init__"
        for run in runs:
            if run.rejected:
                continue
            n += 1
            var = ind_var(run)
            # (the documented bound constraints `variable >= / <= bounds[k]` of Indicator.__init__ are R-BOUND-ASSERTED's matter)
            own = [e for e in run.emissions if e.owner == SELF and not (
                not e.loops and any(canon(e.term) == canon(w_) for w_ in (ge(var, ("idx", A(SELF, "bounds"), K(0))),
                                                                           le(var, ("idx", A(SELF, "bounds"), K(1))))))]
            location = loc(own[0]) if own else first_line(ctx.project, cname)
            arg = arg_fn(run)
            want_list = ("list", (arg,)) if arg[0] == "each" else arg
            want = ("call", fname, (var, want_list), ())
            ok = len(own) == 1 and len(own[0].loops) == 1 and canon(own[0].loops[0][3]) == canon(want) \
                and own[0].term == ("elem", own[0].loops[0]) and not own[0].guards
            if ok:
                ctx.ok("R-IND-DEF", f"{where} [{describe_config(run)}]", sample={"emitted": f"all assertions of {show(norm(want))[:240]}"})
            else:
                ctx.violation("R-IND-DEF", where, f"all assertions of {fname.split('.')[-1]}(indicator variable, values)",
                              f"expected every assertion of {show(norm(want))[:240]}; found "
                              f"{[(show(norm(e.term))[:80], [show(norm(l[3]))[:200] for l in e.loops]) for e in own]}", location)
    ctx.floor("R-IND-DEF", "indicator class x configuration rows", n, 14)
    r_cost(ctx)
    r_objective_indicators(ctx)


def r_cost(ctx):
    """IndicatorResourceCost: sum over constant-cost busy intervals of cost * length + (sum over the others of
    (cost(lo) + cost(hi)) * length) / 2, over every unit worker of every listed resource"""
    cname = "IndicatorResourceCost"
    runs = runs_of(ctx, Entry("init", cls=cname, opaque=OPAQUE))
    fails_closed(ctx, "R-IND-DEF", runs)
    where = f"{cname}.__init__"
    kinds = set()
    for run in runs:
        if run.rejected:
            continue
        var, defs, rest = definition_of(run)
        location = loc(defs[0][1]) if defs else first_line(ctx.project, cname)
        if len(defs) != 1:
            ctx.violation("R-IND-DEF", where, "one defining equation", f"{len(defs)} equations", location)
            continue
        em = norm(defs[0][0])
        cumul = dict(run.decisions).get("isinstance(e#2, CumulativeWorker)")
        cumul = any(k.startswith("isinstance(e#") and "CumulativeWorker" in k and v for k, v in run.decisions)
        kinds.add(cumul)
        R = loop("b0.0", T("list_of_resources"))
        if cumul:
            U = loop("b0.1", A(elem(R), "_cumulative_workers"))
            w = elem(U)
            B = loop("b0.2", ("mcall", A(w, "_busy_intervals"), "values", (), ()))
            loops = (R, U, B)
        else:
            w = elem(R)
            B = loop("b0.1", ("mcall", A(w, "_busy_intervals"), "values", (), ()))
            loops = (R, B)
        b = elem(B)
        lo, hi = idx(b, 0), idx(b, 1)
        length = sub(hi, lo)
        cost = lambda x: ("call", show(("boundmethod", A(w, "cost"), "__call__")), (x,), ())
        # find how a call of the cost function is represented in the emitted term
        calls = [s for s in subterms(em) if s and s[0] in ("call", "mcall") and "cost" in show(s)[:60]]
        if not calls:
            ctx.violation("R-IND-DEF", where, "cost function applied", "no application of the resource's cost function in the definition", location)
            continue

        def C(x):
            c0 = calls[0]
            if c0[0] == "mcall":
                return ("mcall", w, c0[2], (x,), ())
            return ("call", c0[1], (x,), ())
        is_const = app("isinstance", A(w, "cost"), K(("ConstantFunction",)))
        zero = eq(C(hi), K(0))
        const_part = app("Sum", ("each", loops, (is_const, app("not", And(zero, is_const))), mul(C(hi), length)))
        var_part = app("Sum", ("each", loops, (app("not", is_const),), mul(add(C(lo), C(hi)), length)))
        spec = add(const_part, app("/", var_part, K(2)))
        ok = canon(em) == canon(spec)
        if not ok:
            # guards may be spelled differently: compare the two parts semantically
            ok, _why = _cost_parts_match(norm(em), norm(spec))
        if ok:
            ctx.ok("R-IND-DEF", f"{where} [{describe_config(run)}]", sample={"emitted": show(em)[:400]})
        else:
            ctx.violation("R-IND-DEF", where, "total cost = sum cost*length (constant) + (sum (c(lo)+c(hi))*length)/2",
                          f"on [{describe_config(run)}] emitted {show(em)[:500]} ; documented {show(norm(spec))[:500]}", location)
    if True not in kinds:
        ctx.violation("R-UNION-EXH", where, "cumulative resources are not expanded into their unit workers",
                      "list_of_resources admits a CumulativeWorker, but no path of the constructor reads the busy intervals of its "
                      "unit workers: the cost of a cumulative worker is computed over an empty dict", first_line(ctx.project, cname))
    elif False not in kinds:
        raise P.AnalysisError(f"R-IND-DEF: IndicatorResourceCost: plain-worker configuration not found")


def _cost_parts_match(em, spec):
    """both sides are  <constant part: a Sum>  +  <variable part: a Sum> / 2 (either part may be absent); each pair of sums is
    compared by cases over the guard atoms (decide.guarded_sum_equiv): the spelling of the `cost == 0 / == 1` shortcuts and
    of the constant / non constant split is free"""
    from sa.decide import guarded_sum_equiv, Undecided

    def parts(t):
        const, var = None, None
        for a in (t[2:] if is_app(t, "+") else (t,)):
            if is_app(a, "/") and len(a) == 4 and a[3] == K(2) and is_app(a[2], "Sum"):
                if var is not None:
                    return None
                var = a[2]
            elif is_app(a, "Sum"):
                if const is not None:
                    return None
                const = a
            else:
                return None
        return const, var
    pe, ps = parts(em), parts(spec)
    if pe is None or ps is None:
        return False, "not of the form Sum(...) + Sum(...) / 2"
    for which, a, b in (("constant-cost part", pe[0], ps[0]), ("variable-cost part", pe[1], ps[1])):
        if a is None or b is None:
            if a is not b:
                return False, f"{which}: present on one side only"
            continue
        try:
            ok, wit = guarded_sum_equiv(a, b)
        except Undecided as u:
            return False, f"{which}: undecided ({u})"
        if not ok:
            return False, f"{which}: {str(wit)[:300]}"
    return True, "case analysis over the guard atoms"


def r_objective_indicators(ctx):
    """indicators created inside objective constructors"""
    def sched_times(point, with_priority):
        def f(run, it):
            L = loop("b0.0", it)
            t = elem(L)
            base = mul(A(t, point), A(t, "priority")) if with_priority else A(t, point)
            body = ("phi", A(t, "optional"), mul(base, A(t, "_scheduled")), base)
            return app("Sum", ("each", (L,), (), body))
        return f
    all_tasks = ("mcall", A(AP, "tasks"), "values", (), ())
    rows = {
        "ObjectiveMinimizeFlowtime": ("Flowtime", sched_times("_end", False), "list"),
        "ObjectivePriorities": ("TotalPriority", sched_times("_end", True), "all"),
        "ObjectiveTasksStartEarliest": ("WeightedStartTimes", sched_times("_start", True), "all"),
    }
    for cname, (iname, fn, scope) in rows.items():
        runs = runs_of(ctx, Entry("init", cls=cname, opaque=OPAQUE))
        fails_closed(ctx, "R-IND-DEF", runs)
        where = f"{cname}.__init__"
        for run in runs:
            if run.rejected:
                continue
            news = [ev for ev in run.events_of("new") if ev.data["cls"] == "IndicatorFromMathExpression"]
            location = first_line(ctx.project, cname)
            if len(news) != 1:
                ctx.violation("R-IND-DEF", where, "one indicator created", f"{len(news)} indicators created", location)
                continue
            obj = news[0].data["obj"]
            var, defs, rest = definition_of(run, obj)
            if len(defs) != 1:
                ctx.violation("R-IND-DEF", where, "one defining equation", f"{len(defs)} equations", location)
                continue
            em = defs[0][0]
            # the iterable actually used (all tasks, or the list passed by the caller)
            its = [l[3] for s in subterms(em) if s and s[0] == "each" for l in s[1]]
            it = its[0] if its else all_tasks
            if scope == "all" and canon(it) != canon(all_tasks):
                ctx.violation("R-IND-DEF", where, "ranges over every task of the problem", f"ranges over {show(it)[:200]}", location)
                continue
            spec_t = fn(run, it)
            sum_args = em[2:] if is_app(em, "Sum") else ()
            if len(sum_args) == 1 and isinstance(sum_args[0], tuple) and sum_args[0] and sum_args[0][0] == "list":
                sum_args = sum_args[0][1]
            eaches = [a for a in sum_args if isinstance(a, tuple) and a and a[0] == "each"]
            alts = {}
            for e_ in eaches:
                el = ("elem", e_[1][0])
                cfg = tuple(g for g in e_[2] if not any(x == el for x in subterms(g)))
                alts.setdefault((repr(canon(e_[1][0][3])), repr(canon(And(*cfg)) if cfg else "")), (e_[1][0][3], cfg))
            if len(alts) >= 2 and all(c for _, c in alts.values()):
                if True:
                    # the iterable is chosen by a conditional and the extractor walks each alternative under its condition: the
                    # documented sum over each alternative under the same condition, compared by cases over the guards
                    from sa.decide import guarded_sum_equiv, Undecided
                    parts = []
                    for it_x, cfg_x in alts.values():
                        inner = fn(run, it_x)[2]
                        parts.append(("each", inner[1], tuple(cfg_x), inner[3]))
                    try:
                        ok_, wit_ = guarded_sum_equiv(em, app("Sum", *parts))
                    except Undecided as u:
                        raise P.AnalysisError(f"R-IND-DEF: {where}: {u}")
                    if ok_:
                        ctx.ok("R-IND-DEF", f"{where} [{describe_config(run)}]", sample={"emitted": show(norm(em))[:300], "decided_by": "cases over the guards"})
                    else:
                        ctx.violation("R-IND-DEF", where, "documented definition",
                                      f"the indicator is defined as {show(norm(em))[:400]} ; documented {show(norm(app('Sum', *parts)))[:300]} ; {str(wit_)[:300]}",
                                      loc(defs[0][1]))
                    spec_t = None
            if spec_t is not None:
                compare_def(ctx, "R-IND-DEF", where, loc(defs[0][1]), em, spec_t, describe_config(run))
            # the objective targets that indicator and minimises it
            tgt = run.heap.get((SELF, "target"))
            kind = run.heap.get((SELF, "kind"))
            if tgt == obj and kind == K("minimize"):
                ctx.ok("R-IND-DEF", f"{where}: objective minimises the indicator it built")
            else:
                ctx.violation("R-DIRECTION", where, "objective wired to its indicator",
                              f"target={show(tgt) if isinstance(tgt, tuple) else tgt}, kind={show(kind) if isinstance(kind, tuple) else kind}", location)
    # min / max based objectives
    mm = {"ObjectiveMinimizeGreatestStartTime": ("util.get_maximum", "minimize"), "ObjectiveTasksStartLatest": ("util.get_minimum", "maximize")}
    for cname, (fname, kind_want) in mm.items():
        runs = runs_of(ctx, Entry("init", cls=cname, opaque=OPAQUE))
        fails_closed(ctx, "R-IND-DEF", runs)
        where = f"{cname}.__init__"
        for run in runs:
            if run.rejected:
                continue
            news = [ev for ev in run.events_of("new") if ev.data["cls"] == "IndicatorFromMathExpression"]
            location = first_line(ctx.project, cname)
            if len(news) != 1:
                ctx.violation("R-IND-DEF", where, "one indicator created", f"{len(news)} indicators created", location)
                continue
            obj = news[0].data["obj"]
            var, defs, rest = definition_of(run, obj)
            aux = defs[0][0] if len(defs) == 1 else None
            calls = [l[3] for e in rest for l in e.loops if isinstance(l[3], tuple) and l[3][0] == "call" and l[3][1] == fname]
            ok = aux is not None and aux[0] == "z3var" and len(calls) == 1 and calls[0][2][0] == aux
            if ok:
                lst = calls[0][2][1]
                ok = lst[0] == "list" and len(lst[1]) == 1 and lst[1][0][0] == "each" and lst[1][0][3][0] == "attr" \
                    and lst[1][0][3][2] == "_start" and lst[1][0][3][1] == ("elem", lst[1][0][1][0])
            kind = run.heap.get((SELF, "kind"))
            if ok and kind == K(kind_want) and run.heap.get((SELF, "target")) == obj:
                ctx.ok("R-IND-DEF", f"{where} [{describe_config(run)}]", sample={"emitted": show(norm(calls[0]))[:300]})
            else:
                ctx.violation("R-IND-DEF", where, f"{fname.split('.')[-1]} over the start times, {kind_want}d",
                              f"found calls {[show(norm(c))[:200] for c in calls]}, kind {show(kind) if isinstance(kind, tuple) else kind}", location)


def r_minmax(ctx):
    for fname, op in (("get_maximum", ">="), ("get_minimum", "<=")):
        runs = runs_of(ctx, Entry("func", module="util", name=fname))
        fails_closed(ctx, "R-MINMAX", runs)
        v = S("maxi" if fname == "get_maximum" else "mini")
        fn = ctx.project.function("util", fname)
        v = S(fn.args.args[0].arg)
        lst = S(fn.args.args[1].arg)
        L = loop("b0.0", lst)
        want = ("list", (app("Or", ("each", (L,), (), eq(v, elem(L)))), ("each", (L,), (), app(op, v, elem(L)))))
        live = [r for r in runs if not r.rejected]
        ok = bool(live)
        for r in live:
            rv = r.retval
            if not (isinstance(rv, tuple) and canon(rv) == canon(want)):
                ok = False
                bad = rv
        if ok:
            ctx.ok("R-MINMAX", f"util.{fname}", sample={"returns": show(norm(want))[:240]})
        else:
            ctx.violation("R-MINMAX", f"util.{fname}", "value is one of the elements and bounds all of them",
                          f"returns {show(norm(bad))[:300] if isinstance(bad, tuple) else bad} instead of {show(norm(want))[:300]}",
                          "processscheduler/util.py")


def r_ind_name(ctx):
    names = {}
    n = 0
    for c in ctx.project.subclasses("Indicator"):
        runs = runs_of(ctx, Entry("init", cls=c.name, opaque=OPAQUE))
        for run in runs:
            if run.rejected:
                continue
            nm = run.heap.get((SELF, "name"))
            if isinstance(nm, tuple) and is_const(nm) and isinstance(nm[1], str):
                names.setdefault(nm[1], set()).add(c.name)
                n += 1
    for nm, classes in sorted(names.items()):
        if len(classes) > 1:
            ctx.violation("R-IND-NAME", "+".join(sorted(classes)), f"default name {nm!r} shared",
                          f"indicator classes {sorted(classes)} all name themselves {nm!r}: solution.indicators is keyed by name, "
                          f"one value overwrites the other", first_line(ctx.project, sorted(classes)[0]))
        else:
            ctx.ok("R-IND-NAME", f"default name {nm!r} is used by {next(iter(classes))} only")
    ctx.floor("R-IND-NAME", "constant default names", n, 4)


BUILD_OPAQUE = ("clean_buffer_levels",)


def r_ind_read(ctx):
    runs = runs_of(ctx, Entry("method", cls="SchedulingSolver", name="build_solution", opaque=BUILD_OPAQUE))
    fails_closed(ctx, "R-IND-READ", runs)
    where = "SchedulingSolver.build_solution"
    for run in runs:
        if run.rejected:
            continue
        hits = []
        for ev in run.events_of("store"):
            if "indicators" in show(ev.data["container"]) and ev.loops:
                hits.append(ev)
        ok = False
        for ev in hits:
            L = ev.loops[-1]
            ind = ("elem", L)
            if norm(L[3]) == norm(("mcall", S("self.problem.indicators"), "values", (), ())) and not ev.guards \
                    and ev.data["key"] == A(ind, "name") \
                    and ev.data["value"] == ("mcall", ("idx", S("z3_sol"), A(ind, "_indicator_variable")), "as_long", (), ()):
                ok = True
        if ok:
            ctx.ok("R-IND-READ", f"{where} [{describe_config(run)[:60]}]")
        else:
            ctx.violation("R-IND-READ", where, "indicators[indicator.name] = model[indicator._indicator_variable]",
                          f"found {[(show(e.data['key'])[:60], show(e.data['value'])[:100]) for e in hits]}", "processscheduler/solver.py")


def r_ind_constraint(ctx):
    var = A(T("indicator"), "_indicator_variable")
    runs = runs_of(ctx, Entry("init", cls="IndicatorTarget", opaque=OPAQUE))
    for run in mandatory_runs(runs):
        em = And(*[e.term for e in run.emissions if e.owner == SELF])
        ok, wit, _ = decide_equiv(ctx, em, eq(var, T("value")))
        if ok:
            ctx.ok("R-IND-CONSTRAINT", "IndicatorTarget: variable == value")
        else:
            ctx.violation("R-IND-CONSTRAINT", "IndicatorTarget.__init__", "variable == value", f"emitted {show(norm(em))[:200]}",
                          first_line(ctx.project, "IndicatorTarget"))
    runs = runs_of(ctx, Entry("init", cls="IndicatorBounds", opaque=OPAQUE))
    n = 0
    for run in mandatory_runs(runs):
        lo, hi = leaf_value(run, "self.lower_bound"), leaf_value(run, "self.upper_bound")
        want = []
        if not (lo is not None and lo[1] is None):
            want.append(ge(var, T("lower_bound")))
        if not (hi is not None and hi[1] is None):
            want.append(le(var, T("upper_bound")))
        em = And(*[e.term for e in run.emissions if e.owner == SELF])
        ok, wit, _ = decide_equiv(ctx, em, And(*want))
        n += 1
        if ok:
            ctx.ok("R-IND-CONSTRAINT", f"IndicatorBounds [{describe_config(run)}]")
        else:
            ctx.violation("R-IND-CONSTRAINT", "IndicatorBounds.__init__", "bounds on the paths where they are given",
                          f"on [{describe_config(run)}] emitted {show(norm(em))[:200]} ; expected {show(norm(And(*want)))[:200]}",
                          first_line(ctx.project, "IndicatorBounds"))
    ctx.floor("R-IND-CONSTRAINT", "IndicatorBounds configurations", n, 3)


def r_cost_func(ctx):
    """cost Function classes (docs/function.md, docs/resource.md): what set_function installs, applied to a symbolic x"""
    X = S("x")
    n = 0

    def installed(cname):
        runs = runs_of(ctx, Entry("init", cls=cname, post_call=("_function", ("x",))))
        fails_closed(ctx, "R-COST-FUNC", runs)
        return [r for r in runs if not r.rejected]

    rows = {
        "Function": ("the default function is 0", K(0)),
        "ConstantFunction": ("f(x) = value", T("value")),
        "LinearFunction": ("f(x) = slope * x + intercept", add(mul(T("slope"), X), T("intercept"))),
        "GeneralFunction": ("f(x) = function(x)", ("call", "self._function", (T("function"), X), ())),
    }
    for cname, (doc, spec) in rows.items():
        for run in installed(cname):
            n += 1
            where = f"{cname}.__init__"
            if run.retval is not None and canon(norm(run.retval)) == canon(norm(spec)):
                ctx.ok("R-COST-FUNC", f"{where} [{describe_config(run)}]", sample={"installed": show(norm(run.retval))[:200]})
            else:
                ctx.violation("R-COST-FUNC", where, doc,
                              f"the installed callable returns {show(norm(run.retval))[:300] if run.retval is not None else 'nothing'}",
                              first_line(ctx.project, cname))
    # polynomial: decided by loop invariant
    cname = "PolynomialFunction"
    where = f"{cname}.__init__"
    coeffs = T("coefficients")
    length = ("call", "len", (coeffs,), ())
    for run in installed(cname):
        n += 1
        doc = "f(x) = sum_j coefficients[j] * x^(len-1-j)"
        location = first_line(ctx.project, cname)
        rv = run.retval
        if not (isinstance(rv, tuple) and rv and rv[0] == "loopout"):
            raise P.AnalysisError(f"R-COST-FUNC: {cname}: the installed callable is not an accumulation loop "
                                  f"({show(norm(rv))[:200] if rv is not None else None}); this form cannot be decided")
        _, rname, L, init_r, body_r = rv
        problems = []
        rng = L[3] if len(L) > 3 else None
        if not (isinstance(rng, tuple) and rng and rng[0] == "range" and len(rng) == 4):
            raise P.AnalysisError(f"R-COST-FUNC: {cname}: the accumulation loop does not iterate over a range")
        a, b, step = rng[1], rng[2], rng[3]
        i = ("elem", L)
        car_r = ("carried", rname, L, init_r)
        others = [t for t in subterms(body_r) if isinstance(t, tuple) and t and t[0] == "carried" and t[1] != rname and t[2] == L]
        if not others:
            ctx.violation("R-COST-FUNC", where, doc, f"no running power of x in the accumulated term {show(norm(body_r))[:300]}", location)
            continue
        car_v = others[0]
        vname, init_v = car_v[1], car_v[3]
        vouts = [v for v in run.env.values() if isinstance(v, tuple) and v and v[0] == "loopout" and v[1] == vname and v[2] == L]
        if not vouts:
            raise P.AnalysisError(f"R-COST-FUNC: {cname}: update of the running power not found")
        body_v = vouts[0][4]
        step_term = add(car_r, mul(idx(coeffs, i), car_v))
        inner = body_r
        if inner[0] == "phi" and canon(norm(inner[3])) == canon(norm(car_r)):
            if canon(norm(inner[1])) != canon(norm(ne(idx(coeffs, i), K(0)))):
                problems.append(f"a term is added only under {show(norm(inner[1]))[:120]}, which is not `coefficient != 0`")
            inner = inner[2]
        elif inner[0] == "phi" and canon(norm(inner[2])) == canon(norm(car_r)):
            if canon(norm(inner[1])) != canon(norm(eq(idx(coeffs, i), K(0)))):
                problems.append(f"a term is skipped under {show(norm(inner[1]))[:120]}, which is not `coefficient == 0`")
            inner = inner[3]
        if canon(norm(inner)) != canon(norm(step_term)):
            problems.append(f"each iteration adds {show(norm(inner))[:200]}, not result + coefficients[i] * power")
        if canon(norm(body_v)) != canon(norm(mul(car_v, X))):
            problems.append(f"the running power is updated to {show(norm(body_v))[:120]}, not power * x")
        if canon(norm(init_v)) == canon(X):
            p0 = 1
        elif canon(norm(init_v)) == canon(K(1)):
            p0 = 0
        else:
            p0 = None
            problems.append(f"the running power starts at {show(norm(init_v))[:80]}, neither x nor 1")
        if lin(step) != lin(K(-1)) or lin(b) != lin(K(-1)):
            problems.append(f"the loop runs over range({show(norm(a))}, {show(norm(b))}, {show(norm(step))}); "
                            "the indices must descend one by one down to 0")
        if p0 is not None:
            # iteration k pairs index a-k with power p0+k: documented pairing is index j <-> power len-1-j
            if lin(add(a, K(p0))) != lin(sub(length, K(1))):
                problems.append(f"the first iteration pairs coefficients[{show(norm(a))}] with x^{p0}; "
                                f"documented pairing is coefficients[j] * x^(len-1-j)")
            if p0 == 1:
                last = (idx(coeffs, K(-1)), idx(coeffs, sub(length, K(1))))
                if not any(canon(norm(init_r)) == canon(norm(t)) for t in last):
                    problems.append(f"the constant term is {show(norm(init_r))[:80]}, not coefficients[-1]")
            elif canon(norm(init_r)) != canon(K(0)):
                problems.append(f"the accumulation starts at {show(norm(init_r))[:80]}, not 0")
        if problems:
            ctx.violation("R-COST-FUNC", where, doc, "; ".join(problems), location)
        else:
            ctx.ok("R-COST-FUNC", f"{where} [{describe_config(run)}]",
                   sample={"invariant": f"after k iterations: sum_(j<=k) coefficients[len-1-j] * x^j; loop {show(norm(rng))[:120]}"})
    # __call__ returns the installed callable's value for its argument
    runs = runs_of(ctx, Entry("method", cls="Function", name="__call__"))
    fails_closed(ctx, "R-COST-FUNC", runs)
    for run in runs:
        if run.rejected:
            continue
        n += 1
        params = [e for e in run.env if e != "self"]
        want = [("mcall", SELF, "_function", (S(p),), ()) for p in params]
        # the same value returned from several places (an early return for the common case) is that value
        alts = value_alternatives(run.retval) if isinstance(run.retval, tuple) else []
        if run.retval is not None and alts and any(all(canon(norm(v_)) == canon(norm(w)) for _g, v_ in alts) for w in want):
            ctx.ok("R-COST-FUNC", f"Function.__call__ [{describe_config(run)}]", sample={"returns": show(norm(run.retval))[:120]})
        else:
            ctx.violation("R-COST-FUNC", "Function.__call__", "returns the installed function applied to the argument",
                          f"returns {show(norm(run.retval))[:200] if run.retval is not None else 'nothing'}",
                          first_line(ctx.project, "Function"))
    # every Function subclass of the package is one of the classes above
    known = set(rows) | {cname}
    for c in ctx.project.classes.values() if hasattr(ctx.project, "classes") else []:
        if c.name not in known and c.is_subclass_of("Function"):
            raise P.AnalysisError(f"R-COST-FUNC: cost function class {c.name} has no specification row")
    ctx.floor("R-COST-FUNC", "cost function class x configuration rows", n, 6)


def r_same_horizon(ctx):
    """'utilisation as the percentage of the horizon': the horizon the indicator divides by (the user's value when the problem
    has one, the horizon variable otherwise - R-IND-DEF) is the horizon delivered with the same solution: build_solution
    reports the user's value when given, else the model value of the horizon variable (R-HORIZON-REPORT, shared with C11)"""
    from rules import solution
    solution.r_horizon_report(ctx)


def r_makespan(ctx):
    """'makespan': the horizon variable bounds every task end (R-HORIZON); minimising it gives the makespan"""
    from rules import tasks
    tasks.r_horizon(ctx)


RULES = [r_ind_def, r_same_horizon, r_makespan, r_cost_func, r_minmax, r_ind_name, r_ind_read, r_ind_constraint,
         lambda ctx: resource_constraints.r_union_exh(ctx, bases=("Indicator", "Objective"))]


OWN_EXACT_EXEMPT = {
    "ObjectiveMinimizeFlowtimeSingleResource": "the docs give no definition of its min / max encoding (DESIGN 10.5): not decided",
}


def r_own_exact(ctx, bases=("Indicator", "Objective", "Resource")):
    """'no valid schedule is lost' / 'the reported value equals the definition': an indicator, an objective or a resource constrains
    nothing by itself - everything its constructor asserts is a definition: the one equation `indicator variable == E` (E is
    decided by R-IND-DEF), or the whole assertion list of a helper that defines an auxiliary variable (get_maximum / get_minimum /
    the sorters, decided by R-MINMAX / R-SORT-NET).  Any other assertion narrows the schedules (`indicator >= 0`, a forced
    selection flag ...) and is reported."""
    proj = ctx.project
    n = 0
    HELPERS = ("get_maximum", "get_minimum", "sort_no_duplicates", "sort_duplicates")

    def helper_list(it):
        """it is (a concatenation of) the assertion list(s) returned by a helper call"""
        if is_app(it, "+") and len(it) == 4:
            return helper_list(it[2]) and helper_list(it[3])
        if isinstance(it, tuple) and it and it[0] == "idx" and isinstance(it[1], tuple) and it[1] and it[1][0] == "call":
            it = it[1]
        return isinstance(it, tuple) and it and it[0] == "call" and it[1].split(".")[-1] in HELPERS

    for base in bases:
        for c in proj.subclasses(base, strict=False):
            if c.name in bases:
                continue
            if c.name in OWN_EXACT_EXEMPT:
                ctx.note(f"R-OWN-EXACT: {c.name} exempt: {OWN_EXACT_EXEMPT[c.name]}")
                continue
            runs = runs_of(ctx, Entry("init", cls=c.name, opaque=OPAQUE))
            fails_closed(ctx, "R-OWN-EXACT", runs)
            where = f"{c.name}.__init__"
            bad = {}
            for run in runs:
                if run.rejected:
                    continue
                defs_per_owner = {}
                for e in run.emissions:
                    n += 1
                    t = e.term
                    if is_app(t, "==") and len(t) == 4 and not e.loops and not e.guards:
                        var = run.heap.get((e.owner, "_indicator_variable"))
                        var = var if isinstance(var, tuple) else None
                        if var is not None and var in (t[2], t[3]):
                            defs_per_owner[e.owner] = defs_per_owner.get(e.owner, 0) + 1
                            if defs_per_owner[e.owner] > 1:
                                bad.setdefault(("second defining equation", show(norm(t))[:160]), (describe_config(run), loc(e)))
                            continue
                    if e.loops and t == ("elem", e.loops[-1]) and not e.guards and helper_list(e.loops[-1][3]):
                        continue
                    # bounds the caller gives are constraints by the documentation (docs/indicator.md): variable >= / <= bounds[k]
                    var_ = run.heap.get((e.owner, "_indicator_variable"))
                    if not e.loops and isinstance(var_, tuple) and any(
                            canon(t) == canon(w_) for w_ in (ge(var_, ("idx", A(e.owner, "bounds"), K(0))),
                                                              le(var_, ("idx", A(e.owner, "bounds"), K(1))))):
                        continue
                    bad.setdefault(("assertion beyond the definition", show(norm(t))[:160]), (describe_config(run), loc(e)))
            for (kind, what), (cfgs, location) in sorted(bad.items()):
                ctx.violation("R-OWN-EXACT", where, f"{kind}: {what[:80]}",
                              f"on [{cfgs[:100]}] {c.name} asserts {what}: beyond the definition of its variable(s) this constrains the "
                              f"schedules themselves - a schedule that every task, resource and constraint allows is excluded, and the "
                              f"value reported is no longer just a measurement", location)
            if not bad:
                ctx.ok("R-OWN-EXACT", f"{where}: asserts definitions only")
    ctx.floor("R-OWN-EXACT", "assertions of indicator / objective / resource constructors classified", n, 25 if "Indicator" in bases else 0)


RULES.append(r_own_exact)
