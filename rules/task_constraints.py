"""C03 - every task constraint emits its documented relation (R-TC-RELATION, R-LITERAL-EXH, R-POLARITY).

Oracle: docs/task_constraints.md and the class docstrings, frozen in SPEC below (one row per
class x kind).  The relation is compared on the reading "every task concerned is scheduled"
(every `_scheduled` leaf replaced by True); the guard itself is R-SCHED-GUARD's business (C06).
"""
from __future__ import annotations

from sa import project as P
from sa.interp import Entry
from sa.lib import *
from sa.lib import _rename_loops
from sa.terms import subterms

OPAQUE = ("sort_no_duplicates", "sort_duplicates")


def apply_config(run, term):
    m = {}
    for leaf, d in run.doms.items():
        s = d.singleton()
        if s is not None and leaf[0] != "call":
            m[leaf] = K(s[1])
    return substitute(term, m) if m else term


def all_scheduled(term):
    def f(x):
        if x[0] == "attr" and x[2] == "_scheduled":
            return TRUE
        return None
    return rewrite(term, f)


def mandatory_runs(runs):
    """paths where the constraint itself is mandatory and construction succeeds"""
    out = []
    for r in runs:
        if r.rejected:
            continue
        v = leaf_value(r, "self.optional")
        if v is not None and v[1] is False:
            out.append(r)
    return out


def kind_of(run, leaf="self.kind"):
    v = leaf_value(run, leaf)
    return v[1] if v is not None else None


# ---------------------------------------------------------------------------
# specification rows: function(run) -> list of (loops, guards, term)
# ---------------------------------------------------------------------------
T = lambda name: S(f"self.{name}")


def spec_single(point: str, rel_by_kind):
    def f(run):
        k = kind_of(run)
        rel = rel_by_kind.get(k, rel_by_kind.get(None))
        if rel is None:
            return None
        return [((), (), app(rel, A(T("task"), point), T("value")))]
    return f


def spec_precedence(run):
    k = kind_of(run)
    rel = {"lax": "<=", "strict": "<", "tight": "=="}.get(k)
    if rel is None:
        return None
    return [((), (), app(rel, add(A(T("task_before"), "_end"), T("offset")), A(T("task_after"), "_start")))]


def spec_synced(point):
    def f(run):
        return [((), (), eq(A(T("task_1"), point), A(T("task_2"), point)))]
    return f


def spec_dont_overlap(run):
    t1, t2 = T("task_1"), T("task_2")
    return [((), (), Or(ge(A(t2, "_start"), A(t1, "_end")), ge(A(t1, "_start"), A(t2, "_end"))))]


def dont_care_overlap(run):
    t1, t2 = T("task_1"), T("task_2")
    # two zero-length tasks at the same instant: documented neither as overlapping nor as allowed
    return And(eq(A(t1, "_start"), A(t1, "_end")), eq(A(t2, "_start"), A(t2, "_end")),
               eq(A(t1, "_start"), A(t2, "_start")))


def _sorted_call(listterm):
    return ("call", "util.sort_no_duplicates", (listterm,), ())


def spec_contiguous(run):
    L = loop(0, T("list_of_tasks"))
    starts = ("list", (("each", (L,), (), A(elem(L), "_start")),))
    ends = ("list", (("each", (L,), (), A(elem(L), "_end")),))
    ss, se = _sorted_call(starts), _sorted_call(ends)
    s_sorted, s_cstr = idx(ss, 0), idx(ss, 1)
    e_sorted, e_cstr = idx(se, 0), idx(se, 1)
    l1 = loop(0, s_cstr)
    l2 = loop(0, e_cstr)
    li = loop(0, ("range", K(1), ("call", "len", (s_sorted,), ())))
    i = elem(li)
    prev_end = ("idx", e_sorted, sub(i, K(1)))
    cur_start = ("idx", s_sorted, i)
    return [((l1,), (), elem(l1)), ((l2,), (), elem(l2)),
            ((li,), (), Implies(And(ge(prev_end, K(0)), ge(cur_start, K(0))), eq(cur_start, prev_end)))]


def _group_common(run):
    gs = run.heap.get((S("self"), "_start"))
    ge_ = run.heap.get((S("self"), "_end"))
    if not (isinstance(gs, tuple) and isinstance(ge_, tuple)):
        raise P.AnalysisError("TaskGroup: group start/end constants not found")
    items = []
    ti = leaf_value(run, "self.time_interval")
    tl = leaf_value(run, "self.time_interval_length")
    has_interval = not (ti is not None and ti[1] is None)
    has_length = not (tl is not None and tl[1] is None)
    if has_interval:
        items.append(((), (), And(ge(gs, idx(T("time_interval"), 0)), le(ge_, idx(T("time_interval"), 1)))))
    elif has_length:
        items.append(((), (), le(ge_, add(gs, T("time_interval_length")))))
    L = loop(0, T("list_of_tasks"))
    items.append(((L,), (), And(ge(A(elem(L), "_start"), gs), le(A(elem(L), "_end"), ge_))))
    return items


def spec_unordered_group(run):
    return _group_common(run)


def spec_ordered_group(run):
    items = _group_common(run)
    k = kind_of(run)
    rel = {"lax": "<=", "strict": "<", "tight": "=="}.get(k)
    if rel is None:
        return None
    lst = T("list_of_tasks")
    li = loop(0, ("range", K(0), sub(("call", "len", (lst,), ()), K(1))))
    i = elem(li)
    items.append(((li,), (), app(rel, A(("idx", lst, i), "_end"), A(("idx", lst, add(i, K(1))), "_start"))))
    return items


SPEC = {
    "TaskStartAt": (spec_single("_start", {None: "=="}), None, "docs/task_constraints.md: TaskStartAt - 'start == value'"),
    "TaskEndAt": (spec_single("_end", {None: "=="}), None, "docs/task_constraints.md: TaskEndAt - 'end == value'"),
    "TaskStartAfter": (spec_single("_start", {"lax": ">=", "strict": ">"}), None,
                       "docs/task_constraints.md: TaskStartAfter - strict: start > value, lax: start >= value"),
    "TaskEndBefore": (spec_single("_end", {"lax": "<=", "strict": "<"}), None,
                      "docs/task_constraints.md: TaskEndBefore - strict: end < value, lax: end <= value"),
    "TaskPrecedence": (spec_precedence, None,
                       "docs/task_constraints.md: TaskPrecedence - before.end + offset <=, <, == after.start"),
    "TasksStartSynced": (spec_synced("_start"), None, "docs/task_constraints.md: TasksStartSynced - equal starts"),
    "TasksEndSynced": (spec_synced("_end"), None, "docs/task_constraints.md: TasksEndSynced - equal ends"),
    "TasksDontOverlap": (spec_dont_overlap, dont_care_overlap,
                         "docs/task_constraints.md: TasksDontOverlap - task_1 ends before task_2 starts or the converse"),
    "TasksContiguous": (spec_contiguous, None,
                        "docs/task_constraints.md: TasksContiguous - sorted start[i] == sorted end[i-1]"),
    "UnorderedTaskGroup": (spec_unordered_group, None,
                           "docs/task_constraints.md: UnorderedTaskGroup - all tasks inside the group window"),
    "OrderedTaskGroup": (spec_ordered_group, None,
                         "docs/task_constraints.md: OrderedTaskGroup - all tasks inside the window, in the listed order"),
}

# classes served by other rules (reason per class)
ELSEWHERE = {
    "TaskGroup": "abstract base of the two group classes (emits nothing itself)",
    "OptionalTaskForceSchedule": "R-OPT-RULES (C06)", "OptionalTaskConditionSchedule": "R-OPT-RULES (C06)",
    "OptionalTasksDependency": "R-OPT-RULES (C06)", "ForceScheduleNOptionalTasks": "R-OPT-RULES / R-PB-TABLE (C06)",
    "ScheduleNTasksInTimeIntervals": "R-POLARITY below",
    "TaskUnloadBuffer": "R-BUF-* (C09)", "TaskLoadBuffer": "R-BUF-* (C09)",
}


def r_tc_relation(ctx):
    proj = ctx.project
    classes = proj.subclasses("TaskConstraint")
    ctx.floor("R-TC-RELATION", "TaskConstraint subclasses", len(classes), 15)
    rows = 0
    for c in classes:
        if c.name in ELSEWHERE:
            continue
        if c.name not in SPEC:
            ctx.note(f"R-TC-RELATION: class {c.name} has no specification row (not covered)")
            continue
        spec_fn, dc_fn, cite = SPEC[c.name]
        runs = runs_of(ctx, Entry("init", cls=c.name, opaque=OPAQUE))
        fails_closed(ctx, "R-TC-RELATION", runs)
        mruns = mandatory_runs(runs)
        if not mruns:
            raise P.AnalysisError(f"R-TC-RELATION: no mandatory-constraint path through {c.name}.__init__")
        for run in mruns:
            where = f"{c.name}.__init__"
            cfgs = describe_config(run)
            spec_items = spec_fn(run)
            location = loc(run.emissions[0]) if run.emissions else first_line(proj, c.name)
            if spec_items is None:
                # a value of the Literal field for which the docs define no relation
                ctx.violation("R-LITERAL-EXH", where, f"kind={kind_of(run)!r}",
                              f"no documented relation for configuration [{cfgs}]", location)
                continue
            for ev in run.events_of("keyerror"):
                ctx.violation("R-LITERAL-EXH", where, "dispatch table misses a literal",
                              f"the kind dispatch does not cover {ev.data['remaining']}", location)
            em = [(e.loops, e.guards, all_scheduled(apply_config(run, e.term))) for e in run.emissions
                  if e.owner == S("self")]
            # an unbound name on this configuration (if/elif without else over a Literal)
            for l, g, t in em:
                if any(s == ("k", "<unbound>") for s in subterms(t)):
                    ctx.violation("R-LITERAL-EXH", where, "unbound on configuration",
                                  f"the emitted term uses a name that no branch assigns on [{cfgs}]", location)
            sp = [(l, g, all_scheduled(apply_config(run, t))) for l, g, t in spec_items]
            dc = dc_fn(run) if dc_fn else None
            compare_groups(ctx, "R-TC-RELATION", where, location, em, sp, f"[{cfgs}]", dont_care=dc)
            rows += 1
    ctx.floor("R-TC-RELATION", "class x configuration rows", rows, 25)
    ctx.assume("TaskPrecedence: offset >= 0 (declared ge=0); TasksDontOverlap: two zero-length tasks at the same "
               "instant are a don't-care")


# ---------------------------------------------------------------------------
# ScheduleNTasksInTimeIntervals: R-POLARITY
# ---------------------------------------------------------------------------
def r_polarity(ctx):
    cname = "ScheduleNTasksInTimeIntervals"
    runs = runs_of(ctx, Entry("init", cls=cname, opaque=OPAQUE))
    fails_closed(ctx, "R-POLARITY", runs)
    mruns = mandatory_runs(runs)
    ctx.floor("R-POLARITY", "kind configurations", len(mruns), 3)
    where = f"{cname}.__init__"
    for run in mruns:
        kind = kind_of(run)
        location = loc(run.emissions[0]) if run.emissions else first_line(ctx.project, cname)
        groups = conj_groups([(e.loops, e.guards, e.term) for e in run.emissions if e.owner == S("self")])
        # the (task, interval) group
        LT = loop(0, T("list_of_tasks"))
        LI = loop(1, T("list_of_time_intervals"))
        sig2 = ((LT, LI), ())
        if sig2 not in groups:
            ctx.violation("R-TC-RELATION", where, "missing per (task, interval) assertion",
                          "no assertion is emitted per task and time interval", location)
            continue
        bodies = groups[sig2]
        flags = set()
        for b in bodies:
            for s in subterms(b):
                if s and s[0] == "z3var" and s[1] == "Bool":
                    flags.add(s)
        if len(flags) != 1:
            raise P.AnalysisError(f"R-POLARITY: expected one in-interval Boolean per (task, interval), found {len(flags)}")
        b = next(iter(flags))
        task, itv = elem(LT), elem(LI)
        phi = And(ge(A(task, "_start"), idx(itv, 0)), le(A(task, "_end"), idx(itv, 1)))
        need = {"min": Implies(b, phi), "max": Implies(phi, b), "exact": And(Implies(b, phi), Implies(phi, b))}[kind]
        f_em = And(*bodies)
        # the emitted group must entail the direction the count needs, and never more than b <=> phi
        ok, wit, method = decide_equiv(ctx, f_em, need, mode="implies")
        inst = f"{where} kind={kind}"
        if ok:
            ctx.ok("R-POLARITY", inst, sample={"emitted": show(norm(f_em))[:300], "needed": show(norm(need))[:200],
                                               "decided_by": method})
        else:
            ctx.violation("R-POLARITY", where, f"kind={kind}: in-interval Boolean bounded on the wrong side",
                          f"the count '{kind}' needs {show(norm(need))[:200]} but the Boolean is only bounded by "
                          f"{show(norm(f_em))[:200]}: tasks inside an interval need not be counted", location,
                          witness=str(wit)[:400])
        full = And(Implies(b, phi), Implies(phi, b))
        ok2, wit2, _ = decide_equiv(ctx, full, f_em, mode="implies")
        if ok2:
            ctx.ok("R-TC-RELATION", inst + " (not tighter than b <=> in-interval)")
        else:
            ctx.violation("R-TC-RELATION", where, f"kind={kind}: per-interval assertion tighter than documented",
                          f"emitted {show(norm(f_em))[:300]} is not implied by b <=> (lo <= start and end <= hi)",
                          location, witness=str(wit2)[:400])
        # per task: at most one interval; final count over all flags with the declared number
        pair = ("tuple", (b, TRUE))
        per_task = app("PbLe", ("list", (("each", (LI,), (), pair),)), K(1))
        sig1 = ((LT,), ())
        got1 = [norm(x) for x in groups.get(sig1, [])]
        exp1 = norm(_rename_loops((LT,), (), per_task)[2])
        if exp1 in got1:
            ctx.ok("R-TC-RELATION", inst + " at most one interval per task")
        else:
            ctx.violation("R-TC-RELATION", where, "per-task cardinality",
                          f"expected {show(exp1)[:200]} for every task, found {[show(x)[:160] for x in got1]}", location)
        pb = {"min": "PbGe", "max": "PbLe", "exact": "PbEq"}[kind]
        final = norm(app(pb, ("list", (("each", (LT, LI), (), pair),)), T("nb_tasks_to_schedule")))
        got0 = [norm(x) for x in groups.get(((), ()), [])]
        if final in got0:
            ctx.ok("R-PB-TABLE", inst + " count over all flags")
        else:
            ctx.violation("R-PB-TABLE", where, f"kind={kind}: count assertion",
                          f"expected {show(final)[:240]}, found {[show(x)[:200] for x in got0]}", location)


def _base_store(ctx):
    from rules import tasks as _t
    _t.r_base_store(ctx)


def _declared_reaches_solver(ctx):
    from rules import resources as _r
    _r.r_declared_reaches_solver(ctx)


RULES = [r_tc_relation, r_polarity, _base_store, _declared_reaches_solver,
         lambda ctx: __import__("rules.validation", fromlist=["x"]).r_dup_name(ctx, only=('add_constraint',))]
