"""Solver-driver rules (solver.py): C07, C12, C13, C15, C19.

E4 (statement CFG: must-pass-through, typestate) for path rules, E2 (extracted IR) for the terms that flow to the solver.
Only the structure of the driver is decided; z3's own behaviour (optimality, which model, unsat cores) is trusted.
"""
from __future__ import annotations

import ast

from sa import project as P
from sa import cfg as C
from sa.interp import Entry
from sa.lib import *
from sa.terms import subterms
from rules import tasks as task_rules

SELF = S("self")
T = lambda n: S(f"self.{n}")
OPQ = ("sort_no_duplicates", "sort_duplicates", "initialize", "build_solution", "print_assertions", "print_statistics",
       "print_solution", "clean_buffer_levels", "calc_parabola_from_three_points", "solve", "check_sat")
LOC = "processscheduler/solver.py"


def solver_fn(ctx, name):
    return ctx.project.method("SchedulingSolver", name)[1]


def srcline(n):
    return f"{LOC}:{n.lineno}"


# ---------------------------------------------------------------------------
# C07
# ---------------------------------------------------------------------------
OBJECTIVE_KINDS = {
    "ObjectiveMaximizeIndicator": "maximize", "ObjectiveMinimizeIndicator": "minimize", "ObjectiveMinimizeMakespan": "minimize",
    "ObjectiveMaximizeResourceUtilization": "maximize", "ObjectiveMinimizeResourceCost": "minimize",
    "ObjectiveTasksStartLatest": "maximize", "ObjectiveTasksStartEarliest": "minimize",
    "ObjectiveMinimizeGreatestStartTime": "minimize", "ObjectiveMinimizeFlowtime": "minimize", "ObjectivePriorities": "minimize",
    "ObjectiveMinimizeFlowtimeSingleResource": "minimize", "ObjectiveMaximizeMaxBufferLevel": "maximize",
    "ObjectiveMinimizeMaxBufferLevel": "minimize",
}


def r_direction(ctx):
    proj = ctx.project
    # (d) every built-in objective passes the direction its documentation (and name) gives
    n = 0
    for c in proj.subclasses("Objective"):
        want = OBJECTIVE_KINDS.get(c.name)
        if want is None:
            if c.name.startswith("ObjectiveMaximize"):
                want = "maximize"
            elif c.name.startswith("ObjectiveMinimize"):
                want = "minimize"
            else:
                ctx.note(f"R-DIRECTION: objective class {c.name} has no documented direction (not covered)")
                continue
        runs = runs_of(ctx, Entry("init", cls=c.name, opaque=("sort_no_duplicates", "get_minimum", "get_maximum")))
        fails_closed(ctx, "R-DIRECTION", runs)
        for run in runs:
            if run.rejected:
                continue
            n += 1
            kind = run.heap.get((SELF, "kind"))
            if kind == K(want):
                ctx.ok("R-DIRECTION", f"{c.name} passes kind={want!r}")
            else:
                ctx.violation("R-DIRECTION", f"{c.name}.__init__", f"kind must be {want!r}",
                              f"{c.name} creates its objective with kind={show(kind) if isinstance(kind, tuple) else kind}",
                              first_line(proj, c.name))
            if c.name in ("ObjectiveMaximizeIndicator", "ObjectiveMinimizeIndicator"):
                tgt, w = run.heap.get((SELF, "target")), run.heap.get((SELF, "weight"))
                ok_t = tgt == ("idx", S("data"), K("target"))
                ok_w = isinstance(w, tuple) and "weight" in show(w) and "data" in show(w)
                if ok_t and ok_w:
                    ctx.ok("R-DIRECTION", f"{c.name} forwards the caller's target and weight")
                else:
                    ctx.violation("R-DIRECTION", f"{c.name}.__init__", "target / weight forwarded unchanged",
                                  f"target={show(tgt) if isinstance(tgt, tuple) else tgt}, weight={show(w) if isinstance(w, tuple) else w}",
                                  first_line(proj, c.name))
    ctx.floor("R-DIRECTION", "objective constructor paths", n, 13)
    # Objective.__init__: _target / _bounds from the indicator
    runs = runs_of(ctx, Entry("init", cls="Objective"))
    for run in runs:
        if run.rejected:
            continue
        dec = dict(run.decisions)
        ind = any(k.startswith("isinstance(self.target") and v for k, v in run.decisions)
        tg, bd = run.heap.get((SELF, "_target")), run.heap.get((SELF, "_bounds"))
        if ind:
            ok = tg == A(T("target"), "_indicator_variable") and bd == A(T("target"), "bounds")
        else:
            ok = tg == T("target") and bd == NONE
        if ok:
            ctx.ok("R-DIRECTION", f"Objective.__init__ [{describe_config(run)}]: target variable and bounds taken from the target")
        else:
            ctx.violation("R-DIRECTION", "Objective.__init__", "_target / _bounds",
                          f"on [{describe_config(run)}] _target={show(tg) if isinstance(tg, tuple) else tg}, "
                          f"_bounds={show(bd) if isinstance(bd, tuple) else bd}", first_line(proj, "Objective"))
    # (a) solve() hands "min" for minimize and "max" otherwise, with the objective's target
    runs = runs_of(ctx, Entry("method", cls="SchedulingSolver", name="solve",
                              opaque=OPQ[:-2] + ("_solve_optimize_incremental", "check_sat")))
    fails_closed(ctx, "R-DIRECTION", runs)
    seen = 0
    for run in runs:
        for ev in run.events_of("mcall"):
            if ev.data["name"] != "_solve_optimize_incremental":
                continue
            seen += 1
            kw = dict(ev.data["kwargs"])
            args = ev.data["args"]
            # positional arguments are named after the callee's parameters
            callee = solver_fn(ctx, "_solve_optimize_incremental")
            pnames = [a_.arg for a_ in callee.args.posonlyargs + callee.args.args][1:]
            for pn, av in zip(pnames, args):
                kw.setdefault(pn, av)
            kind = kw.get("kind")
            obj_kind = A(A(SELF, "_objective"), "kind")
            want = ("phi", eq(obj_kind, K("minimize")), K("min"), K("max"))
            alt = ("phi", eq(obj_kind, K("maximize")), K("max"), K("min"))
            ok = kind in (want, alt) and args and args[0] == A(A(SELF, "_objective"), "_target") and kw.get("max_iter") == T("max_iter")
            if ok:
                ctx.ok("R-DIRECTION", "solve(): incremental optimiser called with the objective's target and direction")
            else:
                ctx.violation("R-DIRECTION", "SchedulingSolver.solve", "direction / target handed to the incremental optimiser",
                              f"called with args {[show(a) for a in args]}, kind={show(kind) if kind else None}", srcline(ev.site))
    ctx.floor("R-DIRECTION", "calls of the incremental optimiser", seen, 1)
    # (b) inside the loop: strict comparator and bound index per direction
    runs = runs_of(ctx, Entry("method", cls="SchedulingSolver", name="_solve_optimize_incremental", opaque=OPQ))
    fails_closed(ctx, "R-DIRECTION", runs)
    var = S("variable")
    m = 0
    for run in runs:
        dec = dict(run.decisions)
        is_min = dec.get("kind == 'min'")
        if is_min is None:
            if dec.get("kind is None") is True:
                is_min = False
            else:
                continue
        asserts = [(l, g, t, ev) for l, g, t, ev in solver_stream(run)]
        m += 1
        if len(asserts) != 1:
            ctx.violation("R-IMPROVE-LOOP", "SchedulingSolver._solve_optimize_incremental", "one improvement bound per round",
                          f"on [{describe_config(run)[:80]}] {len(asserts)} assertions in the loop", LOC)
            continue
        l, g, t, ev = asserts[0]
        op = "<" if is_min else ">"
        from sa.decide import canon_atom, atom_key
        cur_want = ("mcall", ("idx", ("mcall", A(SELF, "_solver"), "model", (), ()), var), "as_long", (), ())
        ca, cw = canon_atom(t), canon_atom(app(op, var, cur_want))
        ok = ca is not None and atom_key(ca) == atom_key(cw)
        if ok:
            ctx.ok("R-DIRECTION", f"loop bound [{'min' if is_min else 'max'}]: variable {op} value of the model just read",
                   sample={"asserted": show(t)})
        else:
            ctx.violation("R-DIRECTION", "SchedulingSolver._solve_optimize_incremental",
                          f"kind={'min' if is_min else 'max'}: strict bound `variable {op} current value`",
                          f"asserts {show(t)[:200]}", srcline(ev.site))
        idx_want = 0 if is_min else 1
        gtxt = [s for gd in g for s in subterms(gd) if s and s[0] == "idx" and s[1] == A(A(SELF, "_objective"), "_bounds")]
        if gtxt and all(s[2] == K(idx_want) for s in gtxt):
            ctx.ok("R-DIRECTION", f"loop bound [{'min' if is_min else 'max'}]: stops at _bounds[{idx_want}]")
        else:
            ctx.violation("R-DIRECTION", "SchedulingSolver._solve_optimize_incremental",
                          f"kind={'min' if is_min else 'max'}: known bound is _bounds[{idx_want}]",
                          f"bound terms consulted: {[show(s) for s in gtxt]}", LOC)
    ctx.floor("R-DIRECTION", "incremental-loop configurations", m, 8)
    # (c) the Optimize handle gets minimize()/maximize() by kind, on both the single and the multi objective branch
    runs = runs_of(ctx, Entry("method", cls="SchedulingSolver", name="create_objective",
                              opaque=OPQ + ("build_equivalent_weighted_objective",)))
    fails_closed(ctx, "R-DIRECTION", runs)
    branches = 0
    for run in runs:
        for ev in solver_calls(run, ("minimize", "maximize")):
            kinds = [c for gd in ev.guards for c in subterms(gd) if is_app(c, "==") and len(c) == 4 and c[2][0] == "attr" and c[2][2] == "kind"]
            pos = [c for c in kinds if app("not", c) not in ev.guards and not any(is_app(gd, "not") and gd[2] == c for gd in ev.guards)]
            want = "maximize" if ev.data["name"] == "maximize" else "minimize"
            arg = ev.data["args"][0] if ev.data["args"] else None
            ok = pos and pos[-1][3] == K(want) and arg is not None and arg[0] == "attr" and arg[2] == "_target" and arg[1] == pos[-1][2][1]
            branches += 1
            if ok:
                ctx.ok("R-DIRECTION", f"create_objective: {ev.data['name']}() under kind == {want!r} on the same objective's target")
            else:
                ctx.violation("R-DIRECTION", "SchedulingSolver.create_objective", f"{ev.data['name']}() wired to kind {want!r}",
                              f"{ev.data['name']}({show(arg) if arg else ''}) under {[show(x) for x in ev.guards][:3]}", srcline(ev.site))
    ctx.floor("R-DIRECTION", "minimize/maximize wiring sites", branches, 4)


def verdict_edge_facts(node, label, res, defs=None):
    """what an edge of a test on the verdict variable `res` establishes: a subset of {'not_unsat', 'not_unknown'}.
    Understood spellings (any polarity, either operand order): res == z3.unsat / z3.unknown / z3.sat, res != ...,
    res in (z3.unsat, z3.unknown), res not in (...), and / or / not of those, and a flag assigned once from such a test
    (`defs`: name -> the expression it was assigned, for the names of the function that are assigned exactly once)"""
    if node.kind != "test" or res is None:
        return set()
    ALL = {"not_unsat", "not_unknown"}

    def facts(e, holds, depth=0):
        if isinstance(e, ast.UnaryOp) and isinstance(e.op, ast.Not):
            return facts(e.operand, not holds, depth)
        if isinstance(e, ast.BoolOp):
            parts = [facts(v, holds, depth) for v in e.values]
            strong = isinstance(e.op, ast.And) == holds          # every operand has that truth value on this edge
            return set.union(*parts) if strong else set.intersection(*parts)
        if isinstance(e, ast.Name) and defs is not None and e.id in defs and e.id != res and depth < 4:
            return facts(defs[e.id], holds, depth + 1)
        if not (isinstance(e, ast.Compare) and len(e.ops) == 1):
            return set()
        l, r = e.left, e.comparators[0]
        op = e.ops[0]
        if isinstance(op, (ast.NotEq, ast.NotIn)):
            holds = not holds
            op = ast.Eq() if isinstance(op, ast.NotEq) else ast.In()
        if isinstance(op, ast.Eq):
            if isinstance(r, ast.Name) and r.id == res:
                l, r = r, l
            if not (isinstance(l, ast.Name) and l.id == res):
                return set()
            what = ast.unparse(r)
            if what == "z3.sat":
                return set(ALL) if holds else set()
            if what == "z3.unsat":
                return set() if holds else {"not_unsat"}
            if what == "z3.unknown":
                return set() if holds else {"not_unknown"}
            return set()
        if isinstance(op, ast.In) and isinstance(l, ast.Name) and l.id == res and isinstance(r, (ast.Tuple, ast.List, ast.Set)):
            members = {ast.unparse(x) for x in r.elts}
            if holds:
                return set(ALL) if members == {"z3.sat"} else set()
            out = set()
            if "z3.unsat" in members:
                out.add("not_unsat")
            if "z3.unknown" in members:
                out.add("not_unknown")
            return out
        return set()
    return facts(node.ast.test, label == "T")


def r_improve_loop(ctx):
    fn = solver_fn(ctx, "_solve_optimize_incremental")
    g = C.CFG(fn)
    where = "SchedulingSolver._solve_optimize_incremental"
    heads = g.find(lambda n: n.kind == "whilehead")
    if len(heads) != 1:
        raise P.AnalysisError(f"R-IMPROVE-LOOP: expected one improvement loop, found {len(heads)}")
    head = heads[0]
    checks = g.find(lambda n: n.kind == "stmt" and C.has_call(n, "check_sat") or n.kind == "stmt" and C.has_call(n, "_solver.check"))
    models = g.find(lambda n: n.kind == "stmt" and C.has_call(n, "_solver.model"))
    pushes = g.find(lambda n: C.has_call(n, "_solver.push"))
    pops = g.find(lambda n: C.has_call(n, "_solver.pop"))
    if len(checks) != 1 or len(models) != 1:
        raise P.AnalysisError(f"R-IMPROVE-LOOP: check sites {len(checks)}, model sites {len(models)}")
    chk, mdl = checks[0], models[0]
    res_names = C.assigned_names(chk)
    res = res_names[0] if res_names else None

    # (i) typestate: model() only after the result was tested not unsat and not unknown (or equal to sat)
    def transfer(n, facts):
        f = set(facts)
        if n is chk:
            f = {"checked"}
        elif n.kind == "stmt" and n is not mdl and any(C.call_name(c).endswith(s) for c in C.calls_in(n)
                                                          for s in ("_solver.push", "_solver.pop", "_solver.add", "append_z3_assertion",
                                                                    "_solver.assert_and_track")):
            f.discard("checked")
            f.discard("not_unsat")
            f.discard("not_unknown")
        return frozenset(f)

    def edge(n, lab, facts):
        return frozenset(set(facts) | verdict_edge_facts(n, lab, res))

    facts = C.forward_must(g, frozenset(), transfer, edge)
    fm = facts[mdl.id]
    if {"checked", "not_unsat", "not_unknown"} <= fm:
        ctx.ok("R-IMPROVE-LOOP", "(i) model() is read only after check() returned neither unsat nor unknown",
               sample={"facts at the model() read": sorted(fm)})
    else:
        ctx.violation("R-IMPROVE-LOOP", where, "(i) model() read without a sat verdict",
                      f"on some path to `{mdl.src()}` the last check() result is not known to be sat (facts: {sorted(fm)})", srcline(mdl))
    # (ii) the returned variable is assigned only from that model() (or its initial value)
    rets = g.find(lambda n: n.kind == "stmt" and isinstance(n.ast, ast.Return))
    ret_names = {ast.unparse(r.ast.value) for r in rets if r.ast.value is not None}
    sol = C.assigned_names(mdl)
    if len(ret_names) == 1 and sol and sol[0] in ret_names:
        writers = [n for n in g.nodes if sol[0] in C.assigned_names(n)]
        bad = [n for n in writers if n is not mdl and not (isinstance(n.ast, ast.Assign) and isinstance(n.ast.value, ast.Constant)
                                                          and n.ast.value.value in (False, None) and head.id in g.reachable(n))]
        inside = [n for n in writers if n is not mdl and n.id in g.reachable(head) and head.id in g.reachable(n)]
        if not bad and not inside:
            ctx.ok("R-IMPROVE-LOOP", f"(ii)/(v) the returned `{sol[0]}` is only ever the last model read after a sat check")
        else:
            ctx.violation("R-IMPROVE-LOOP", where, "(ii) returned schedule assigned from something else than the checked model",
                          f"`{sol[0]}` is also assigned at {[srcline(n) for n in bad + inside]}", srcline((bad + inside)[0]))
    else:
        ctx.violation("R-IMPROVE-LOOP", where, "(ii) the model read in the loop is what is returned",
                      f"returns {sorted(ret_names)}, model stored in {sol}", srcline(mdl))
    # (iii) every way back to the next check passes through push() and the improvement bound
    strict = lambda e: isinstance(e, ast.Compare) and isinstance(e.ops[0], (ast.Lt, ast.Gt))
    strict_names = {t_.id for n_ in g.nodes if n_.kind == "stmt" and isinstance(n_.ast, ast.Assign) and strict(n_.ast.value)
                    for t_ in n_.ast.targets if isinstance(t_, ast.Name)}
    # the bound is whatever is asserted inside the loop: that it is the strict `variable < / > current value` of the right
    # direction is decided on the extracted term by R-DIRECTION
    is_bound = lambda n: n.kind == "stmt" and (C.has_call(n, "append_z3_assertion") or C.has_call(n, "_solver.add"))
    for what, pred in (("push()", lambda n: n in pushes), ("the strict improvement bound", is_bound)):
        p = g.path_avoiding(mdl, chk, pred)
        if p is None:
            ctx.ok("R-IMPROVE-LOOP", f"(iii) every path from the model read to the next check passes through {what}")
        else:
            ctx.violation("R-IMPROVE-LOOP", where, f"(iii) a round can restart without {what}",
                          f"path {' -> '.join(str(n.lineno) for n in p if n.lineno)} reaches the next check() without {what}: the next "
                          f"model need not be better than the current one", srcline(p[-2] if len(p) > 1 else mdl))
    # the bound follows the push (it must live inside the pushed scope) - and nothing pops inside the loop
    in_loop = lambda n: n.id in g.reachable(head) and head.id in g.reachable(n)
    loop_pops = [n for n in pops if in_loop(n)]
    if not loop_pops:
        ctx.ok("R-IMPROVE-LOOP", "(iv) no pop() inside the loop: the bounds accumulate")
    else:
        ctx.violation("R-IMPROVE-LOOP", where, "(iv) pop() inside the improvement loop",
                      "a scope is popped between two rounds: an earlier bound is dropped and a later model may be worse", srcline(loop_pops[0]))
    resets = g.find(lambda n: in_loop(n) and any(a in ("self._solver",) for a in C.assigned_names(n)))
    if resets:
        ctx.violation("R-IMPROVE-LOOP", where, "(iv) solver handle replaced inside the loop", "", srcline(resets[0]))


def r_weighted(ctx):
    where = "SchedulingSolver.build_equivalent_weighted_objective"
    runs = runs_of(ctx, Entry("method", cls="SchedulingSolver", name="build_equivalent_weighted_objective", opaque=OPQ))
    fails_closed(ctx, "R-WEIGHTED", runs)
    L = loop("b0.0", ("mcall", S("self.problem.objectives"), "values", (), ()))
    o = elem(L)
    for run in runs:
        stream = solver_stream(run)
        terms = [norm(t) for l, g, t, ev in stream]
        eqv = [t for t in terms if is_app(t, "==") and any(s and s[0] == "z3var" and "Equivalent" in show(s) for s in subterms(t))]
        want_sum = app("Sum", ("each", (L,), (), mul(A(o, "weight"), A(o, "_target"))))
        from sa.decide import canon
        ok = False
        var = None
        for t in eqv:
            for a, b in ((t[2], t[3]), (t[3], t[2])):
                if a[0] == "z3var" and canon(b) == canon(want_sum):
                    ok, var = True, a
        if ok:
            ctx.ok("R-WEIGHTED", f"{where} [{describe_config(run)}]: equivalent objective == Sum(weight * target) over every objective",
                   sample={"asserted": show(norm(eq(var, want_sum)))[:240]})
        else:
            ctx.violation("R-WEIGHTED", where, "equivalent objective is the weighted sum of all objectives",
                          f"asserted: {[show(t)[:200] for t in terms]}", LOC)
            continue
        news = {ev.data["cls"]: ev for ev in run.events_of("new")}
        ind = news.get("IndicatorFromMathExpression")
        ok_ind = ind is not None and dict(ind.data["kwargs"]).get("expression") == var
        drained = any(is_app(t, "==") and var in (t[2], t[3]) and any(s and s[0] == "z3var" and "Indicator_" in show(s) for s in subterms(t))
                      for t in terms)
        obj = run.heap.get((SELF, "_objective"))
        ok_obj = isinstance(obj, tuple) and obj[0] == "obj" and run.heap.get((obj, "target")) == (ind.data["obj"] if ind else None)
        # nothing else is asserted on the way: the equivalent objective is a definition, not a constraint on the schedules
        is_def = lambda t: is_app(t, "==") and len(t) == 4 and var in (t[2], t[3]) and \
            (canon(t[2] if t[3] == var else t[3]) == canon(want_sum)
             or any(s and s[0] == "z3var" and "Indicator_" in show(s) for s in subterms(t)))
        extra = [t for t in terms if not is_def(t)]
        for t in extra:
            ctx.violation("R-WEIGHTED", where, f"assertion beyond the definition of the equivalent objective: {show(t)[:80]}",
                          f"{show(t)[:200]} is asserted while the weighted objective is built: it holds for no reason in every valid "
                          f"schedule, and it is asserted only in the configurations that build the weighted objective (incremental "
                          f"optimiser, or priority 'weight'), so the set of valid schedules depends on the optimiser options", LOC)
        if ok_ind and drained and ok_obj:
            ctx.ok("R-WEIGHTED", f"{where}: the indicator on the sum is asserted and becomes the single objective")
        else:
            ctx.violation("R-WEIGHTED", where, "indicator on the weighted sum wired as the objective",
                          f"indicator on the sum: {ok_ind}, its assertion handed to the solver: {drained}, objective targets it: {ok_obj}", LOC)


def r_opt_wiring(ctx):
    where = "SchedulingSolver.initialize"
    n = 0
    for run in task_rules.init_runs(ctx, "R-OPT-WIRING"):
        dec = dict(run.decisions)
        has_obj = dec.get("len(self.problem.objectives) >= 1")
        opt = dec.get("self.optimizer == 'optimize'")
        h = run.heap.get((SELF, "_solver"))
        want_optimize = bool(has_obj) and bool(opt)
        is_optimize = isinstance(h, tuple) and h[0] == "call" and h[1] == "z3.Optimize"
        n += 1
        if want_optimize == is_optimize:
            ctx.ok("R-OPT-WIRING", f"[{describe_config(run)[:70]}] handle = {show(h)[:40]}", nontrivial=False)
        else:
            ctx.violation("R-OPT-WIRING", where, "z3.Optimize iff optimizer == 'optimize' and an objective exists",
                          f"on [{describe_config(run)[:100]}] the handle is {show(h)[:60]}", LOC)
        if is_optimize:
            sets = [ev for ev in solver_calls(run, ("set",))]
            if sets and dict(sets[0].data["kwargs"]).get("priority") == T("optimize_priority"):
                ctx.ok("R-OPT-WIRING", "priority mode handed to the Optimize handle", nontrivial=False)
            else:
                ctx.violation("R-OPT-WIRING", where, "set(priority=optimize_priority)", "the priority mode is not configured", LOC)
        if not is_optimize and dec.get("self.logics is None") is False:
            if isinstance(h, tuple) and h[0] == "call" and h[1] == "z3.SolverFor" and h[2] == (T("logics"),):
                ctx.ok("R-OPT-WIRING", "SolverFor(self.logics)", nontrivial=False)
            else:
                ctx.violation("R-OPT-WIRING", where, "SolverFor(logics)", f"handle {show(h)[:60]}", LOC)
    ctx.floor("R-OPT-WIRING", "initialize configurations", n, 12)


def r_objective_handed(ctx):
    """with the built-in optimiser (z3.Optimize) a declared objective only has an effect if it is handed to the handle with
    maximize()/minimize(): on every configuration of create_objective with optimizer == 'optimize', for a single objective
    and for several, both directions reach the handle, each with the target of the very objective whose kind is tested"""
    where = "SchedulingSolver.create_objective"
    runs = runs_of(ctx, Entry("method", cls="SchedulingSolver", name="create_objective",
                              opaque=("build_equivalent_weighted_objective",)))
    fails_closed(ctx, "R-OBJ-HANDED", runs)
    multi = A(SELF, "_is_multi_objective_optimization_problem")
    n = 0
    for run in runs:
        dec = dict(run.decisions)
        if dec.get("self.optimizer == 'incremental'") is not False and dec.get("self.optimizer == 'optimize'") is not True:
            continue
        cfgs = describe_config(run)
        evs = solver_calls(run, ("maximize", "minimize"))
        for pol, label in ((norm(multi), "several objectives"), (norm(app("not", multi)), "a single objective")):
            n += 1
            got = {"maximize": [], "minimize": []}
            for ev in evs:
                gs = [norm(g) for g in ev.guards]
                if pol not in gs:
                    continue
                args = ev.data["args"]
                tgt = args[0] if args else None
                if not (isinstance(tgt, tuple) and tgt[0] == "attr" and tgt[2] == "_target"):
                    ctx.violation("R-OBJ-HANDED", where, "objective target handed to the optimiser",
                                  f"on [{cfgs}] {ev.data['name']}() receives {show(norm(tgt))[:120] if tgt else 'nothing'}, not an objective's target",
                                  srcline(ev.site))
                    continue
                obj = tgt[1]
                want_kind = norm(eq(A(obj, "kind"), K(ev.data["name"])))
                if want_kind in gs or norm(eq(K(ev.data["name"]), A(obj, "kind"))) in gs:
                    got[ev.data["name"]].append(ev)
                else:
                    ctx.violation("R-OBJ-HANDED", where, "direction of the objective handed to the optimiser",
                                  f"on [{cfgs}] {ev.data['name']}({show(norm(tgt))[:100]}) is not under the test "
                                  f"`{show(norm(A(obj, 'kind')))[:80]} == '{ev.data['name']}'`", srcline(ev.site))
            # which objective(s) are handed over: the equivalent weighted one exactly in weight mode, each declared one
            # otherwise - z3.Optimize has no 'weight' priority, handing it the individual objectives in that mode makes it
            # optimise something else than the documented weighted sum
            def source(ev):
                o_ = ev.data["args"][0][1]
                txt = show(o_)
                if "build_equivalent_weighted_objective" in txt:
                    return "the equivalent weighted objective"
                if o_[0] == "elem" and "objectives" in show(o_[1][3]):
                    return "each declared objective"
                return "the single objective"
            srcs = {source(ev) for v in got.values() for ev in v}
            weight_mode = dec.get("self.optimize_priority == 'weight'") is True
            want_src = {"the single objective"} if label == "a single objective" else \
                ({"the equivalent weighted objective"} if weight_mode else {"each declared objective"})
            if srcs and srcs != want_src:
                ctx.violation("R-OBJ-HANDED", where, f"which objective is handed to z3.Optimize ({label})",
                              f"on [{cfgs}] with {label} the Optimize handle receives {sorted(srcs)}; documented: {sorted(want_src)}"
                              + (" (the weighted sum is what 'weight' mode optimises)" if weight_mode else ""), LOC)
                continue
            missing = [k for k, v in got.items() if not v]
            if missing:
                ctx.violation("R-OBJ-HANDED", where, f"objective handed to z3.Optimize ({label})",
                              f"on [{cfgs}] with {label} no {' / '.join(m + '()' for m in missing)} call reaches the Optimize handle: "
                              f"solve() then returns the first satisfying model, not an optimal one", LOC)
            else:
                ctx.ok("R-OBJ-HANDED", f"{where} [{cfgs}; {label}]",
                       sample={"handed": sorted({show(norm(e.data['args'][0]))[:80] for v in got.values() for e in v})})
    ctx.floor("R-OBJ-HANDED", "optimize configurations x objective multiplicity", n, 4)


def r_makespan_is_the_horizon(ctx):
    """ObjectiveMinimizeMakespan minimises the horizon variable: that is the makespan only because every task end is asserted
    <= the horizon variable (R-HORIZON, shared with C01 / C11), and a user horizon only bounds that variable"""
    task_rules.r_horizon(ctx, exact=True)


def r_objective_is_a_function_of_the_schedule(ctx):
    """'no worse than any schedule found before' compares schedules by the value of the objective variable: that variable has to
    be *defined* by the schedule (sum, maximum, count ... as an equality), not merely bounded by it, or an improvement step can
    consume slack of the variable without improving the schedule, and the value reported for an early stop is not the value the
    returned schedule attains - the definitions of the built-in objectives and of the max/min helpers (R-IND-DEF, R-MINMAX;
    shared with C08)"""
    from rules import indicators
    indicators.r_objective_indicators(ctx)
    indicators.r_minmax(ctx)


def r_weight_forwarded(ctx):
    """'the weighted sum of several objectives ... any weights': `weight` is a declared field of every objective class, so
    `ObjectiveMinimizeMakespan(weight=5)` is accepted - the weight the caller gives must be the weight the weighted sum uses.
    Decided per objective constructor: the value stored in `weight` is the caller's `data['weight']` whenever one is given
    (the two *Indicator classes forward it: R-DIRECTION)."""
    proj = ctx.project
    n = 0
    for c in proj.subclasses("Objective"):
        runs = runs_of(ctx, Entry("init", cls=c.name, opaque=OPQ))
        fails_closed(ctx, "R-WEIGHT", runs)
        bad = False
        seen = False
        for run in runs:
            if run.rejected:
                continue
            seen = True
            w = run.heap.get((SELF, "weight"))
            if not (isinstance(w, tuple) and "weight" in show(w) and "data" in show(w)):
                bad = True
        if not seen:
            continue
        n += 1
        if bad:
            ctx.violation("R-WEIGHT", f"{c.name}.__init__", "the caller's weight is dropped",
                          f"{c.name} accepts a `weight` argument (declared field of Objective) but builds itself without it: the weight is "
                          f"silently 1, so the solver optimises another weighted sum than the one declared "
                          f"(ObjectiveMinimizeMakespan(weight=5) + ObjectiveMinimizeResourceCost(weight=1): 24 returned, 18 is optimal)",
                          first_line(proj, c.name))
        else:
            ctx.ok("R-WEIGHT", f"{c.name}: the caller's weight is the objective's weight")
    ctx.floor("R-WEIGHT", "objective classes", n, 10)


def r_bound_asserted(ctx):
    """the third writer of `Indicator.bounds` is the caller (constructor argument).  docs/indicator.md: 'Bounds are constraints over
    an indicator value' - and the incremental optimiser treats reaching one as a proof of optimality, which z3.Optimize knows
    nothing about: the two agree only if the bounds the caller gives are asserted.  Decided on Indicator.__init__: on the paths
    where bounds are given, `variable >= bounds[0]` and `variable <= bounds[1]` are asserted (each possibly under its own
    `is not None` test)."""
    from rules.indicators import ind_var
    n = 0
    for cname in ("IndicatorFromMathExpression",):
        runs = runs_of(ctx, Entry("init", cls=cname))
        fails_closed(ctx, "R-BOUND-ASSERTED", runs)
        for run in runs:
            if run.rejected or dict(run.decisions).get("self.bounds is None") is not False:
                continue
            n += 1
            var = ind_var(run)
            b = A(SELF, "bounds")
            own = [norm(e.term) for e in run.emissions if e.owner == SELF and not e.loops]
            from sa.decide import canon
            lo_ok = any(canon(t) == canon(ge(var, ("idx", b, K(0)))) for t in own)
            hi_ok = any(canon(t) == canon(le(var, ("idx", b, K(1)))) for t in own)
            if lo_ok and hi_ok:
                ctx.ok("R-BOUND-ASSERTED", f"{cname}: bounds given by the caller are asserted on the indicator variable")
            else:
                ctx.violation("R-BOUND-ASSERTED", "Indicator.__init__", "bounds given by the caller are asserted",
                              f"with bounds given, the constructor asserts {[show(t)[:70] for t in own]}: "
                              f"{'the lower' if not lo_ok else 'the upper'} bound is not a constraint on the indicator variable, but the "
                              f"incremental optimiser stops with 'optimum found' on reaching it while z3.Optimize goes on (bounds (0, 10) on "
                              f"a maximised start: 10 against 17)", first_line(ctx.project, "Indicator"))
    if n == 0:
        ctx.violation("R-BOUND-ASSERTED", "Indicator.__init__", "bounds given by the caller are asserted",
                      "no constructor path looks at `self.bounds`: bounds given by the caller are never asserted, yet the incremental "
                      "optimiser stops with 'optimum found' on reaching one while z3.Optimize goes on (bounds (0, 10) on a maximised "
                      "start: 10 against 17)", first_line(ctx.project, "Indicator"))


JUSTIFIED_BOUNDS = {
    "IndicatorResourceUtilization": ("(0,100)", "a percentage of the horizon: between 0 and 100 by definition"),
}


def r_bound_provenance(ctx):
    """the incremental optimiser takes `value == bound` as a proof of optimality, the built-in optimiser ignores the bound: the
    two agree only if the bound holds in every valid schedule.  The bound is `Indicator.bounds`, copied by Objective.__init__
    into `_bounds`: its only writers may be the caller (constructor argument), an indicator's own constructor (from its own
    definition) and Objective.__init__ - a constraint, which can be optional or an operand of a logical combination, is no
    proof"""
    proj = ctx.project
    n = 0
    for m in proj.modules.values():
        for cnode in [x for x in ast.walk(m.tree) if isinstance(x, ast.ClassDef)] + [None]:
            fns = [f for f in (cnode.body if cnode else m.tree.body) if isinstance(f, ast.FunctionDef)]
            for fn in fns:
                for node in ast.walk(fn):
                    tgt = None
                    if isinstance(node, ast.Attribute) and isinstance(node.ctx, ast.Store) and node.attr in ("bounds", "_bounds"):
                        tgt = (ast.unparse(node.value), node.attr)
                    elif isinstance(node, ast.Call) and ast.unparse(node.func) in ("setattr", "object.__setattr__") and len(node.args) >= 2 \
                            and isinstance(node.args[1], ast.Constant) and node.args[1].value in ("bounds", "_bounds"):
                        tgt = (ast.unparse(node.args[0]), node.args[1].value)
                    if tgt is None:
                        continue
                    n += 1
                    where = f"{cnode.name + '.' if cnode else m.short + '.'}{fn.name}"
                    c = proj.classes.get(cnode.name) if cnode else None
                    own = tgt[0] == "self" and fn.name == "__init__" and c is not None and \
                        ((tgt[1] == "bounds" and c.is_subclass_of("Indicator")) or (tgt[1] == "_bounds" and c.name == "Objective"))
                    if own and tgt[1] == "bounds":
                        # a bound an indicator gives itself must follow from its definition: the table of the ones that do
                        parent = getattr(node, "_parent", None)
                        value = ast.unparse(parent.value).replace(" ", "") if isinstance(parent, ast.Assign) else None
                        justified = JUSTIFIED_BOUNDS.get(c.name)
                        if justified is None or value != justified[0]:
                            ctx.violation("R-BOUND-PROVENANCE", where, f"{c.name} declares the bounds {value} for itself",
                                          f"{c.name}.__init__ sets `self.bounds = {value}`: the incremental optimiser stops with 'optimum "
                                          f"found' on reaching it, so it must hold for every schedule by the indicator's definition; the "
                                          f"bounds known to follow from a definition are {dict((k, v[0]) for k, v in JUSTIFIED_BOUNDS.items())}",
                                          f"{proj.relpath(m.path)}:{node.lineno}")
                            continue
                    if own:
                        ctx.ok("R-BOUND-PROVENANCE", f"{where}: `{tgt[0]}.{tgt[1]}` written by its owner's constructor")
                    else:
                        ctx.violation("R-BOUND-PROVENANCE", where, f"writes `{tgt[1]}` of another object",
                                      f"`{tgt[0]}.{tgt[1]}` is assigned in {where}: the incremental optimiser stops with 'optimum found' "
                                      f"as soon as the objective reaches that bound, so a bound that does not hold in every valid "
                                      f"schedule (a constraint may be optional, or an operand of Or / Implies) makes it return a "
                                      f"non-optimal value that z3.Optimize does not", f"{proj.relpath(m.path)}:{node.lineno}")
    ctx.floor("R-BOUND-PROVENANCE", "writers of Indicator.bounds / Objective._bounds", n, 3)


C07_RULES = [r_direction, r_improve_loop, r_weighted, r_opt_wiring, r_objective_handed, r_makespan_is_the_horizon,
             r_objective_is_a_function_of_the_schedule, r_bound_provenance, r_bound_asserted, r_weight_forwarded]


# ---------------------------------------------------------------------------
# C12
# ---------------------------------------------------------------------------
def r_block_clause(ctx):
    where = "SchedulingSolver.find_another_solution"
    runs = runs_of(ctx, Entry("method", cls="SchedulingSolver", name="find_another_solution", opaque=OPQ))
    fails_closed(ctx, "R-BLOCK-CLAUSE", runs)
    L = loop("b0.0", ("mcall", S("self.problem.tasks"), "values", (), ()))
    t = elem(L)
    mv = lambda v: ("mcall", ("idx", A(SELF, "_model"), v), "as_long", (), ())
    want = app("Or",
               ("each", (L,), (), ne(A(t, "_start"), mv(A(t, "_start")))),
               ("each", (L,), (), ne(A(t, "_end"), mv(A(t, "_end")))),
               ("each", (L,), (A(t, "optional"),), ne(A(t, "_scheduled"), eq(("fstr", (("idx", A(SELF, "_model"), A(t, "_scheduled")),)), K("True")))))
    from sa.decide import canon
    for run in runs:
        st = solver_stream(run)
        cfgs = describe_config(run)
        if len(st) != 1 or st[0][0] or st[0][1]:
            ctx.violation("R-BLOCK-CLAUSE", where, "one blocking clause",
                          f"on [{cfgs}] {len(st)} assertion(s) are added ({[show(norm(x[2]))[:100] for x in st]})", LOC)
            continue
        got = st[0][2]
        if canon(got) == canon(want):
            ctx.ok("R-BLOCK-CLAUSE", f"{where} [{cfgs}]", sample={"clause": show(norm(got))[:400]})
        else:
            ctx.violation("R-BLOCK-CLAUSE", where, "Or over every task of start/end/scheduled differing from the current model",
                          f"on [{cfgs}] adds {show(norm(got))[:420]} ; required {show(norm(want))[:420]}", srcline(st[0][3].site))
        _model_guard(ctx, run, where)
        _then_solve(ctx, run, where)
    where = "SchedulingSolver.find_another_solution_for_variable"
    runs = runs_of(ctx, Entry("method", cls="SchedulingSolver", name="find_another_solution_for_variable", opaque=OPQ))
    fails_closed(ctx, "R-VAR-VARIANT", runs)
    v = S("variable")
    for run in runs:
        st = solver_stream(run)
        ok = len(st) == 1 and not st[0][0] and not st[0][1] and canon(st[0][2]) == canon(ne(v, mv(v)))
        if ok:
            ctx.ok("R-VAR-VARIANT", f"{where} [{describe_config(run)}]", sample={"asserted": show(norm(st[0][2]))})
        else:
            ctx.violation("R-VAR-VARIANT", where, "variable != its value in the current model",
                          f"adds {[show(norm(x[2]))[:160] for x in st]}", LOC)
        _model_guard(ctx, run, where)
        _then_solve(ctx, run, where)


def _model_guard(ctx, run, where):
    rs = [ev for ev in run.events_of("raise") if any(norm(gd) == norm(app("is", A(SELF, "_model"), NONE)) for gd in ev.guards)]
    first_assert = min([(ev.stack[0] if ev.stack else ev.site).lineno for ev in solver_calls(run, SOLVER_ASSERT)] or [10 ** 9])
    if rs and rs[0].site.lineno < first_assert:
        ctx.ok("R-MODEL-TYPESTATE", f"{where}: raises when no solution was computed yet", nontrivial=False)
    else:
        ctx.violation("R-MODEL-TYPESTATE", where, "no current model", "the method does not reject a call before any successful solve()", LOC)


def _then_solve(ctx, run, where):
    rv = run.retval
    ok = isinstance(rv, tuple) and rv[0] == "mcall" and rv[2] == "solve" and rv[1] == SELF
    pushes = solver_calls(run, ("push",))
    if ok and not pushes:
        ctx.ok("R-BLOCK-PERMANENT", f"{where}: clause added outside any pushed scope, then solve() is returned", nontrivial=False)
    else:
        ctx.violation("R-BLOCK-PERMANENT", where, "clause permanent, then solve()",
                      f"returns {show(rv)[:80] if isinstance(rv, tuple) else rv}; push() calls in the method: {len(pushes)}", LOC)


def r_chained_cmp(ctx):
    """a chained comparison with a z3 term operand is evaluated as (a op b) and (b op c): bool() of a term / term vs str"""
    n = 0
    found = []
    for m in ctx.project.modules.values():
        for node in ast.walk(m.tree):
            if isinstance(node, ast.Compare):
                n += 1
                if len(node.ops) > 1:
                    operands = [node.left] + node.comparators
                    pure = all(isinstance(o, (ast.Constant, ast.Name)) or (isinstance(o, ast.Call) and ast.unparse(o.func) == "len")
                               for o in operands)
                    if not pure:
                        fn = node
                        while fn is not None and not isinstance(fn, ast.FunctionDef):
                            fn = getattr(fn, "_parent", None)
                        found.append((m, node, fn.name if fn else "?"))
    for m, node, fname in found:
        ctx.violation("R-CHAINED-CMP", f"{m.short}.{fname}", f"chained comparison {ast.unparse(node)[:80]}",
                      f"`{ast.unparse(node)[:120]}` is a chained comparison: python evaluates it as a conjunction of two comparisons, "
                      f"which forces bool() on a z3 term or compares a term with a str", f"{ctx.project.relpath(m.path)}:{node.lineno}")
    ctx.floor("R-CHAINED-CMP", "comparisons scanned", n, 150)
    # positive fixture: the rule must match the known-bad form
    fixture = ast.parse("x = t._scheduled != f'{m}' == 'True'").body[0].value
    if not (isinstance(fixture, ast.Compare) and len(fixture.ops) == 2):
        raise P.AnalysisError("R-CHAINED-CMP: positive fixture no longer matches")
    if not found:
        ctx.ok("R-CHAINED-CMP", f"no chained comparison over non-trivial operands in {n} comparisons (fixture matches)")


def r_unique_unscheduled(ctx):
    """'visits every distinct valid timing exactly once' needs one representation per schedule: the blocking clause compares
    start, end and scheduled flag, so an unscheduled optional task must have its start, end (and duration) pinned to a single
    point - the unscheduled branch of Task.set_assertions, decided by R-SET-ASSERTIONS (shared with C01 / C06)"""
    task_rules.r_task_oblig(ctx, mode="implies", rule="R-SET-ASSERTIONS", obligations=False)


def r_every_timing_admitted(ctx):
    """'visits every distinct valid timing': nothing beyond the documented groups is asserted when the problem is handed to the
    solver (R-STREAM-EXACT, shared with C05)"""
    from rules import completeness
    completeness.r_stream_exact(ctx)
    completeness.r_stream_groups_decided(ctx)


def r_var_request_is_scoped(ctx):
    """find_another_solution_for_variable asks for a schedule in which one variable differs from its current value.  The clause
    `variable != value` excludes every schedule with that value - far more than the schedules returned so far - so it may only
    hold for the duration of that request (pushed, checked, popped): left on the solver, it makes every later request fail or
    skip schedules that were never returned ('fails only when no such schedule is left', 'visits every distinct valid timing').
    (find_another_solution's own clause blocks exactly the timing just returned and is rightly permanent: R-BLOCK-CLAUSE.)"""
    c = ctx.project.cls("SchedulingSolver")
    name = "find_another_solution_for_variable"
    if name not in c.methods:
        raise P.AnalysisError(f"R-VAR-SCOPE: anchor vanished: SchedulingSolver.{name}")
    g = C.CFG(c.methods[name])
    sites = g.find(lambda x: any(C.has_call(x, a) for a in ASSERT_CALLS))
    pushes = g.find(lambda x: C.has_call(x, "_solver.push"))
    pops = g.find(lambda x: C.has_call(x, "_solver.pop"))
    ctx.floor("R-VAR-SCOPE", "assertion sites of find_another_solution_for_variable", len(sites), 1)
    for s_ in sites:
        unscoped = g.path_avoiding(g.entry, s_, lambda z: z in pushes) is not None
        leaks = unscoped or not pops or g.path_avoiding(s_, g.exit, lambda z: z in pops) is not None
        if leaks:
            ctx.violation("R-VAR-SCOPE", f"SchedulingSolver.{name}", "the exclusion of the current value outlives the request",
                          f"`{s_.src()[:80]}` is asserted without a push() / is not popped on every exit: every schedule in which the "
                          f"variable has that value is lost to all later requests, returned or not (horizon 2, A and B of duration 1: after "
                          f"one request for A's start only 3 of the 4 timings are ever visited)", srcline(s_))
        else:
            ctx.ok("R-VAR-SCOPE", f"SchedulingSolver.{name}: the exclusion holds for the request only")


def r_enumerated_are_valid(ctx):
    """'each request returns a valid schedule ... visits every distinct valid timing exactly once': the enumeration walks the
    models of the asserted system, so it returns only valid timings (and as many as there are) exactly when every task's own
    obligations - start >= 0, end = start + duration, the declared duration bounds and allowed values - are asserted on every
    parameter combination (R-TASK-OBLIG, shared with C01)"""
    task_rules.r_task_oblig(ctx)


C12_RULES = [r_block_clause, r_chained_cmp, lambda ctx: r_scoped_assert(ctx), lambda ctx: r_push_pop(ctx), r_unique_unscheduled,
             lambda ctx: r_check_fresh(ctx), r_every_timing_admitted, r_enumerated_are_valid, r_var_request_is_scoped]


# ---------------------------------------------------------------------------
# C13
# ---------------------------------------------------------------------------
PUBLIC = ("solve", "find_another_solution", "find_another_solution_for_variable", "export_to_smt2", "_solve_optimize_incremental",
          "initialize", "create_objective", "build_equivalent_weighted_objective", "append_z3_assertion", "check_sat", "build_solution")


def _incremented(node):
    """name of the counter when the CFG node is `k += 1` / `k = k + 1` / `k = 1 + k`, else None"""
    if node.kind != "stmt":
        return None
    st = node.ast
    one = lambda x: isinstance(x, ast.Constant) and x.value == 1 and not isinstance(x.value, bool)
    if isinstance(st, ast.AugAssign) and isinstance(st.op, ast.Add) and one(st.value) and isinstance(st.target, ast.Name):
        return st.target.id
    if isinstance(st, ast.Assign) and len(st.targets) == 1 and isinstance(st.targets[0], ast.Name) and isinstance(st.value, ast.BinOp) \
            and isinstance(st.value.op, ast.Add):
        k = st.targets[0].id
        l, r = st.value.left, st.value.right
        if (isinstance(l, ast.Name) and l.id == k and one(r)) or (isinstance(r, ast.Name) and r.id == k and one(l)):
            return k
    return None


def r_push_pop(ctx):
    """every scope pushed by a method is popped on all its exits (counter idiom or same-iteration pop)"""
    c = ctx.project.cls("SchedulingSolver")
    total_push = 0
    for name, fn in c.methods.items():
        g = C.CFG(fn)
        pushes = g.find(lambda n: C.has_call(n, "_solver.push"))
        pops = g.find(lambda n: C.has_call(n, "_solver.pop"))
        where = f"SchedulingSolver.{name}"
        if not pushes:
            continue
        total_push += len(pushes)
        # counter idiom: each push is immediately followed by `k += 1`; every path from a push to the exit passes a pop(k)
        ok_all = True
        for p in pushes:
            nxt = [m for m, lab in p.succ]
            counter = _incremented(nxt[0]) if len(nxt) == 1 else None
            if counter is None:
                # same-iteration idiom: a pop() on every path to the exit / loop head
                path = g.path_avoiding(p, g.exit, lambda n: n in pops)
                if path is not None:
                    ok_all = False
                    ctx.violation("R-PUSH-POP", where, "push() without a matching pop()",
                                  f"the scope pushed at line {p.lineno} is still open when the method returns (path "
                                  f"{' -> '.join(str(n.lineno) for n in path if n.lineno)}): the assertions made inside it - the "
                                  f"'better than the current value' bound - stay in the solver and make later calls fail",
                                  srcline(p))
                continue
            good_pops = [q for q in pops if any(isinstance(a, ast.Name) and a.id == counter for cc in C.calls_in(q)
                                                if C.call_name(cc).endswith("_solver.pop") for a in cc.args)]
            # the only test allowed to skip the pop is `counter > 0`
            def skip_ok(n):
                if n.kind != "test":
                    return False
                t = ast.unparse(n.ast.test).replace(" ", "")
                return t in (f"{counter}>0", f"{counter}>=1", f"{counter}!=0", counter, f"0<{counter}", f"1<={counter}", f"0!={counter}")
            path = g.path_avoiding(p, g.exit, lambda n: n in good_pops,
                                   edge_ok=lambda a, b, lab: not (skip_ok(a) and lab == "F"))
            # other writers of the counter
            writers = [n for n in g.nodes if counter in C.assigned_names(n) and n not in nxt]
            bad_writers = [w for w in writers if not (isinstance(w.ast, ast.Assign) and isinstance(w.ast.value, ast.Constant)
                                                      and w.ast.value.value == 0 and p.id in g.reachable(w) and w.id not in g.reachable(p))]
            stray = [q for q in pops if q not in good_pops]
            if stray:
                ok_all = False
                ctx.violation("R-PUSH-POP", where, "pop() besides the one that closes the counted scopes",
                              f"`{stray[0].src()[:60]}` pops a scope that the final pop({counter}) pops again: more scopes are popped "
                              f"than were pushed (z3 raises, or assertions of the problem itself are dropped)", srcline(stray[0]))
                continue
            if path is None and not bad_writers:
                continue
            ok_all = False
            ctx.violation("R-PUSH-POP", where, "push() without a matching pop()",
                          f"the scopes counted in `{counter}` are not all popped before the method returns"
                          + (f" (path {' -> '.join(str(n.lineno) for n in path if n.lineno)})" if path else f" (counter rewritten at {[w.lineno for w in bad_writers]})"),
                          srcline(p))
        if ok_all:
            ctx.ok("R-PUSH-POP", f"{where}: every pushed scope is popped on every exit", sample={"push sites": [p.lineno for p in pushes]})
    ctx.floor("R-PUSH-POP", "push() sites", total_push, 1)


def r_init_once(ctx):
    c = ctx.project.cls("SchedulingSolver")
    n = 0
    for name, fn in c.methods.items():
        if name == "initialize":
            continue
        g = C.CFG(fn)
        calls = g.find(lambda x: C.has_call(x, "self.initialize"))
        for cnode in calls:
            n += 1
            if name in ("__init__", "model_post_init", "__post_init__"):
                ctx.violation("R-INIT-ONCE", f"SchedulingSolver.{name}", "initialize() called from the constructor",
                              f"`{cnode.src()}` builds the constraint system when the solver object is created: whatever is declared "
                              f"(tasks, constraints, objectives) between the construction of the solver and the first solve() is never "
                              f"asserted, and the schedule returned ignores it", srcline(cnode))
                continue
            # dominated by the T edge of `not self._initialized`
            def guard(nd):
                return nd.kind == "test" and ast.unparse(nd.ast.test).replace(" ", "") in ("notself._initialized", "self._initializedisFalse",
                                                                                         "self._initialized==False")
            tests = g.find(guard)
            ok = False
            for t in tests:
                t_succ = [m for m, lab in t.succ if lab == "T"]
                if t_succ and (cnode in t_succ or any(cnode.id in g.reachable(m, blocked=lambda z: z is t) for m in t_succ)) \
                        and g.path_avoiding(g.entry, cnode, lambda z: z is t) is None:
                    ok = True
            if ok:
                ctx.ok("R-INIT-ONCE", f"SchedulingSolver.{name}: initialize() only when not yet initialized")
            else:
                ctx.violation("R-INIT-ONCE", f"SchedulingSolver.{name}", "initialize() called unconditionally",
                              f"`{cnode.src()}` is not guarded by `if not self._initialized`: every call re-asserts the whole problem "
                              f"into a fresh solver and drops what was learnt / added before", srcline(cnode))
    ctx.floor("R-INIT-ONCE", "initialize() call sites", n, 2)
    g = C.CFG(c.methods["initialize"])
    sets = g.find(lambda x: x.kind == "stmt" and "self._initialized" in C.assigned_names(x) and isinstance(x.ast.value, ast.Constant)
                  and x.ast.value.value is True)
    if sets and g.path_avoiding(g.entry, g.exit, lambda x: x in sets) is None:
        ctx.ok("R-INIT-ONCE", "initialize() sets _initialized on every normal exit")
    else:
        ctx.violation("R-INIT-ONCE", "SchedulingSolver.initialize", "_initialized set on every exit",
                      "initialize() can return without recording that it ran", LOC)


SELF_REGISTERING = ("Task", "Resource", "Constraint", "Indicator", "Objective", "Buffer", "SchedulingProblem")


def r_solver_readonly(ctx):
    """the solver phase must not create self-registering model elements nor write the problem registries"""
    found = {}
    n = 0
    for m in ("initialize", "solve", "create_objective", "build_equivalent_weighted_objective", "find_another_solution",
              "find_another_solution_for_variable", "export_to_smt2", "build_solution", "check_sat"):
        runs = runs_of(ctx, Entry("method", cls="SchedulingSolver", name=m,
                                  opaque=("sort_no_duplicates", "sort_duplicates", "clean_buffer_levels", "calc_parabola_from_three_points",
                                          "print_assertions", "print_statistics", "print_solution") +
                                  (("solve",) if m != "solve" else ("initialize", "build_solution", "_solve_optimize_incremental"))))
        for run in runs:
            n += 1
            for ev in run.events_of("new"):
                ci = ctx.project.classes.get(ev.data["cls"])
                if ci is not None and any(ci.is_subclass_of(b) for b in SELF_REGISTERING):
                    found.setdefault((f"SchedulingSolver.{ev.site.func.split('.')[-1]}", ev.data["cls"]), srcline(ev.site))
            for ev in run.events_of("store"):
                cont = ev.data["container"]
                if isinstance(cont, tuple) and cont[0] == "attr" and cont[1] == S("self.problem") and ev.site.func.startswith("SchedulingSolver"):
                    found.setdefault((f"SchedulingSolver.{ev.site.func.split('.')[-1]}", f"problem.{cont[2]}"), srcline(ev.site))
            for ev in run.events_of("mcall"):
                recv = ev.data["recv"]
                if isinstance(recv, tuple) and recv[0] == "attr" and recv[1] == S("self.problem") and ev.site.func.startswith("SchedulingSolver") \
                        and ev.data["name"] in ("pop", "popitem", "clear", "update", "setdefault", "remove", "append", "extend", "insert",
                                                "discard", "add", "__delitem__", "__setitem__", "sort", "reverse"):
                    found.setdefault((f"SchedulingSolver.{ev.site.func.split('.')[-1]}", f"problem.{recv[2]}.{ev.data['name']}()"),
                                     srcline(ev.site))
    for (where, what), location in sorted(found.items()):
        if what.endswith("()"):
            ctx.violation("R-SOLVER-READONLY", where, f"modifies {what[:-2]}",
                          f"the solver phase calls `{what}` on a registry of the problem: what the next initialize() / solver / export "
                          f"reads is no longer what the user declared (and an element read before the modification may be used after it)",
                          location)
            continue
        ctx.violation("R-SOLVER-READONLY", where, f"creates / writes {what}",
                      f"the solver phase constructs a self-registering `{what}` (it is added to the global active problem): a second "
                      f"solver on the same problem fails with 'already exists', and the problem is no longer what the user declared",
                      location)
    ctx.floor("R-SOLVER-READONLY", "solver-method paths", n, 100)
    if not found:
        ctx.ok("R-SOLVER-READONLY", f"no solver method creates model elements or writes a registry ({n} paths)")


def r_model_typestate(ctx):
    """_model is written only from a model() read that follows a sat verdict (solve) or from the incremental loop's result"""
    c = ctx.project.cls("SchedulingSolver")
    n = 0
    for name, fn in c.methods.items():
        g = C.CFG(fn)
        for w in g.find(lambda x: x.kind == "stmt" and "self._model" in C.assigned_names(x)):
            n += 1
            v = w.ast.value
            if isinstance(v, ast.Constant) and v.value is None:
                ctx.ok("R-MODEL-TYPESTATE", f"SchedulingSolver.{name}: _model reset to None", nontrivial=False)
                continue
            if name != "solve" or not isinstance(v, ast.Name):
                ctx.violation("R-MODEL-TYPESTATE", f"SchedulingSolver.{name}", "_model written outside solve()",
                              f"`{w.src()}`", srcline(w))
                continue
            src_name = v.id
            defs = [d for d in g.nodes if src_name in C.assigned_names(d)]
            ok = bool(defs)
            for d in defs:
                if C.has_call(d, "_solver.model"):
                    # on every path from the check to this read the verdict was tested to be neither unsat nor unknown
                    chk = g.find(lambda x: C.has_call(x, "check_sat") or C.has_call(x, "_solver.check"))
                    if chk:
                        res_names = C.assigned_names(chk[0])
                        res_v = res_names[0] if res_names else None

                        def transfer(n_, facts_):
                            return frozenset({"checked"}) if n_ is chk[0] else facts_

                        assigned = {}
                        for a_ in ast.walk(fn):
                            if isinstance(a_, ast.Assign) and len(a_.targets) == 1 and isinstance(a_.targets[0], ast.Name):
                                assigned.setdefault(a_.targets[0].id, []).append(a_.value)
                        # a flag stands for its test only if it was computed after the verdict it tests was obtained
                        chk_line = getattr(chk[0].ast, "lineno", 0)
                        once = {k_: v_[0] for k_, v_ in assigned.items() if len(v_) == 1 and getattr(v_[0], "lineno", 0) > chk_line}

                        def edge(n_, lab_, facts_):
                            return frozenset(set(facts_) | verdict_edge_facts(n_, lab_, res_v, once))
                        fm = C.forward_must(g, frozenset(), transfer, edge)[d.id]
                        ok = ok and {"checked", "not_unsat", "not_unknown"} <= fm
                    else:
                        ok = False
                elif C.has_call(d, "_solve_optimize_incremental"):
                    nxt = g.find(lambda x: x.kind == "test" and ast.unparse(x.ast.test).replace(" ", "") == f"not{src_name}")
                    ok = ok and bool(nxt) and g.path_avoiding(d, w, lambda z: z in nxt) is None
                else:
                    ok = False
            if ok:
                ctx.ok("R-MODEL-TYPESTATE", f"SchedulingSolver.{name}: _model = a model obtained after a sat verdict")
            else:
                ctx.violation("R-MODEL-TYPESTATE", f"SchedulingSolver.{name}", "_model not backed by a sat verdict",
                              f"`{w.src()}`: `{src_name}` can come from a path without a sat check", srcline(w))
    ctx.floor("R-MODEL-TYPESTATE", "_model writers", n, 2)


# methods whose solver assertions ARE the problem (or the user's request) and therefore stay for good
PERMANENT_ASSERTERS = ("initialize", "append_z3_assertion", "create_objective", "build_equivalent_weighted_objective",
                       "find_another_solution", "find_another_solution_for_variable")
ASSERT_CALLS = ("self.append_z3_assertion", "_solver.add", "_solver.assert_and_track", "_solver.assert_exprs",
                "_solver.from_string", "_solver.add_soft")


def r_scoped_assert(ctx):
    """answering methods (solve, the incremental optimiser, check_sat, build_solution, exports ...) may only assert inside a
    pushed scope: every path from the method entry, and from any pop(), to an assertion site passes a push().  Together with
    R-PUSH-POP (every scope is popped on every exit) nothing a solve asserts outlives the call: what later calls can
    still find is never narrowed by an earlier answer."""
    c = ctx.project.cls("SchedulingSolver")
    n = 0
    for name, fn in c.methods.items():
        if name in PERMANENT_ASSERTERS or name == "__init__":
            continue
        g = C.CFG(fn)
        sites = g.find(lambda x: any(C.has_call(x, a) for a in ASSERT_CALLS))
        pushes = g.find(lambda x: C.has_call(x, "_solver.push"))
        pops = g.find(lambda x: C.has_call(x, "_solver.pop"))
        where = f"SchedulingSolver.{name}"
        for s in sites:
            n += 1
            bad = g.path_avoiding(g.entry, s, lambda z: z in pushes)
            origin = "the method entry"
            if bad is None:
                for q in pops:
                    bad = g.path_avoiding(q, s, lambda z: z in pushes) if q is not s else None
                    if bad is not None:
                        origin = f"the pop() at line {q.lineno}"
                        break
            if bad is None:
                ctx.ok("R-SCOPED-ASSERT", f"{where}: `{s.src()[:60]}` only inside a pushed scope")
            else:
                ctx.violation("R-SCOPED-ASSERT", where, "assertion outside any pushed scope",
                              f"`{s.src()[:90]}` is reachable from {origin} without a push() "
                              f"(path {' -> '.join(str(x.lineno) for x in bad if x.lineno)}): the assertion stays in the solver after "
                              f"the call and removes valid schedules from every later solve / find_another_solution",
                              srcline(s))
    ctx.floor("R-SCOPED-ASSERT", "assertion sites in answering methods", n, 1)


def r_check_fresh(ctx):
    """every verdict comes from the solver: on every path of check_sat that returns, self._solver.check() was called in this
    very call and the verdict returned is its result (no verdict cached from an earlier state of the assertion stack - the
    stack shrinks when scopes are popped, so 'same size' or 'already proven' says nothing about the current one)"""
    c = ctx.project.cls("SchedulingSolver")
    fn = c.methods.get("check_sat")
    if fn is None:
        raise P.AnalysisError("R-CHECK-FRESH: anchor vanished: SchedulingSolver.check_sat")
    where = "SchedulingSolver.check_sat"
    g = C.CFG(fn)
    checks = g.find(lambda n: C.has_call(n, "_solver.check"))
    rets = g.find(lambda n: n.kind == "stmt" and isinstance(n.ast, ast.Return))
    if not checks or not rets:
        raise P.AnalysisError(f"R-CHECK-FRESH: check sites {len(checks)}, return sites {len(rets)}")
    verdict_names = set()
    for ch in checks:
        verdict_names |= set(C.assigned_names(ch))
    bad = False
    for r in rets:
        p_ = g.path_avoiding(g.entry, r, lambda z: z in checks)
        if p_ is not None:
            bad = True
            ctx.violation("R-CHECK-FRESH", where, "verdict returned without asking the solver",
                          f"`{r.src()[:80]}` is reachable without a call of self._solver.check() (path "
                          f"{' -> '.join(str(x.lineno) for x in p_ if x.lineno)}): the verdict comes from somewhere else than the "
                          f"current assertion stack", srcline(r))
            continue
        rv = r.ast.value
        first = rv.elts[0] if isinstance(rv, ast.Tuple) and rv.elts else rv
        if not (isinstance(first, ast.Name) and first.id in verdict_names):
            bad = True
            ctx.violation("R-CHECK-FRESH", where, "returned verdict is the result of check()",
                          f"`{r.src()[:80]}` does not return the variable assigned from self._solver.check() ({sorted(verdict_names)})",
                          srcline(r))
    # the verdict variable has no other writer
    for nm in verdict_names:
        others = [n for n in g.nodes if nm in C.assigned_names(n) and n not in checks]
        for o in others:
            bad = True
            ctx.violation("R-CHECK-FRESH", where, "verdict overwritten", f"`{o.src()[:80]}` assigns the verdict from something else than "
                          f"self._solver.check()", srcline(o))
    if not bad:
        ctx.ok("R-CHECK-FRESH", f"{where}: every returned verdict is the result of a check() made in the same call",
               sample={"check sites": [x.lineno for x in checks], "returns": [x.lineno for x in rets]})
    # the incremental loop and solve() read verdicts through check_sat / check only
    n = 0
    for name in ("solve", "_solve_optimize_incremental"):
        fn2 = c.methods.get(name)
        if fn2 is None:
            continue
        g2 = C.CFG(fn2)
        for t_ in g2.find(lambda x: x.kind == "test" and ("z3.unsat" in x.src() or "z3.unknown" in x.src() or "z3.sat" in x.src())):
            n += 1
    ctx.floor("R-CHECK-FRESH", "verdict tests in solve / incremental loop", n, 2)


def r_fresh_handle(ctx):
    """initialise may be called again (explicitly, or through solve on a new solver): every path of initialize() installs a
    freshly built solver handle before it asserts the problem, so nothing (assertions, registered objectives, pareto state)
    is carried over from an earlier initialisation - R-OPT-WIRING decides the handle per configuration (shared with C07/C15)"""
    r_opt_wiring(ctx)


C13_RULES = [r_push_pop, r_scoped_assert, r_init_once, r_solver_readonly, r_model_typestate, r_block_clause, r_fresh_handle, r_check_fresh,
             # 'initialise, export, solve ... in any order': the export only reads the handle (R-SMT-SAME-HANDLE, shared with C16)
             lambda ctx: __import__("rules.exports", fromlist=["x"]).r_smt_same_handle(ctx)]


# ---------------------------------------------------------------------------
# C15 / C19
# ---------------------------------------------------------------------------
PERF_OPTIONS = ("parallel", "random_values", "verbosity", "max_time", "max_iter", "save_intermediate_states",
                "save_intermediate_states_path")


def _stream_key(run):
    groups = stream_groups(run)
    return {(show_sig(s), tuple(sorted(show(b) for b in bodies))) for s, bodies in groups.items()}


def r_option_noninterference(ctx):
    runs = task_rules.init_runs(ctx, "R-OPTION-NONINTERFERENCE")
    # 1. control dependence: no test in the assertion-building methods mentions a performance option
    c = ctx.project.cls("SchedulingSolver")
    n = 0
    for name in ("initialize", "append_z3_assertion", "create_objective", "build_equivalent_weighted_objective"):
        fn = c.methods.get(name)
        if fn is None:
            raise P.AnalysisError(f"anchor vanished: SchedulingSolver.{name}")
        for node in ast.walk(fn):
            if isinstance(node, (ast.If, ast.IfExp, ast.While)):
                n += 1
                used = {a.attr for a in ast.walk(node.test) if isinstance(a, ast.Attribute) and isinstance(a.value, ast.Name)
                        and a.value.id == "self"}
                bad = used & set(PERF_OPTIONS)
                if bad:
                    ctx.violation("R-OPTION-NONINTERFERENCE", f"SchedulingSolver.{name}", f"assertion building depends on {sorted(bad)}",
                                  f"`{ast.unparse(node.test)[:100]}` makes what is asserted depend on a performance option", f"{LOC}:{node.lineno}")
    ctx.floor("R-OPTION-NONINTERFERENCE", "tests scanned", n, 20)
    # 2. the assertion stream is the same for every value of debug / logics (and optimizer, up to the objective wiring)
    import re
    nid = lambda k: re.sub(r"e#\d+", "e#", k)
    classes = {}
    for run in runs:
        key = tuple((nid(k), v) for k, v in run.decisions if not any(o in k for o in ("self.debug", "self.logics")))
        classes.setdefault(key, []).append(run)
    pairs = 0
    for key, rs in classes.items():
        base = _stream_key(rs[0])
        for r in rs[1:]:
            pairs += 1
            other = _stream_key(r)
            if other == base:
                ctx.ok("R-DEBUG-SAME-STREAM", f"same assertion stream for [{describe_config(rs[0])[:60]}] and [{describe_config(r)[:60]}]",
                       nontrivial=True)
            else:
                diff = sorted(base ^ other)[:2]
                ctx.violation("R-DEBUG-SAME-STREAM", "SchedulingSolver.append_z3_assertion", "assertion stream depends on debug / logics",
                              f"[{describe_config(rs[0])[:80]}] vs [{describe_config(r)[:80]}] differ on {[d[0][:100] + ' : ' + (d[1][0][:120] if d[1] else '') for d in diff]}",
                              LOC)
    ctx.floor("R-DEBUG-SAME-STREAM", "configuration pairs", pairs, 30)
    if not any(dict(a.decisions).get("bool(self.debug)") != dict(b.decisions).get("bool(self.debug)") for rs in classes.values()
               for a in rs for b in rs):
        raise P.AnalysisError("R-DEBUG-SAME-STREAM: no pair of configurations differing in debug was compared")
    # 3. optimiser choice: streams differ at most by the definitional atoms of the equivalent objective
    by_obj = {}
    for run in runs:
        key = tuple((nid(k), v) for k, v in run.decisions if not any(o in k for o in ("self.debug", "self.logics", "self.optimizer", "self.optimize_priority")))
        by_obj.setdefault(key, []).append(run)
    for key, rs in by_obj.items():
        base = _stream_key(rs[0])
        for r in rs[1:]:
            d = base ^ _stream_key(r)
            extra = [x for x in d if not ("Equivalent" in "".join(x[1]))]
            if not extra:
                ctx.ok("R-OPTION-NONINTERFERENCE", f"optimizer / priority only add the equivalent-objective definition [{describe_config(r)[:60]}]",
                       nontrivial=True)
            else:
                ctx.violation("R-OPTION-NONINTERFERENCE", "SchedulingSolver.initialize", "assertions depend on the optimiser choice",
                              f"[{describe_config(rs[0])[:70]}] vs [{describe_config(r)[:70]}]: {[x[0][:80] for x in extra][:3]}", LOC)


OPTION_TABLE = {
    # key: (value when the flag is true, value otherwise)
}


def r_option_table(ctx):
    """z3 global options: every key set on any path of __init__ is set on all paths (no leak from an earlier solver), with the
    documented value"""
    runs = runs_of(ctx, Entry("init", cls="SchedulingSolver"))
    fails_closed(ctx, "R-OPTION-RESET", runs)
    where = "SchedulingSolver.__init__"
    keysets = []
    for run in runs:
        keys = {}
        for ev in run.events_of("z3opt"):
            if ev.guards:
                raise P.AnalysisError(f"R-OPTION-RESET: conditional set_option not understood: {[show(g) for g in ev.guards]}")
            if ev.data["args"]:
                keys[ev.data["args"][0][1] if is_const(ev.data["args"][0]) else show(ev.data["args"][0])] = ev.data["args"][1]
            for k, v in ev.data["kwargs"]:
                keys[k] = v
        keysets.append((run, keys))
    allkeys = set().union(*[set(k) for _, k in keysets])
    always = {"timeout"}            # set under `max_time != "inf"`, which is constant for a PositiveFloat
    for run, keys in keysets:
        missing = allkeys - set(keys) - always
        if missing:
            ctx.violation("R-OPTION-RESET", where, f"option(s) {sorted(missing)} not set on every path",
                          f"on [{describe_config(run)}] {sorted(missing)} keep the value left by a previously created solver", LOC)
        else:
            ctx.ok("R-OPTION-RESET", f"[{describe_config(run)[:70]}] all {len(keys)} option keys are set", nontrivial=False)
        dec = dict(run.decisions)
        dbg, par, rnd = dec.get("bool(self.debug)"), dec.get("bool(self.parallel)"), dec.get("bool(self.random_values)")
        exp = {}
        if dbg is True:
            exp.update({"verbose": K(2), "unsat_core": TRUE})
        elif dbg is False:
            exp.update({"verbose": T("verbosity"), "unsat_core": FALSE})
        exp["parallel.enable"] = T("parallel") if par is None else (TRUE if par else FALSE)
        if par is False:
            exp.update({"sat.threads": K(1), "smt.threads": K(1)})
        if rnd is False:
            exp.update({"sat.random_seed": K(0), "smt.random_seed": K(0), "smt.arith.random_initial_value": FALSE})
        elif rnd is True:
            exp.update({"smt.arith.random_initial_value": TRUE})
        # a boolean field whose truth this configuration decided IS that constant (`unsat_core=self.debug` for debug=True)
        known = {T("debug"): dbg, T("parallel"): par, T("random_values"): rnd}
        subst = {t_: (TRUE if v_ else FALSE) for t_, v_ in known.items() if v_ is not None}
        keys = {k: (substitute(v, subst) if isinstance(v, tuple) else v) for k, v in keys.items()}
        exp = {k: (substitute(v, subst) if isinstance(v, tuple) else v) for k, v in exp.items()}
        bad = {k: (show(keys.get(k)) if isinstance(keys.get(k), tuple) else keys.get(k), show(v)) for k, v in exp.items()
               if keys.get(k) != v}
        if bad:
            ctx.violation("R-OPTION-TABLE", where, f"option value(s) {sorted(bad)}",
                          f"on [{describe_config(run)}] (found, expected): {bad}", LOC)
        else:
            ctx.ok("R-OPTION-TABLE", f"[{describe_config(run)[:70]}] option values as documented", nontrivial=True,
                   sample={"options": {k: show(v) for k, v in list(keys.items())[:6]}})
    ctx.floor("R-OPTION-RESET", "constructor configurations", len(keysets), 8)


# the two optimisers can only agree on the optimum if the incremental loop's direction table and typestate hold
C15_RULES = [r_option_noninterference, r_option_table, r_opt_wiring, r_direction, r_improve_loop, r_weighted, r_objective_handed,
             r_bound_provenance, r_bound_asserted]


def _core_reader(ctx):
    """reader side of the diagnosis, on the extracted IR of solve() (helpers inlined): every constraint that is printed as
    conflicting is problem.constraints[map[label]] for a label of the unsat core (R-CORE-MAP), and every label of the core
    that is found in the map is printed - the only tests on the core element are `label in map` and a 'not already listed'
    test (R-CORE-COMPLETE).  Dropping a core member makes the listed set satisfiable together with the basic rules."""
    where = "SchedulingSolver.solve"
    opq = ("initialize", "check_sat", "build_solution", "_solve_optimize_incremental", "print_assertions", "print_statistics",
           "print_solution", "sort_no_duplicates", "sort_duplicates")
    runs = runs_of(ctx, Entry("method", cls="SchedulingSolver", name="solve", opaque=opq))
    fails_closed(ctx, "R-CORE-MAP", runs)
    mp = A(SELF, "_map_boolrefs_to_constraints")
    core_call = ("mcall", A(SELF, "_solver"), "unsat_core", (), ())
    n_listing = 0
    for run in runs:
        dbg = dict(run.decisions).get("bool(self.debug)")
        prints = [ev for ev in run.events if (ev.kind == "print" or (ev.kind == "call" and str(ev.data.get("name", "")).endswith("print")))
                  and ev.data["args"] and isinstance(ev.data["args"][0], tuple)]
        pc = norm(S("self.problem.constraints"))
        listed = [ev for ev in prints if ev.data["args"][0][0] == "idx" and norm(ev.data["args"][0][1]) == pc]
        if dbg is not True:
            if listed:
                ctx.violation("R-DEBUG-SAME-STREAM", where, "conflict listing outside debug mode",
                              f"on [{describe_config(run)}] constraints are listed although debug is off", LOC)
            continue
        core_loops = [ev for ev in run.events_of("mcall") if ev.data.get("name") == "unsat_core"]
        if not listed:
            if core_loops:
                n_listing += 1
                ctx.violation("R-CORE-COMPLETE", where, "conflicting constraints are reported",
                              f"on [{describe_config(run)}] the unsat core is read but no constraint of the problem is printed", LOC)
            continue
        for ev in listed:
            n_listing += 1
            arg = ev.data["args"][0]
            cfgs = describe_config(run)
            if len(ev.loops) != 1 or norm(ev.loops[0][3]) != norm(core_call):
                ctx.violation("R-CORE-MAP", where, "listed constraints come from the unsat core",
                              f"on [{cfgs}] `{show(norm(arg))[:120]}` is printed under loops {[show(norm(l[3]))[:80] for l in ev.loops]}, "
                              f"not once per element of self._solver.unsat_core()", srcline(ev.site))
                continue
            e_ = ("elem", ev.loops[0])
            labels = (("fstr", (e_,)), e_)
            ok_arg = any(norm(arg) == norm(("idx", S("self.problem.constraints"), ("idx", mp, lb))) for lb in labels)
            if ok_arg:
                ctx.ok("R-CORE-MAP", f"{where} [{cfgs}]: each listed conflict is problem.constraints[map[label]] for a label of the unsat core",
                       sample={"printed": show(norm(arg))[:160]})
            else:
                ctx.violation("R-CORE-MAP", where, "conflicting constraints looked up through the label map",
                              f"on [{cfgs}] prints {show(norm(arg))[:200]}; documented: problem.constraints[label map[label of the core]]",
                              srcline(ev.site))
            about_elem = [g for g in ev.guards if any(x == e_ for x in subterms(g))]
            allowed = {repr(norm(app("in", lb, mp))) for lb in labels}
            extra = [g for g in about_elem if repr(norm(g)) not in allowed
                     and not (is_app(norm(g), "not") and is_app(norm(g)[2], "in") and "constraints[" in show(norm(g)[2][2]))]
            has_guard = any(repr(norm(g)) in allowed for g in about_elem)
            if not has_guard:
                ctx.violation("R-CORE-MAP", where, "lookup of a label that may be absent from the map",
                              f"on [{cfgs}] the label of a core element is looked up without the test `label in map`: KeyError for "
                              f"assertions that belong to no constraint", srcline(ev.site))
            elif extra:
                ctx.violation("R-CORE-COMPLETE", where, "core member dropped from the reported conflict",
                              f"on [{cfgs}] a constraint of the core is listed only under {[show(norm(g))[:100] for g in extra]} (only "
                              f"`label in map` and a 'not already listed' test may filter): the constraints that are listed can then be "
                              f"satisfiable together", srcline(ev.site))
            else:
                ctx.ok("R-CORE-COMPLETE", f"{where} [{cfgs}]: every mapped core label is listed")
    ctx.floor("R-CORE-COMPLETE", "conflict listing sites x debug configurations", n_listing, 1)


def r_core_map(ctx):
    where = "SchedulingSolver.append_z3_assertion"
    runs = runs_of(ctx, Entry("method", cls="SchedulingSolver", name="append_z3_assertion"))
    fails_closed(ctx, "R-CORE-MAP", runs)
    seen_debug = False
    for run in runs:
        dec = dict(run.decisions)
        dbg = dec.get("bool(self.debug)")
        tracks = solver_calls(run, ("assert_and_track",))
        adds = solver_calls(run, ("add",))
        stores = [ev for ev in run.events_of("store") if ev.data["container"] == A(SELF, "_map_boolrefs_to_constraints")]
        if dbg is True:
            seen_debug = True
            if adds:
                ctx.violation("R-CORE-COMPLETE", where, "untracked assertion in debug mode",
                              "in debug mode an assertion is handed to add(): it cannot appear in the unsat core", srcline(adds[0].site))
            elif not tracks:
                ctx.violation("R-CORE-COMPLETE", where, "nothing tracked in debug mode", "", LOC)
            else:
                ctx.ok("R-CORE-COMPLETE", f"[{describe_config(run)[:70]}] every assertion is tracked")
            for tr in tracks:
                label = tr.data["args"][1] if len(tr.data["args"]) > 1 else None
                named = [s for s in stores if s.data["key"] == label and s.loops == tr.loops]
                has_name = dec.get("higher_constraint_name is None")
                if has_name is False:
                    ok = len(named) == 1 and named[0].data["value"] == S("higher_constraint_name")
                    if ok:
                        ctx.ok("R-CORE-MAP", f"[{describe_config(run)[:70]}] label of the tracked assertion -> owning constraint name")
                    else:
                        ctx.violation("R-CORE-MAP", where, "label -> constraint name",
                                      f"the tracking label is not mapped to the name that was passed "
                                      f"({[(show(s.data['key'])[:40], show(s.data['value'])[:40]) for s in stores]})", srcline(tr.site))
                elif has_name is True and named:
                    ctx.violation("R-CORE-MAP", where, "label mapped without a name", "", srcline(tr.site))
                if label is None or "uuid" not in show(label):
                    ctx.violation("R-CORE-MAP", where, "fresh label per tracked assertion", f"label {show(label) if label else None}", srcline(tr.site))
        elif dbg is False:
            if tracks:
                ctx.violation("R-DEBUG-SAME-STREAM", where, "tracking outside debug mode", "", LOC)
    if not seen_debug:
        raise P.AnalysisError("R-CORE-MAP: no debug configuration of append_z3_assertion")
    # only the constraint drain passes a name, and it is the constraint's own name
    named_calls = 0
    for run in task_rules.init_runs(ctx, "R-CORE-MAP"):
        pass
    fn = solver_fn(ctx, "initialize")
    for node in ast.walk(fn):
        if isinstance(node, ast.Call) and ast.unparse(node.func) == "self.append_z3_assertion" and (len(node.args) > 1 or node.keywords):
            named_calls += 1
            arg = ast.unparse(node.args[1]) if len(node.args) > 1 else ast.unparse(node.keywords[0].value)
            par = node
            loopvar = None
            while par is not None and not isinstance(par, ast.For):
                par = getattr(par, "_parent", None)
            if par is not None and isinstance(par.target, ast.Name):
                loopvar = par.target.id
            ok = loopvar is not None and arg == f"{loopvar}.name" and "constraints" in ast.unparse(par.iter)
            first = ast.unparse(node.args[0])
            if isinstance(node.args[0], ast.Name) and par is not None:
                # a local the assertions were read into just before: assigned once in this function
                binds = [a_ for a_ in ast.walk(fn) if isinstance(a_, ast.Assign) and any(isinstance(t_, ast.Name) and t_.id == first for t_ in a_.targets)]
                others = [n_ for n_ in ast.walk(fn) if isinstance(n_, (ast.AugAssign, ast.For, ast.NamedExpr, ast.comprehension))
                          and any(isinstance(x_, ast.Name) and x_.id == first and isinstance(x_.ctx, ast.Store) for x_ in ast.walk(getattr(n_, "target", n_)))]
                if len(binds) == 1 and not others and any(b_ is binds[0] for b_ in ast.walk(par)):
                    first = ast.unparse(binds[0].value)
            ok = ok and first == f"{loopvar}.get_z3_assertions()"
            if ok:
                ctx.ok("R-CORE-MAP", "initialize: the constraint drain labels each constraint's assertions with that constraint's name")
            else:
                ctx.violation("R-CORE-MAP", "SchedulingSolver.initialize", "owner name passed with the assertions",
                              f"`{ast.unparse(node)[:120]}` passes `{arg}` for assertions `{first}`", f"{LOC}:{node.lineno}")
    ctx.floor("R-CORE-MAP", "named drain calls", named_calls, 1)
    _core_reader(ctx)


def r_conflict_attributed(ctx):
    """a constraint can only be named as conflicting for what it asserts into its own list (that list is what initialize()
    hands to the solver under the constraint's name): R-OWN-ASSERTIONS (shared with C10)"""
    from rules import logic
    logic.r_own_assertions(ctx)


C19_RULES = [r_core_map, r_option_noninterference, r_option_table, r_conflict_attributed,
             # a constraint that owns no assertion can never be named in a conflict (R-EFFECT-ONLY, shared with C10)
             lambda ctx: __import__("rules.logic", fromlist=["x"]).r_effect_only_constraints(ctx)]


_LIST_MUTATORS = ("pop", "append", "extend", "insert", "remove", "clear", "sort", "reverse", "popitem", "update", "setdefault", "discard", "add")


def r_arg_readonly(ctx):
    """'a second solver on the same problem sees the same constraints': the solver is handed the model's own lists
    (`x.get_z3_assertions()` returns the list itself, R-BASE-STORE) - no method of SchedulingSolver may modify in place a list
    it received as a parameter or read through get_z3_assertions(): pop / append / extend / insert / remove / clear / sort /
    reverse on it, item or slice assignment, del, `+=`.  A name stops being foreign once it is rebound, on every path to the
    modification, to an object made here (a list display, a comprehension, list(..), sorted(..), x.copy(), x[:], a concatenation)."""
    cls = ctx.project.classes["SchedulingSolver"]
    n = 0

    def made_here(e, fresh):
        if isinstance(e, (ast.List, ast.ListComp, ast.Tuple, ast.Dict, ast.DictComp, ast.Set, ast.SetComp, ast.Constant, ast.BinOp)):
            return True
        if isinstance(e, ast.Call):
            if isinstance(e.func, ast.Name) and e.func.id in ("list", "sorted", "tuple", "dict", "set", "reversed"):
                return True
            if isinstance(e.func, ast.Attribute) and e.func.attr in ("copy",) and not e.args:
                return True
        if isinstance(e, ast.Subscript) and isinstance(e.slice, ast.Slice):
            return True
        if isinstance(e, ast.Name):
            return e.id in fresh
        if isinstance(e, ast.IfExp):
            return made_here(e.body, fresh) and made_here(e.orelse, fresh)
        return False

    def foreign_source(e):
        return any(isinstance(c, ast.Call) and isinstance(c.func, ast.Attribute) and c.func.attr == "get_z3_assertions" for c in ast.walk(e))

    for name, fn in sorted(cls.methods.items()) if hasattr(cls, "methods") else []:
        if not isinstance(fn, ast.FunctionDef):
            continue
        foreign0 = {a.arg for a in fn.args.args[1:] + fn.args.kwonlyargs}
        reports = []

        def own_exprs(st):
            """the expressions evaluated by the statement itself (not by the statements nested in it)"""
            if isinstance(st, (ast.If, ast.While)):
                return [st.test]
            if isinstance(st, ast.For):
                return [st.iter]
            if isinstance(st, ast.With):
                return [i.context_expr for i in st.items]
            if isinstance(st, (ast.Try, ast.FunctionDef, ast.ClassDef)):
                return []
            return [st]

        def sites(node, foreign):
            for x in ast.walk(node):
                if isinstance(x, ast.Call) and isinstance(x.func, ast.Attribute) and x.func.attr in _LIST_MUTATORS \
                        and isinstance(x.func.value, ast.Name) and x.func.value.id in foreign:
                    reports.append((x.func.value.id, f".{x.func.attr}()", x.lineno))
                if isinstance(x, (ast.Assign, ast.AugAssign, ast.Delete)):
                    tgs = x.targets if isinstance(x, (ast.Assign, ast.Delete)) else [x.target]
                    for t in tgs:
                        if isinstance(t, ast.Subscript) and isinstance(t.value, ast.Name) and t.value.id in foreign:
                            reports.append((t.value.id, "item / slice assignment" if not isinstance(x, ast.Delete) else "del", x.lineno))
                        if isinstance(x, ast.AugAssign) and isinstance(t, ast.Name) and t.id in foreign and isinstance(x.op, ast.Add):
                            reports.append((t.id, "+= (in place for a list)", x.lineno))

        def block(stmts, foreign, fresh):
            for st in stmts:
                for e in own_exprs(st):
                    sites(e, foreign)
                if isinstance(st, ast.Assign) and len(st.targets) == 1 and isinstance(st.targets[0], ast.Name):
                    nm = st.targets[0].id
                    if made_here(st.value, fresh):
                        foreign, fresh = foreign - {nm}, fresh | {nm}
                    elif foreign_source(st.value) or (isinstance(st.value, ast.Name) and st.value.id in foreign):
                        foreign, fresh = foreign | {nm}, fresh - {nm}
                    else:
                        fresh = fresh - {nm}
                subs = [getattr(st, f_) for f_ in ("body", "orelse", "finalbody") if isinstance(getattr(st, f_, None), list)]
                subs += [h.body for h in getattr(st, "handlers", [])]
                if isinstance(st, ast.For) and isinstance(st.target, ast.Name) and foreign_source(st.iter):
                    pass
                if subs and not isinstance(st, (ast.FunctionDef, ast.ClassDef)):
                    outs = [block(b, set(foreign), set(fresh)) for b in subs]
                    if isinstance(st, (ast.For, ast.While)):
                        outs += [block(st.body, set.union(foreign, *[o[0] for o in outs]), set.intersection(fresh, *[o[1] for o in outs]))]
                    if not (isinstance(st, ast.If) and st.orelse):
                        outs.append((foreign, fresh))               # the block may not run at all
                    foreign = set.union(*[o[0] for o in outs])
                    fresh = set.intersection(*[o[1] for o in outs])
            return foreign, fresh

        block(fn.body, set(foreign0), set())
        n += 1
        seen = set()
        for nm, how, line in reports:
            if (nm, how) in seen:
                continue
            seen.add((nm, how))
            ctx.violation("R-ARG-READONLY", f"SchedulingSolver.{name}", f"{nm} modified in place",
                          f"`{nm}` can be a list of the model itself (a parameter / the result of get_z3_assertions()) and is modified in place "
                          f"({how}): the element loses or gains assertions for every later solver, export or report on the same problem",
                          f"processscheduler/solver.py:{line}")
        if not reports:
            ctx.ok("R-ARG-READONLY", f"SchedulingSolver.{name}: no list received from outside is modified in place")
    ctx.floor("R-ARG-READONLY", "solver methods scanned", n, 10)


C13_RULES.append(r_arg_readonly)
