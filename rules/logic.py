"""C10 - logical combinations and optional constraints.

R-FOL-TABLE    class <-> connective <-> operand positions (truth tables over operand placeholders)
R-FOL-TAG      an operand that is a Constraint is tagged created-from-assertion before its assertions are read
R-SINGLE-ROUTE every Constraint subclass emits only through set_z3_assertions
R-APPLIED      optional => Implies(applied flag, same term); mandatory => the bare term
R-EXPR         ConstraintFromExpression forwards its expression unchanged
R-PB-TABLE     ForceApplyNOptionalConstraints counts the applied flags of the whole list
R-DRAIN        the solver skips tagged constraints and only those (shared with C01)
Oracle: docs/first_order_logic_constraints.md, docs/task_constraints.md (optional constraints).
"""
from __future__ import annotations

from sa import project as P
from sa.interp import Entry
from sa.lib import *
from sa.terms import subterms
from rules import tasks as task_rules
from rules.task_constraints import mandatory_runs, kind_of

OPAQUE = ("sort_no_duplicates", "sort_duplicates", "get_minimum", "get_maximum")
SELF = S("self")
T = lambda n: S(f"self.{n}")

# operand fields of each connective: name -> 'single' | 'list'
CONNECTIVES = {
    "Not": {"constraint": "single"},
    "Or": {"list_of_constraints": "list"},
    "And": {"list_of_constraints": "list"},
    "Xor": {"constraint_1": "single", "constraint_2": "single"},
    "Implies": {"list_of_constraints": "list"},
    "IfThenElse": {"then_list_of_constraints": "list", "else_list_of_constraints": "list"},
}


def operand_kinds(run, fields):
    """per operand field: 'bool' (a z3.BoolRef) or 'constraint' on this configuration path"""
    out = {}
    for name, shape in fields.items():
        kind = None
        for key, val in run.decisions:
            if not key.startswith("isinstance("):
                continue
            subject = key[len("isinstance("):].split(",")[0]
            if shape == "single" and subject == f"self.{name}":
                kind = "bool" if val else "constraint"
        if shape == "list":
            # the element loop of this field
            for leaf, d in run.doms.items():
                pass
            for key, val in run.decisions:
                if key.startswith("isinstance(e#") and "z3.BoolRef" in key:
                    # which loop? resolved below through the tag events
                    pass
        out[name] = kind
    return out


def meaning(name, shape, kind, pos=0):
    """the operand's own meaning as a term: a BoolRef operand is itself; a Constraint operand is the conjunction
    of its assertion list"""
    if shape == "single":
        return T(name) if kind == "bool" else And(("each", (loop(f"b{pos}.0", A(T(name), "_z3_assertions")),), (),
                                                   elem(loop(f"b{pos}.0", A(T(name), "_z3_assertions")))))
    L = loop("b0.0", T(name))
    if kind == "bool":
        return ("each", (L,), (), elem(L))
    L2 = loop("b1.0", A(elem(L), "_z3_assertions"))
    return ("each", (L,), (), And(("each", (L2,), (), elem(L2))))


def flat_list_meaning(name, kind):
    """conjunction / flattening over a list operand (valid under And)"""
    L = loop("b0.0", T(name))
    if kind == "bool":
        return ("each", (L,), (), elem(L))
    L2 = loop("b0.1", A(elem(L), "_z3_assertions"))
    return ("each", (L, L2), (), elem(L2))


def elem_kinds(run, cname):
    """kind of the elements of each list operand on this path, from the per-element isinstance decisions (in the
    order the lists are traversed)"""
    fields = [n for n, sh in CONNECTIVES[cname].items() if sh == "list"]
    decs = [v for k, v in run.decisions if k.startswith("isinstance(e#") and "z3.BoolRef" in k]
    kinds = {}
    for i, f in enumerate(fields):
        if i < len(decs):
            kinds[f] = "bool" if decs[i] else "constraint"
    return kinds


def single_kinds(run, cname):
    kinds = {}
    for n, sh in CONNECTIVES[cname].items():
        if sh != "single":
            continue
        for k, v in run.decisions:
            if k.startswith(f"isinstance(self.{n},"):
                kinds[n] = "bool" if v else "constraint"
    return kinds


def conj(name, shape, kind):
    """And of the operand's meaning"""
    if shape == "single":
        if kind == "bool":
            return T(name)
        L = loop("b0.0", A(T(name), "_z3_assertions"))
        return And(("each", (L,), (), elem(L)))
    return And(flat_list_meaning(name, kind))


def spec_of(cname, kinds):
    f = CONNECTIVES[cname]
    if cname == "Not":
        return Not(conj("constraint", "single", kinds["constraint"]))
    if cname == "And":
        return And(flat_list_meaning("list_of_constraints", kinds["list_of_constraints"]))
    if cname == "Or":
        k = kinds["list_of_constraints"]
        L = loop("b0.0", T("list_of_constraints"))
        if k == "bool":
            return Or(("each", (L,), (), elem(L)))
        L2 = loop("b1.0", A(elem(L), "_z3_assertions"))
        return Or(("each", (L,), (), And(("each", (L2,), (), elem(L2)))))
    if cname == "Xor":
        return Xor(conj("constraint_1", "single", kinds["constraint_1"]), conj("constraint_2", "single", kinds["constraint_2"]))
    if cname == "Implies":
        return Implies(T("condition"), conj("list_of_constraints", "list", kinds["list_of_constraints"]))
    if cname == "IfThenElse":
        return If(T("condition"), conj("then_list_of_constraints", "list", kinds["then_list_of_constraints"]),
                  conj("else_list_of_constraints", "list", kinds["else_list_of_constraints"]))
    raise P.AnalysisError(f"R-FOL-TABLE: no specification for {cname}")


def placeholders(t):
    """replace every operand meaning by an opaque boolean leaf so that truth tables apply:
    And(each(...)) groups and the field leaves become ('boolleaf', text)"""
    if not isinstance(t, tuple) or not t:
        return t
    if t[0] == "attr" and t[1] == SELF:
        return ("boolleaf", show(t))
    if t[0] == "app":
        args = []
        for a in t[2:]:
            if isinstance(a, tuple) and a and a[0] == "each":
                # a collection operand is represented by two generic members
                body = placeholders(a[3])
                key = show(norm(("each", a[1], a[2], TRUE)))
                for i in (1, 2):
                    def tag(x, i=i, key=key):
                        if x[0] == "boolleaf":
                            return ("boolleaf", f"{x[1]} @{key}#{i}")
                        if x[0] == "elem":
                            return ("boolleaf", f"{show(x)} @{key}#{i}")
                        return None
                    args.append(rewrite(body, tag) if body[0] != "elem" else ("boolleaf", f"{show(body)} @{key}#{i}"))
            else:
                args.append(placeholders(a))
        return ("app", t[1]) + tuple(args)
    return tuple(placeholders(c) if isinstance(c, tuple) else c for c in t)


def r_fol_table(ctx):
    n = 0
    for cname, fields in CONNECTIVES.items():
        if cname not in ctx.project.classes:
            raise P.AnalysisError(f"R-FOL-TABLE: anchor vanished: class {cname}")
        runs = runs_of(ctx, Entry("init", cls=cname, opaque=OPAQUE))
        fails_closed(ctx, "R-FOL-TABLE", runs)
        where = f"{cname}.__init__"
        for run in mandatory_runs(runs):
            kinds = {}
            kinds.update(single_kinds(run, cname))
            kinds.update(elem_kinds(run, cname))
            if set(kinds) != set(fields):
                missing = sorted(set(fields) - set(kinds))
                n += 1
                ctx.violation("R-FOL-TABLE", where, f"operand(s) {missing} never read",
                              f"on [{describe_config(run)}] {cname} builds its formula without reading operand(s) {missing}",
                              first_line(ctx.project, cname))
                continue
            own = [e for e in run.emissions if e.owner == SELF]
            location = loc(own[0]) if own else first_line(ctx.project, cname)
            if len(own) != 1 or own[0].loops or own[0].guards:
                ctx.violation("R-FOL-TABLE", where, "one assertion per connective",
                              f"{cname} emits {len(own)} assertion(s) on [{describe_config(run)}]; the connective is one formula", location)
                continue
            em, spec = norm(own[0].term), norm(spec_of(cname, kinds))
            ok = em == spec
            method = "identical normal forms"
            if not ok:
                try:
                    ok, wit, _ = truth_table_equiv(placeholders(em), placeholders(spec))
                    method = "truth table over operand placeholders"
                except Undecided:
                    ok, wit = False, None
            else:
                wit = None
            n += 1
            inst = f"{where} [{describe_config(run)}]"
            if ok:
                ctx.ok("R-FOL-TABLE", inst, sample={"emitted": show(em)[:300], "spec": show(spec)[:300], "decided_by": method})
            else:
                ctx.violation("R-FOL-TABLE", where, f"connective over operands {sorted(kinds.items())}",
                              f"emitted {show(em)[:300]} is not the documented combination {show(spec)[:300]}", location,
                              witness=str(wit)[:300])
            # R-FOL-TAG: every Constraint operand is tagged
            tags = [ev for ev in run.events_of("setattr") if ev.data["attr"] == "_created_from_assertion"
                    and ev.data["value"] == TRUE]
            for name, kind in kinds.items():
                if kind != "constraint":
                    continue
                if fields[name] == "single":
                    hit = any(ev.data["obj"] == T(name) and not ev.guards and not ev.loops for ev in tags)
                else:
                    hit = any(ev.loops and norm(ev.loops[-1][3]) == T(name) and ev.data["obj"] == ("elem", ev.loops[-1])
                              and not ev.guards for ev in tags)
                if hit:
                    ctx.ok("R-FOL-TAG", f"{inst} operand {name}")
                else:
                    ctx.violation("R-FOL-TAG", where, f"operand {name} not tagged",
                                  f"the Constraint operand `{name}` is used inside the combination without being tagged "
                                  f"created-from-assertion: the solver would also enforce it on its own", location)
    ctx.floor("R-FOL-TABLE", "connective x operand-kind rows", n, 14)


BASE_NAMES = {"Constraint", "ResourceConstraint", "TaskConstraint", "IndicatorConstraint"}


def r_single_route(ctx):
    """every assertion a constraint owns passes through set_z3_assertions, and the optional variant is
    Implies(applied, same term)"""
    classes = [c for c in ctx.project.subclasses("Constraint") if c.name not in BASE_NAMES]
    ctx.floor("R-SINGLE-ROUTE", "Constraint subclasses", len(classes), 30)
    n_pairs = 0
    for c in classes:
        runs = runs_of(ctx, Entry("init", cls=c.name, opaque=OPAQUE))
        fails_closed(ctx, "R-SINGLE-ROUTE", runs)
        where = f"{c.name}.__init__"
        by_rest = {}
        for run in runs:
            if run.rejected:
                continue
            own = [e for e in run.emissions if e.owner == SELF]
            bad = [e for e in own if "Constraint.set_z3_assertions" not in e.via]
            if bad:
                ctx.violation("R-SINGLE-ROUTE", where, "assertion bypasses set_z3_assertions",
                              f"{show(norm(bad[0].term))[:200]} is appended directly: declared optional=True this constraint "
                              f"is still enforced", loc(bad[0]))
            else:
                ctx.ok("R-SINGLE-ROUTE", f"{where} [{describe_config(run)}]", nontrivial=bool(own))
            opt = leaf_value(run, "self.optional")
            if opt is None:
                if own:
                    ctx.violation("R-APPLIED", where, "optional never consulted",
                                  f"{c.name} emits assertions without looking at `optional`", loc(own[0]))
                continue
            rest = tuple((k, v) for k, v in run.decisions if k != "bool(self.optional)")
            by_rest.setdefault(rest, {})[opt[1]] = run
        for rest, pair in by_rest.items():
            if True not in pair or False not in pair:
                continue
            ro, rm = pair[True], pair[False]
            flag = ro.heap.get((SELF, "_applied"))
            eo = [e for e in ro.emissions if e.owner == SELF]
            em = [e for e in rm.emissions if e.owner == SELF]
            n_pairs += 1
            if not (isinstance(flag, tuple) and flag[0] == "z3var" and flag[1] == "Bool"):
                ctx.violation("R-APPLIED", where, "applied flag", "an optional constraint has no Boolean applied flag",
                              first_line(ctx.project, c.name))
                continue
            if rm.heap.get((SELF, "_applied")) != TRUE:
                ctx.violation("R-APPLIED", where, "applied flag of a mandatory constraint",
                              "a mandatory constraint's _applied is not True", first_line(ctx.project, c.name))
            ok = len(eo) == len(em)
            if ok:
                for a, b in zip(eo, em):
                    # uuid based names differ between two paths only by their site, terms are compared structurally
                    if norm(a.term) != norm(Implies(flag, b.term)) or conj_sig(a) != conj_sig(b):
                        ok = False
                        break
            inst = f"{where} optional vs mandatory [{'; '.join(f'{k}={v}' for k, v in rest)[:120]}]"
            if ok:
                ctx.ok("R-APPLIED", inst, nontrivial=bool(eo),
                       sample={"optional": show(norm(eo[0].term))[:200], "mandatory": show(norm(em[0].term))[:200]} if eo else None)
            else:
                ctx.violation("R-APPLIED", where, "optional variant is not Implies(applied, mandatory variant)",
                              f"optional: {[show(norm(e.term))[:120] for e in eo][:3]} ; mandatory: "
                              f"{[show(norm(e.term))[:120] for e in em][:3]}", loc(eo[0]) if eo else first_line(ctx.project, c.name))
    ctx.floor("R-APPLIED", "optional/mandatory path pairs", n_pairs, 40)


def conj_sig(e):
    from sa.lib import _rename_loops
    l, g, _ = _rename_loops(e.loops, e.guards, TRUE)
    return (l, tuple(sorted((norm(x) for x in g), key=show)))


def r_expr(ctx):
    runs = runs_of(ctx, Entry("init", cls="ConstraintFromExpression", opaque=OPAQUE))
    fails_closed(ctx, "R-EXPR", runs)
    for run in mandatory_runs(runs):
        own = [e for e in run.emissions if e.owner == SELF]
        if len(own) == 1 and norm(own[0].term) == T("expression") and not own[0].loops and not own[0].guards:
            ctx.ok("R-EXPR", "ConstraintFromExpression.__init__", sample={"emitted": show(own[0].term)})
        else:
            ctx.violation("R-EXPR", "ConstraintFromExpression.__init__", "expression forwarded unchanged",
                          f"emitted {[show(norm(e.term))[:160] for e in own]} instead of self.expression",
                          first_line(ctx.project, "ConstraintFromExpression"))


ASSERTION_WRITERS = ("append_z3_assertion", "append_z3_list_of_assertions", "set_z3_assertions", "set_assertions")


def r_own_assertions(ctx):
    """what a constraint asserts lives in its own assertion list (or in that of an element it creates itself): that list is
    what the `applied` guard of an optional constraint wraps, what a logical combination reads as the operand's meaning, and
    what the solver tracks under the constraint's name in debug mode.  An assertion written into the list of another element
    (a task, a resource) escapes all three."""
    n = 0
    found = {}
    for base in ("Constraint", "Indicator", "Objective"):
        for c in ctx.project.subclasses(base):
            for run in runs_of(ctx, Entry("init", cls=c.name, opaque=OPAQUE)):
                n += 1
                for e in run.emissions:
                    if e.owner != SELF and not (isinstance(e.owner, tuple) and e.owner and e.owner[0] == "obj"):
                        found.setdefault((f"{c.name}.__init__", show(norm(e.owner))[:60]), (show(norm(e.term))[:160], loc(e)))
                for ev in run.events_of("mcall"):
                    if ev.data["name"] in ASSERTION_WRITERS and ev.data["recv"] != SELF \
                            and not (isinstance(ev.data["recv"], tuple) and ev.data["recv"] and ev.data["recv"][0] == "obj"):
                        found.setdefault((f"{c.name}.__init__", show(norm(ev.data["recv"]))[:60]),
                                         (show(norm(ev.data["args"][0]))[:160] if ev.data["args"] else "", f"processscheduler/{ev.site.module}.py:{ev.site.lineno}"))
    for (where, recv), (what, location) in sorted(found.items()):
        ctx.violation("R-OWN-ASSERTIONS", where, "assertion written into another element's list",
                      f"{where.split('.')[0]} adds {what} to the assertions of `{recv}`: it is enforced whether or not the constraint is "
                      f"applied, it is not part of the constraint's meaning inside a logical combination, and in debug mode it is not "
                      f"attributed to the constraint", location)
    ctx.floor("R-OWN-ASSERTIONS", "constructor paths scanned", n, 150)
    if not found:
        ctx.ok("R-OWN-ASSERTIONS", f"every constraint / indicator / objective asserts into its own list only ({n} paths)")


def r_force_apply(ctx):
    cname = "ForceApplyNOptionalConstraints"
    runs = runs_of(ctx, Entry("init", cls=cname, opaque=OPAQUE))
    fails_closed(ctx, "R-PB-TABLE", runs)
    where = f"{cname}.__init__"
    L = loop("b0.0", T("list_of_optional_constraints"))
    seen = set()
    for run in mandatory_runs(runs):
        kind = kind_of(run)
        kinds = [kind]
        if kind is None:
            # the path never had to tell some kinds apart: it stands for each of the kinds still possible
            d_ = run.doms.get(T("kind"))
            kinds = sorted(d_.vals) if d_ is not None and d_.vals else []
            if not kinds:
                raise P.AnalysisError(f"R-PB-TABLE: {cname}: kind undetermined on a path")
        seen.update(kinds)
        own = [e for e in run.emissions if e.owner == SELF]
        n_dom = run.doms.get(T("nb_constraints_to_apply"))
        n_side = []
        if n_dom is not None and n_dom.is_int:
            if n_dom.lo is not None:
                n_side.append(ge(T("nb_constraints_to_apply"), K(n_dom.lo)))
            if n_dom.hi is not None:
                n_side.append(le(T("nb_constraints_to_apply"), K(n_dom.hi)))
        for kind in kinds:
            pb = {"min": "PbGe", "max": "PbLe", "exact": "PbEq"}.get(kind)
            location = loc(own[0]) if own else first_line(ctx.project, cname)
            want = norm(app(pb, ("list", (("each", (L,), (), ("tuple", (A(elem(L), "_applied"), TRUE))),)), T("nb_constraints_to_apply")))
            got = [norm(e.term) for e in own]
            rel = {"min": ">=", "max": "<=", "exact": "=="}[kind]
            sem_ok, sem_detail = (False, "")
            if len(own) == 1 and not own[0].loops and not own[0].guards:
                sem_ok, sem_detail = decide_cardinality(own[0].term, ("each", (L,), (), A(elem(L), "_applied")), rel, T("nb_constraints_to_apply"), side=n_side)
            if got == [want] or sem_ok:
                ctx.ok("R-PB-TABLE", f"{where} kind={kind}", sample={"emitted": show(got[0])[:240], "decided_by": sem_detail or "identical term"})
            else:
                ctx.violation("R-PB-TABLE", where, f"kind={kind}: cardinality over the applied flags",
                              f"expected {show(want)[:240]}, emitted {[show(g)[:240] for g in got]}" + (f" - {sem_detail}" if sem_detail else ""), location)
            raises = [ev for ev in run.events_of("raise") if rejects_an_element(ev, T("list_of_optional_constraints"), "optional")]
            if raises and not any(e.site.lineno < raises[0].site.lineno and e.site.func == where for e in own):
                ctx.ok("R-RAISE-OPTIONAL", f"{where} kind={kind} rejects a mandatory constraint in the list")
            else:
                ctx.violation("R-RAISE-OPTIONAL", where, "mandatory constraint in the list accepted",
                              f"{cname} does not reject a list element that is not optional", location)
    if seen != {"min", "max", "exact"}:
        raise P.AnalysisError(f"R-PB-TABLE: {cname}: kinds seen {seen}")


def r_drain_constraints(ctx):
    task_rules.r_drain(ctx, only=("constraints",))


def _base_store(ctx):
    from rules import tasks as _t
    _t.r_base_store(ctx)


def r_effect_only_constraints(ctx):
    """'an optional constraint may be left unapplied', 'an operand of a combination is not enforced on its own', 'the listed
    constraints ... admit no schedule': all three work through the constraint's own assertion list (guarded by `_applied`, skipped
    when created-from-assertion, labelled with the constraint's name in debug mode).  A constraint class that asserts nothing and
    acts through a side effect on another element instead escapes all three: its effect is there whether it is applied or not,
    as an operand or not, and a conflict through it names nobody."""
    proj = ctx.project
    n = 0
    for c in proj.subclasses("Constraint"):
        if c.name in BASE_NAMES or c.name in CONNECTIVES:
            continue
        runs = runs_of(ctx, Entry("init", cls=c.name, opaque=OPAQUE))
        live = [r for r in runs if not r.rejected]
        if not live:
            continue
        n += 1
        own_any = any(e.owner == SELF for r in live for e in r.emissions)
        effects = sorted({show(ev.data["container"])[:60] for r in live for ev in r.events_of("store")
                          if isinstance(ev.data["container"], tuple) and ev.data["container"][0] == "attr"
                          and ev.data["container"][1] not in (SELF, ("glob", "processscheduler.base.active_problem"))
                          and not any(s_ == SELF for s_ in [ev.data["container"][1]])})
        def has_effect(r):
            return any(isinstance(ev.data["container"], tuple) and ev.data["container"][0] == "attr"
                       and ev.data["container"][1] not in (SELF, ("glob", "processscheduler.base.active_problem"))
                       for ev in r.events_of("store"))
        # guarded: the effect is absent on the paths where the constraint is declared optional
        guarded = not any(has_effect(r) for r in live if dict(r.decisions).get("bool(self.optional)") is True)
        if not own_any and effects and not guarded:
            ctx.violation("R-EFFECT-ONLY", f"{c.name}.__init__", "acts through a side effect, asserts nothing",
                          f"{c.name} asserts nothing of its own and writes {effects}: declared optional, or used as an operand of Or / "
                          f"Implies / Not, its effect is enforced all the same (an optional unloading of an empty buffer with lower bound 0 "
                          f"makes the problem infeasible), and in debug mode a conflict through it names no constraint",
                          first_line(proj, c.name))
        else:
            ctx.ok("R-EFFECT-ONLY", f"{c.name}: acts through its own assertion list", nontrivial=False)
    ctx.floor("R-EFFECT-ONLY", "constraint classes", n, 30)


RULES = [r_effect_only_constraints, r_fol_table, r_single_route, r_expr, r_force_apply, r_drain_constraints, _base_store, r_own_assertions]
