"""C11 - the solution object is a faithful, self-consistent report (dataflow inside build_solution).

R-EXTRACT        start / end / duration of every task come from the model value of the constants the task rules constrain;
                 duration by an isinstance chain that is exhaustive over the task classes
R-SCHEDULED-READ scheduled = model value of the flag for an optional task, True otherwise
R-VIEW-SYMMETRY  the task view and the resource view are derived from the same busy interval under equivalent predicates
                 (given start <= end of a busy interval), assignment tuples are (task name, start, end)
R-MARKER         writer and readers of the cumulative-unit marker agree
R-HORIZON-REPORT reported horizon = user value when given, else the model value of the horizon variable
R-CALENDAR       duration_time = duration*delta, start_time = start_time0 + start*delta, end_time = start_time + duration_time
R-NAME-BRANCH    (known) a reporter branch that depends on the content of an element name
"""
from __future__ import annotations

import ast

from sa import project as P
from sa.decide import canon, lin
from sa.interp import Entry
from sa.lib import *
from sa.terms import subterms
from sa.values import PyList

SELF = S("self")
LOC = "processscheduler/solver.py"
Z = S("z3_sol")
mv = lambda v: ("mcall", ("idx", Z, v), "as_long", (), ())


def build_runs(ctx, rule):
    runs = runs_of(ctx, Entry("method", cls="SchedulingSolver", name="build_solution", opaque=("clean_buffer_levels",)))
    fails_closed(ctx, rule, runs)
    live = [r for r in runs if not r.rejected]
    if not live:
        raise P.AnalysisError(f"{rule}: no normal path through build_solution")
    return live


def sets_of(run, cls, attr):
    out = []
    for ev in run.events_of("setattr"):
        o = ev.data["obj"]
        if ev.data["attr"] == attr and isinstance(o, tuple) and cls in show(o):
            out.append(ev)
    return out


def task_kind(run):
    names = {"FixedDurationTask", "VariableDurationTask", "ZeroDurationTask"}
    for leaf, d in run.doms.items():
        if leaf[0] == "elem" and d.classes is not None and len(d.classes) == 1 and d.classes <= names:
            return next(iter(d.classes))
    for k, v in run.decisions:
        if k.startswith("isinstance(e#") and v:
            for c in ("FixedDurationTask", "VariableDurationTask", "ZeroDurationTask"):
                if c in k:
                    return c
    return None


def r_extract(ctx):
    where = "SchedulingSolver.build_solution"
    kinds = set()
    for run in build_runs(ctx, "R-EXTRACT"):
        cfgs = describe_config(run)[:90]
        news = [ev for ev in run.events_of("new") if ev.data["cls"] == "TaskSolution"]
        if len(news) != 1 or len(news[0].loops) != 1 or norm(news[0].loops[0][3]) != norm(("mcall", S("self.problem.tasks"), "values", (), ())) \
                or news[0].guards:
            ctx.violation("R-EXTRACT", where, "one TaskSolution per task of the unfiltered registry",
                          f"on [{cfgs}] TaskSolution objects are created {[(len(e.loops), [show(g)[:40] for g in e.guards]) for e in news]}", LOC)
            continue
        t = ("elem", news[0].loops[0])
        for attr, want in (("start", mv(A(t, "_start"))), ("end", mv(A(t, "_end")))):
            evs = sets_of(run, "TaskSolution", attr)
            ok = len(evs) == 1 and evs[0].data["value"] == want and not evs[0].guards
            if ok:
                ctx.ok("R-EXTRACT", f"{where} [{cfgs}] {attr} = model value of the task's {attr} constant", nontrivial=False)
            else:
                ctx.violation("R-EXTRACT", where, f"TaskSolution.{attr}",
                              f"on [{cfgs}] {attr} is set to {[show(e.data['value'])[:80] for e in evs]} instead of {show(want)}",
                              f"{LOC}:{evs[0].site.lineno}" if evs else LOC)
        kind = task_kind(run)
        evs = sets_of(run, "TaskSolution", "duration")
        want = {"FixedDurationTask": A(t, "duration"), "VariableDurationTask": mv(A(t, "_duration")), "ZeroDurationTask": K(0)}.get(kind)
        kinds.add(kind)
        if kind is None or len(evs) != 1 or evs[0].data["value"] != want:
            ctx.violation("R-EXTRACT", where, f"TaskSolution.duration for {kind}",
                          f"on [{cfgs}] duration is {[show(e.data['value'])[:80] for e in evs]}; expected {show(want) if want else 'a value for every task class'}",
                          f"{LOC}:{evs[0].site.lineno}" if evs else LOC)
        else:
            ctx.ok("R-EXTRACT", f"{where} [{cfgs}] duration of a {kind}", sample={"duration": show(want)})
        evs = sets_of(run, "TaskSolution", "scheduled")
        opt = A(t, "optional")
        want_opt = eq(("fstr", (("idx", Z, A(t, "_scheduled")),)), K("True"))
        ok = len(evs) == 2
        if ok:
            by = {tuple(norm(g) for g in e.guards): e.data["value"] for e in evs}
            ok = by.get((norm(opt),)) == want_opt and by.get((norm(app("not", opt)),)) == TRUE
        if not ok and evs:
            # any other spelling (`not optional or flag`, a conditional expression, ...): the value as a boolean function of
            # (optional, model value of the flag) must be `flag if optional else True`
            from sa.decide import truth_table_equiv, Undecided
            OPT, FLAG = ("boolleaf", "optional"), ("boolleaf", "flag read from the model")

            def as_formula(v):
                v = norm(v)
                if v == norm(want_opt):
                    return FLAG
                if v == norm(opt):
                    return OPT
                if v == TRUE or v == FALSE:
                    return v
                if v[0] == "phi":
                    c_, a_, b_ = as_formula(v[1]), as_formula(v[2]), as_formula(v[3])
                    return None if None in (c_, a_, b_) else app("If", c_, a_, b_)
                if is_app(v) and v[1] in ("or", "and") :
                    parts = [as_formula(x) for x in v[2:]]
                    return None if None in parts else app("Or" if v[1] == "or" else "And", *parts)
                if is_app(v, "not") and len(v) == 3:
                    x = as_formula(v[2])
                    return None if x is None else app("Not", x)
                return None
            cases = []
            for e in evs:
                val = as_formula(e.data["value"])
                gs = [as_formula(g) for g in e.guards]
                if val is None or None in gs:
                    cases = None
                    break
                cases.append((And(*gs) if gs else TRUE, val))
            if cases:
                # the last write wins; the writes of one path are under exclusive guards
                covered = Or(*[c for c, _ in cases])
                value = Or(*[And(c, v) for c, v in cases])
                try:
                    ok = truth_table_equiv(covered, TRUE)[0] and truth_table_equiv(value, app("If", OPT, FLAG, TRUE))[0]
                except Undecided:
                    ok = False
        if ok:
            ctx.ok("R-SCHEDULED-READ", f"{where} [{cfgs}]", nontrivial=False)
        else:
            ctx.violation("R-SCHEDULED-READ", where, "scheduled flag read from the model for optional tasks, True otherwise",
                          f"on [{cfgs}] scheduled is set {[(show(e.data['value'])[:60], [show(g)[:40] for g in e.guards]) for e in evs]}", LOC)
    want_kinds = {c.name for c in ctx.project.subclasses("Task")}
    if kinds - {None} != want_kinds:
        ctx.violation("R-EXTRACT", where, "duration chain exhaustive over the task classes",
                      f"duration is extracted for {sorted(k for k in kinds if k)}; task classes are {sorted(want_kinds)}", LOC)
    else:
        ctx.ok("R-EXTRACT", f"duration extraction covers every task class {sorted(want_kinds)}")


def r_horizon_report(ctx):
    where = "SchedulingSolver.build_solution"
    for run in build_runs(ctx, "R-HORIZON-REPORT"):
        v = leaf_value(run, "self.problem.horizon")
        evs = sets_of(run, "SchedulingSolution", "horizon")
        want = mv(S("self.problem._horizon")) if (v is not None and v[1] is None) else S("self.problem.horizon")
        if len(evs) == 1 and evs[0].data["value"] == want:
            ctx.ok("R-HORIZON-REPORT", f"{where} [{describe_config(run)[:60]}]", nontrivial=False)
        else:
            ctx.violation("R-HORIZON-REPORT", where, "horizon = user value when given, else the model value of the horizon variable",
                          f"on [{describe_config(run)[:80]}] horizon is {[show(e.data['value'])[:80] for e in evs]}", LOC)


def r_calendar(ctx):
    where = "SchedulingSolver.build_solution"
    n = 0
    for run in build_runs(ctx, "R-CALENDAR"):
        dt = leaf_value(run, "self.problem.delta_time")
        if dt is not None and dt[1] is None:
            if sets_of(run, "TaskSolution", "duration_time") or sets_of(run, "TaskSolution", "start_time"):
                ctx.violation("R-CALENDAR", where, "calendar times without a time step", "calendar fields are set although delta_time is None", LOC)
            continue
        n += 1
        st0 = leaf_value(run, "self.problem.start_time")
        delta = S("self.problem.delta_time")
        news = [ev for ev in run.events_of("new") if ev.data["cls"] == "TaskSolution"]
        obj = news[0].data["obj"]
        t = ("elem", news[0].loops[0])
        dur = [e.data["value"] for e in sets_of(run, "TaskSolution", "duration")]
        start = mv(A(t, "_start"))
        d_ev, s_ev, e_ev = (sets_of(run, "TaskSolution", a) for a in ("duration_time", "start_time", "end_time"))
        ok = len(d_ev) == 1 and len(s_ev) == 1 and len(e_ev) == 1 and len(dur) == 1
        if ok:
            want_d = mul(dur[0], delta)
            want_s = mul(start, delta) if (st0 is not None and st0[1] is None) else add(S("self.problem.start_time"), mul(start, delta))
            want_e = add(s_ev[0].data["value"], d_ev[0].data["value"])
            end_0 = mv(A(t, "_end"))
            exact_0 = mul(end_0, delta) if (st0 is not None and st0[1] is None) else add(S("self.problem.start_time"), mul(end_0, delta))
            ok = canon(d_ev[0].data["value"]) == canon(want_d) and canon(s_ev[0].data["value"]) == canon(want_s) \
                and (canon(e_ev[0].data["value"]) == canon(want_e) or canon(e_ev[0].data["value"]) == canon(exact_0))
        if ok:
            # end_time is computed as start_time + duration_time: that is problem start + end * step only if the reported duration
            # is end - start.  For a fixed-duration task the reported duration is the DECLARED one, also when the optional task is
            # not scheduled and sits at start == end (a parked point): its calendar end is then off by duration * step
            end_ = mv(A(t, "_end"))
            exact_e = mul(end_, delta) if (st0 is not None and st0[1] is None) else add(S("self.problem.start_time"), mul(end_, delta))
            declared = any(k.startswith("isinstance(") and "FixedDurationTask" in k and v for k, v in run.decisions)
            if declared and canon(e_ev[0].data["value"]) != canon(exact_e):
                ctx.violation("R-CALENDAR", where, "calendar end of an unscheduled fixed-duration task",
                              f"on [{describe_config(run)[:80]}] end_time = start_time + duration_time with the declared duration: for an "
                              f"optional FixedDurationTask left unscheduled (start == end == a parked point) the calendar end is "
                              f"start_time + duration * step, not problem start + end * step", LOC)
        if ok:
            ctx.ok("R-CALENDAR", f"{where} [{describe_config(run)[:80]}]", sample={"start_time": show(s_ev[0].data["value"])[:160]})
        else:
            ctx.violation("R-CALENDAR", where, "calendar times = start time + integer times * time step",
                          f"on [{describe_config(run)[:80]}] duration_time={[show(e.data['value'])[:80] for e in d_ev]}, "
                          f"start_time={[show(e.data['value'])[:100] for e in s_ev]}, end_time={[show(e.data['value'])[:100] for e in e_ev]}", LOC)
    ctx.floor("R-CALENDAR", "configurations with a time step", n, 4)


def r_view_symmetry(ctx):
    where = "SchedulingSolver.build_solution"
    for run in build_runs(ctx, "R-VIEW-SYMMETRY"):
        cfgs = describe_config(run)[:70]
        # task view: items appended to TaskSolution.assigned_resources
        news = [ev for ev in run.events_of("new") if ev.data["cls"] == "TaskSolution"]
        obj = news[0].data["obj"]
        t = ("elem", news[0].loops[0])
        lst = run.heap.get((obj, "assigned_resources"))
        items = lst.items if isinstance(lst, PyList) else []
        if len(items) != 1 or len(items[0].loops) != 2 or norm(items[0].loops[1][3]) != norm(A(t, "_required_resources")) \
                or items[0].loops[0] != news[0].loops[0]:
            ctx.violation("R-VIEW-SYMMETRY", where, "task view: one candidate per required resource",
                          f"on [{cfgs}] assigned_resources gets {[(show(i.value)[:60], [show(l[3])[:50] for l in i.loops]) for i in items]}", LOC)
            continue
        r = ("elem", items[0].loops[1])
        busy_t = ("idx", A(r, "_busy_intervals"), t)
        lo_t, hi_t = mv(idx(busy_t, 0)), mv(idx(busy_t, 1))
        # the membership tests only de-duplicate; the assignment predicate is what remains
        def dedupe(c):
            """a membership test against the very list being filled (seen-before filter), whatever it is called"""
            while is_app(c, "not") and len(c) == 3:
                c = c[2]
            return is_app(c, "in") and len(c) == 4 and ((isinstance(c[3], tuple) and c[3] and c[3][0] == "carried")
                                                       or "assignments" in show(c[3]) or "assigned_resources" in show(c[3]))
        pred_t = [g for g in items[0].guards if "assigned_resources" not in show(g)]
        # resource view
        # what goes into ResourceSolution.assignments: append calls on a not fully resolved receiver, or items of the list of
        # a ResourceSolution object built here - (loops, guards, appended value) either way
        class _App:
            def __init__(self, loops, guards, value):
                self.loops, self.guards, self.value = tuple(loops), tuple(guards), value
        apps = [_App(ev.loops, ev.guards, ev.data["args"][0]) for ev in run.events_of("mcall")
                if ev.data["name"] == "append" and "assignments" in show(ev.data["recv"]) and ev.data["args"]]
        for nev in run.events_of("new"):
            if nev.data["cls"] == "ResourceSolution":
                lst_r = run.heap.get((nev.data["obj"], "assignments"))
                if isinstance(lst_r, PyList):
                    apps += [_App(i.loops, i.guards, i.value if isinstance(i.value, tuple) else None) for i in lst_r.items]
        if len(apps) != 1 or len(apps[0].loops) != 2 or norm(apps[0].loops[0][3]) != norm(("mcall", S("self.problem.workers"), "values", (), ())):
            ctx.violation("R-VIEW-SYMMETRY", where, "resource view: one candidate per busy interval of every worker",
                          f"on [{cfgs}] {len(apps)} append(s) to assignments", LOC)
            continue
        w = ("elem", apps[0].loops[0])
        inner_it = norm(apps[0].loops[1][3])
        e1 = ("elem", apps[0].loops[1])
        if inner_it == norm(("mcall", A(w, "_busy_intervals"), "items", (), ())):
            tk, busy_r = ("idx", e1, K(0)), ("idx", e1, K(1))           # for task, (start, end) in busy.items()
        else:
            tk, busy_r = e1, ("idx", A(w, "_busy_intervals"), e1)       # for task in busy / busy.keys()
        ok_iter = "_busy_intervals" in show(inner_it)
        lo_r, hi_r = mv(idx(busy_r, 0)), mv(idx(busy_r, 1))
        tup = apps[0].value
        ok_tuple = tup is not None and norm(tup) == norm(("tuple", (A(tk, "name"), lo_r, hi_r)))
        pred_r = [g for g in apps[0].guards if "assignments" not in show(g)]
        # rename both predicates onto common points lo / hi and compare under lo <= hi
        LO, HI = ("sym", "busy_lo"), ("sym", "busy_hi")
        def ren(gs, lo, hi):
            m = {lo: LO, hi: HI}
            out = []
            def conjuncts(g2):
                """and(..) and not(or(..)) split into their conjuncts; min(a, b) >= c is a >= c and b >= c (max / <= alike)"""
                if is_app(g2) and g2[1] in ("and", "and*"):
                    return [c_ for x in g2[2:] for c_ in conjuncts(x)]
                if is_app(g2, "not") and len(g2) == 3 and is_app(g2[2], "or"):
                    return [c_ for x in g2[2][2:] for c_ in conjuncts(app("not", x))]
                if is_app(g2, "not") and len(g2) == 3 and is_app(g2[2], "not") and len(g2[2]) == 3:
                    return conjuncts(g2[2][2])
                if is_app(g2) and len(g2) == 4 and g2[1] in (">=", ">", "<=", "<"):
                    for side, other, fn_ in ((2, 3, "min" if g2[1] in (">=", ">") else "max"), (3, 2, "max" if g2[1] in (">=", ">") else "min")):
                        t_ = g2[side]
                        if isinstance(t_, tuple) and len(t_) == 4 and t_[0] == "call" and t_[1] == fn_ and len(t_[2]) >= 2 and not t_[3]:
                            return [c_ for x in t_[2] for c_ in conjuncts(app(g2[1], *((x, g2[other]) if side == 2 else (g2[other], x))))]
                return [g2]
            for g_ in gs:
                for c in conjuncts(substitute(g_, m)):
                    if "assignments" in show(c) or "assigned_resources" in show(c) or dedupe(c):
                        continue
                    out.append(c)
            def pyb(x):
                if x[0] == "app" and x[1] in ("and", "and*"):
                    return app("And", *x[2:])
                if x[0] == "app" and x[1] == "or":
                    return app("Or", *x[2:])
                if x[0] == "app" and x[1] == "not":
                    return app("Not", x[2])
                return None
            return rewrite(And(*out), pyb) if out else TRUE
        ft, fr = ren(items[0].guards, lo_t, hi_t), ren(apps[0].guards, lo_r, hi_r)
        ok_pred, wit, method = decide_equiv(ctx, ft, fr, side_extra=[le(LO, HI)])
        mentions = all(x in (LO, HI) or is_const(x) for f in (ft, fr) for a in collect_atoms_safe(f) for x in a[2:4])
        if ok_tuple and ok_pred and mentions:
            ctx.ok("R-VIEW-SYMMETRY", f"{where} [{cfgs}]",
                   sample={"task view predicate": show(norm(ft))[:120], "resource view predicate": show(norm(fr))[:120], "decided_by": method})
        else:
            ctx.violation("R-VIEW-SYMMETRY", where, "both views derived from the same busy interval under equivalent predicates",
                          f"on [{cfgs}] assignment tuple ok: {ok_tuple} ({show(tup)[:120]}); task view lists the resource when "
                          f"{show(norm(ft))[:120]}, resource view lists the task when {show(norm(fr))[:120]} (equivalent given lo <= hi: {ok_pred})",
                          LOC, witness=str(wit)[:300])


def collect_atoms_safe(f):
    from sa.decide import collect_atoms, CMP_OPS
    return [a for a in collect_atoms(f) if is_app(a) and a[1] in CMP_OPS and len(a) == 4]


def r_marker(ctx):
    """the marker that the reporters use to fold unit workers into their cumulative worker is the one the writer puts in
    the unit worker names"""
    proj = ctx.project
    # the writer's marker: the literal between the cumulative worker's own name and the unit index in the names of the
    # unit workers CumulativeWorker.__init__ creates (taken from the extracted IR, whatever way the string is spelled)
    writer = None
    foreign = None
    for run in runs_of(ctx, Entry("init", cls="CumulativeWorker", opaque=("_distribute_p_over_n",))):
        for ev in run.events_of("new"):
            if ev.data["cls"] != "Worker":
                continue
            nm = dict(ev.data["kwargs"]).get("name")
            if isinstance(nm, tuple) and nm and nm[0] == "fstr":
                lits = [q[1] for q in nm[1] if is_const(q) and isinstance(q[1], str) and q[1].strip("_")]
                if lits and nm[1][0] == A(S("self"), "name"):
                    writer = lits[0]
                elif lits:
                    foreign = (show(nm)[:160], ev.site.lineno)
    if writer is None and foreign is not None:
        # the reporters recover the cumulative worker by cutting the unit's name at the marker: what stands before the marker
        # must be the cumulative worker's own name, unchanged
        ctx.violation("R-MARKER", "CumulativeWorker.__init__", "unit worker names start with the cumulative worker's own name",
                      f"unit workers are named {foreign[0]}: the part before the marker is not `self.name` itself, so the reporters "
                      f"(which cut the unit's name at the marker) report the cumulative worker under a name that is not its own "
                      f"whenever the two differ", f"processscheduler/resource.py:{foreign[1]}")
        return
    if writer is None:
        raise P.AnalysisError("R-MARKER: the unit worker name template of CumulativeWorker was not found")
    readers = []
    for m in proj.modules.values():
        if m.short in ("resource",):
            continue
        for n in ast.walk(m.tree):
            if isinstance(n, ast.Constant) and isinstance(n.value, str) and "CumulativeWorker" in n.value and n.value != "CumulativeWorker" \
                    and len(n.value) < 40 and " " not in n.value:
                readers.append((m, n))
    ctx.floor("R-MARKER", "marker reader sites", len(readers), 1)
    bad = [(m, n) for m, n in readers if n.value != writer]
    if bad:
        for m, n in bad:
            ctx.violation("R-MARKER", f"{m.short}", f"marker {n.value!r} vs writer {writer!r}",
                          f"the reporter tests for {n.value!r} but unit workers are named with {writer!r}: cumulative workers are no "
                          f"longer reported under their own name", f"{proj.relpath(m.path)}:{n.lineno}")
    else:
        ctx.ok("R-MARKER", f"{len(readers)} reader sites use the writer's marker {writer!r}")
    # R-NAME-BRANCH: the marker test is a branch on the content of a name
    ctx.violation("R-NAME-BRANCH", "SchedulingSolver.build_solution", "reporter branches on a substring of an element name",
                  f"build_solution decides whether a worker is a unit of a cumulative worker by testing {writer!r} in its *name*: a plain "
                  f"worker named 'A{writer}1' is reported as resource 'A'", LOC) if readers else None


def r_requirement_interval(ctx):
    """'the assignment interval is the one the task's requirement implies': the reporter copies the model values of the
    stored busy pair (R-EXTRACT); that pair is tied to the task span, delay-in / early-out included, by
    Task.add_required_resource - the C02 rule R-BUSY-BIND decides that binding, and it is part of this property too"""
    from rules import resources
    resources.r_busy_bind(ctx)


def r_horizon_bounds_ends(ctx):
    """'the horizon is not earlier than any task end': the reported horizon is the model value of problem._horizon
    (R-HORIZON-REPORT) and every task end is asserted <= problem._horizon by the solver - the C01 rule R-HORIZON"""
    from rules import tasks
    tasks.r_horizon(ctx)


def r_unscheduled_is_parked(ctx):
    """'tasks reported as not scheduled carry no assignment': the reporters list an assignment when the busy interval is
    non-negative, and a busy interval follows the task's start and end - so start AND end (and the duration) of an unscheduled
    optional task must be pinned to its negative point: the unscheduled branch of Task.set_assertions (R-SET-ASSERTIONS)"""
    from rules import tasks
    tasks.r_task_oblig(ctx, mode="implies", rule="R-SET-ASSERTIONS", obligations=False)


def r_scheduled_is_nonnegative(ctx):
    """the reporters take `busy interval >= 0` for 'assigned' (R-VIEW-SYMMETRY): that test says what it is meant to say only if a
    scheduled task never starts before 0 - the obligation `start >= 0` of every task class on every parameter combination
    (R-TASK-OBLIG, shared with C01).  Without it a scheduled task placed before 0 is reported without its resources."""
    from rules import tasks
    tasks.r_task_oblig(ctx)


RULES = [r_extract, r_horizon_report, r_calendar, r_view_symmetry, r_marker, r_requirement_interval, r_horizon_bounds_ends,
         r_unscheduled_is_parked, r_scheduled_is_nonnegative,
         lambda ctx: __import__("rules.exports", fromlist=["x"]).r_report_readonly(ctx)]

# every assertion a task or a resource makes about a busy interval reaches the solver only if the store keeps it (R-BASE-STORE)
RULES.append(lambda ctx: __import__("rules.tasks", fromlist=["x"]).r_base_store(ctx))


def r_solution_store(ctx):
    """'a task lists a resource exactly when the resource lists an assignment for it' is decided on what build_solution computes
    (R-VIEW-SYMMETRY); it reaches the caller only if SchedulingSolution.add_*_solution keeps what it is handed: each of these
    methods stores its argument itself, unconditionally, under the argument's own name, and neither modifies the argument
    (attribute / item assignment, in-place list methods) nor stores a rebuilt value (seed C11-agent-10: assignments filtered
    to `end > start` before the store)."""
    import ast as _ast
    cls = ctx.project.classes["SchedulingSolution"]
    table = {"add_task_solution": "tasks", "add_resource_solution": "resources", "add_buffer_solution": "buffers",
             "add_indicator_solution": "indicators"}
    MUT = {"append", "extend", "insert", "remove", "pop", "clear", "sort", "reverse", "update", "setdefault", "popitem", "__setitem__", "__delitem__"}
    n = 0
    for mname, reg in table.items():
        fn = cls.methods.get(mname)
        if not isinstance(fn, _ast.FunctionDef):
            raise P.AnalysisError(f"R-SOLUTION-STORE: SchedulingSolution.{mname} not found")
        n += 1
        params = [a.arg for a in fn.args.args[1:]]
        where = f"SchedulingSolution.{mname}"
        problems = []

        def root(e):
            while isinstance(e, (_ast.Attribute, _ast.Subscript)):
                e = e.value
            return e.id if isinstance(e, _ast.Name) else None

        alias = {p: p for p in params}
        stores = []
        for st in fn.body:
            if isinstance(st, _ast.Expr) and isinstance(st.value, _ast.Constant):
                continue
            if isinstance(st, _ast.Assign) and len(st.targets) == 1 and isinstance(st.targets[0], _ast.Name):
                v = st.value     # a local name for the argument or for one of its attributes
                if isinstance(v, _ast.Name) and v.id in alias:
                    alias[st.targets[0].id] = alias[v.id]
                    continue
                if isinstance(v, _ast.Attribute) and isinstance(v.value, _ast.Name) and v.value.id in alias:
                    alias[st.targets[0].id] = alias[v.value.id] + "." + v.attr
                    continue
            if isinstance(st, _ast.Assign) and len(st.targets) == 1 and isinstance(st.targets[0], _ast.Subscript):
                t = st.targets[0]
                if isinstance(t.value, _ast.Attribute) and isinstance(t.value.value, _ast.Name) and t.value.value.id == "self" and t.value.attr == reg:
                    stores.append(st)
                    continue
            names = {x.id for x in _ast.walk(st) if isinstance(x, _ast.Name)}
            if names & (set(alias) | {"self"}):     # a statement that touches neither the argument nor the solution cannot change what is stored
                problems.append((st.lineno, f"statement `{_ast.unparse(st)[:90]}` besides the store into self.{reg}"))
        for node in _ast.walk(fn):
            tg = []
            if isinstance(node, _ast.Assign):
                tg = node.targets
            elif isinstance(node, (_ast.AugAssign, _ast.AnnAssign)):
                tg = [node.target]
            elif isinstance(node, _ast.Delete):
                tg = node.targets
            for t in tg:
                if isinstance(t, (_ast.Attribute, _ast.Subscript)) and root(t) in alias and root(t) != "self":
                    problems.append((node.lineno, f"the argument is modified before it is stored: `{_ast.unparse(node)[:90]}`"))
            if isinstance(node, _ast.Call) and isinstance(node.func, _ast.Attribute) and node.func.attr in MUT and root(node.func.value) in alias:
                problems.append((node.lineno, f"the argument is modified in place: `{_ast.unparse(node)[:90]}`"))
        if len(stores) != 1:
            problems.append((fn.lineno, f"{len(stores)} unconditional stores into self.{reg} (exactly one expected)"))
        else:
            st = stores[0]
            def res(e):
                if isinstance(e, _ast.Name):
                    return alias.get(e.id)
                if isinstance(e, _ast.Attribute) and isinstance(e.value, _ast.Name) and e.value.id in alias:
                    return alias[e.value.id] + "." + e.attr
                return None
            key, val = res(st.targets[0].slice), res(st.value)
            want = (params[0], params[1]) if mname == "add_indicator_solution" else (params[0] + ".name", params[0])
            if (key, val) != want:
                problems.append((st.lineno, f"stores `{_ast.unparse(st.value)[:60]}` under `{_ast.unparse(st.targets[0].slice)[:60]}`; "
                                            f"expected the argument itself ({want[1]}) under {want[0]}"))
        if problems:
            seen = set()
            for ln, msg in problems:
                if msg in seen:
                    continue
                seen.add(msg)
                ctx.violation("R-SOLUTION-STORE", where, "the solution keeps what it is handed",
                              f"{msg}: what build_solution computed (and R-VIEW-SYMMETRY / R-EXTRACT decided) is not what the caller reads",
                              f"processscheduler/solution.py:{ln}")
        else:
            ctx.ok("R-SOLUTION-STORE", f"{where}: self.{reg}[key] = argument, unconditionally, argument untouched")
    ctx.floor("R-SOLUTION-STORE", "store methods of SchedulingSolution", n, 4)


RULES.append(r_solution_store)
