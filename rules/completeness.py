"""C05 - no valid schedule is lost (necessary conditions of completeness).

The <= direction of every specification row (the emitted term is no tighter than the documented relation) is
decided by the same rules as C01-C04/C06 run in their equivalence / 'implied' mode; in addition:
R-CONST-GUARD  a None-test that is constant by the declared type, guarding an emitted default
R-VERDICT-MAP  the driver returns False only after an unsat / unknown check (or when no model was obtained)
"""
from __future__ import annotations

import ast

from sa import project as P
from sa.interp import Entry
from sa.lib import *
from sa.terms import subterms
from rules import tasks as task_rules, task_constraints, resource_constraints, resources, optional


def r_task_exact(ctx):
    task_rules.r_task_oblig(ctx, mode="implied", rule="R-TASK-EXACT")


def r_const_guard(ctx):
    """`self.f is None` / `is not None` where the declared type of f excludes None and its default is not None:
    the test is constant, and whatever its branch emits is asserted for every default-constructed element"""
    proj = ctx.project
    n = 0
    for c in proj.classes.values():
        fields = c.all_fields()
        for mname, fn in c.methods.items():
            for node in ast.walk(fn):
                if not (isinstance(node, ast.Compare) and len(node.ops) == 1 and isinstance(node.ops[0], (ast.Is, ast.IsNot))):
                    continue
                l, r = node.left, node.comparators[0]
                if not (isinstance(r, ast.Constant) and r.value is None):
                    continue
                if not (isinstance(l, ast.Attribute) and isinstance(l.value, ast.Name) and l.value.id == "self" and l.attr in fields):
                    continue
                f = fields[l.attr]
                n += 1
                if f.may_be_none() or f.required:
                    ctx.ok("R-CONST-GUARD", f"{c.name}.{mname}: {ast.unparse(node)}", nontrivial=False)
                    continue
                ctx.violation("R-CONST-GUARD", f"{c.name}.{mname}", f"constant test {ast.unparse(node)}",
                              f"field `{l.attr}` is declared {f.ann_src} with default {f.default!r}: it is never None, so this test is "
                              f"constant and the branch it guards applies to every {c.name} built with the default (a constraint "
                              f"nobody asked for)", f"{proj.relpath(c.module.path)}:{node.lineno}")
    ctx.floor("R-CONST-GUARD", "None-tests on pydantic fields", n, 20)


SOLVE_OPAQUE = ("sort_no_duplicates", "sort_duplicates", "initialize", "build_solution", "print_assertions", "print_statistics",
                "print_solution", "_solve_optimize_incremental", "clean_buffer_levels")


def _conjuncts(g):
    g = norm(g)
    if is_app(g) and g[1] in ("And", "and", "and*"):
        out = []
        for a in g[2:]:
            out.extend(_conjuncts(a))
        return out
    return [g]


def _is_check_result(t) -> bool:
    if isinstance(t, tuple) and t and t[0] == "mcall" and t[2] == "check" and is_solver_handle(t[1]):
        return True
    if isinstance(t, tuple) and t and t[0] == "idx" and t[2] == K(0) and t[1][0] == "mcall" and t[1][2] == "check_sat":
        return True
    return False


def _is_negative_verdict(c) -> bool:
    """c is `check() == unsat|unknown`, a disjunction of such tests, or `not <model of the incremental loop>`"""
    if is_app(c, "==") and len(c) == 4:
        a, b = c[2], c[3]
        for x, y in ((a, b), (b, a)):
            if _is_check_result(x) and y in (("ext", "z3.unsat"), ("ext", "z3.unknown")):
                return True
        return False
    if is_app(c) and c[1] in ("Or", "or"):
        return all(_is_negative_verdict(norm(d)) for d in c[2:])
    if is_app(c, "not") and isinstance(c[2], tuple) and "_solve_optimize_incremental" in show(c[2]) and c[2][0] in ("mcall", "call"):
        return True
    return False


def r_verdict_map(ctx):
    runs = runs_of(ctx, Entry("method", cls="SchedulingSolver", name="solve", opaque=SOLVE_OPAQUE))
    fails_closed(ctx, "R-VERDICT-MAP", runs)
    n = 0
    for run in runs:
        for ev in run.events_of("return"):
            if ev.data["value"] != FALSE:
                continue
            n += 1
            g = show(And(*ev.guards)) if ev.guards else ""
            ok = any(_is_negative_verdict(c) for gd in ev.guards for c in _conjuncts(gd))
            inst = f"SchedulingSolver.solve return False at line {ev.site.lineno} [{describe_config(run)[:80]}]"
            if ok:
                ctx.ok("R-VERDICT-MAP", inst, sample={"guards": g[:300]})
            else:
                ctx.violation("R-VERDICT-MAP", "SchedulingSolver.solve", "False returned without an unsat/unknown verdict",
                              f"`return False` under [{g[:300]}] is not conditioned on the check() result being unsat/unknown",
                              f"processscheduler/solver.py:{ev.site.lineno}")
        rv = run.retval
        if rv == FALSE:
            ctx.violation("R-VERDICT-MAP", "SchedulingSolver.solve", "unconditional False",
                          f"on [{describe_config(run)}] solve() always returns False", "processscheduler/solver.py")
    ctx.floor("R-VERDICT-MAP", "return-False sites", n, 3)
    # check_sat returns the raw result of self._solver.check()
    runs = runs_of(ctx, Entry("method", cls="SchedulingSolver", name="check_sat", opaque=SOLVE_OPAQUE))
    fails_closed(ctx, "R-VERDICT-MAP", runs)
    for run in runs:
        rv = run.retval
        ok = isinstance(rv, tuple) and rv[0] == "tuple" and rv[1][0][0] == "mcall" and rv[1][0][2] == "check" and is_solver_handle(rv[1][0][1])
        if ok:
            ctx.ok("R-VERDICT-MAP", "check_sat returns the result of self._solver.check()")
        else:
            ctx.violation("R-VERDICT-MAP", "SchedulingSolver.check_sat", "result of check() returned unchanged",
                          f"returns {show(rv)[:200] if isinstance(rv, tuple) else rv}", "processscheduler/solver.py")


RULES = [
    r_task_exact,
    task_constraints.r_tc_relation,
    resource_constraints.r_rc_relation,
    resources.r_pairwise,
    resources.r_busy_bind,
    resources.r_work_amount,
    optional.r_sched_guard,
    r_const_guard,
    r_verdict_map,
]
