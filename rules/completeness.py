"""C05 - no valid schedule is lost (necessary conditions of completeness).

The <= direction of every specification row (the emitted term is no tighter than the documented relation) is
decided by the same rules as C01-C04/C06 run in their equivalence / 'implied' mode; in addition:
R-CONST-GUARD  a None-test that is constant by the declared type, guarding an emitted default
R-VERDICT-MAP  the driver returns False only after an unsat / unknown check (or when no model was obtained)
"""
from __future__ import annotations

import ast

from sa import project as P
from sa.interp import Entry
from sa.lib import *
from sa.terms import subterms
from rules import tasks as task_rules, task_constraints, resource_constraints, resources, optional


def r_task_exact(ctx):
    task_rules.r_task_oblig(ctx, mode="implied", rule="R-TASK-EXACT")


def r_const_guard(ctx):
    """`self.f is None` / `is not None` where the declared type of f excludes None and its default is not None:
    the test is constant, and whatever its branch emits is asserted for every default-constructed element"""
    proj = ctx.project
    n = 0
    for c in proj.classes.values():
        fields = c.all_fields()
        for mname, fn in c.methods.items():
            for node in ast.walk(fn):
                if not (isinstance(node, ast.Compare) and len(node.ops) == 1 and isinstance(node.ops[0], (ast.Is, ast.IsNot))):
                    continue
                l, r = node.left, node.comparators[0]
                if not (isinstance(r, ast.Constant) and r.value is None):
                    continue
                if not (isinstance(l, ast.Attribute) and isinstance(l.value, ast.Name) and l.value.id == "self" and l.attr in fields):
                    continue
                f = fields[l.attr]
                n += 1
                if f.may_be_none() or f.required:
                    ctx.ok("R-CONST-GUARD", f"{c.name}.{mname}: {ast.unparse(node)}", nontrivial=False)
                    continue
                ctx.violation("R-CONST-GUARD", f"{c.name}.{mname}", f"constant test {ast.unparse(node)}",
                              f"field `{l.attr}` is declared {f.ann_src} with default {f.default!r}: it is never None, so this test is "
                              f"constant and the branch it guards applies to every {c.name} built with the default (a constraint "
                              f"nobody asked for)", f"{proj.relpath(c.module.path)}:{node.lineno}")
    ctx.floor("R-CONST-GUARD", "None-tests on pydantic fields", n, 20)


SOLVE_OPAQUE = ("sort_no_duplicates", "sort_duplicates", "initialize", "build_solution", "print_assertions", "print_statistics",
                "print_solution", "_solve_optimize_incremental", "clean_buffer_levels")


def _conjuncts(g):
    g = norm(g)
    if is_app(g) and g[1] in ("And", "and", "and*"):
        out = []
        for a in g[2:]:
            out.extend(_conjuncts(a))
        return out
    return [g]


def _is_check_result(t) -> bool:
    if isinstance(t, tuple) and t and t[0] == "mcall" and t[2] == "check" and is_solver_handle(t[1]):
        return True
    if isinstance(t, tuple) and t and t[0] == "idx" and t[2] == K(0) and t[1][0] == "mcall" and t[1][2] == "check_sat":
        return True
    return False


def _is_negative_verdict(c) -> bool:
    """c is `check() == unsat|unknown`, a disjunction of such tests, or `not <model of the incremental loop>`"""
    if is_app(c, "==") and len(c) == 4:
        a, b = c[2], c[3]
        for x, y in ((a, b), (b, a)):
            if _is_check_result(x) and y in (("ext", "z3.unsat"), ("ext", "z3.unknown")):
                return True
        return False
    if is_app(c, "!=") and len(c) == 4:
        # the verdict is one of sat / unsat / unknown: `!= sat` is `unsat or unknown`
        a, b = c[2], c[3]
        return any(_is_check_result(x) and y == ("ext", "z3.sat") for x, y in ((a, b), (b, a)))
    if is_app(c, "in") and len(c) == 4 and _is_check_result(c[2]) and isinstance(c[3], tuple) and c[3] and c[3][0] in ("tuple", "list"):
        return bool(c[3][1]) and all(m in (("ext", "z3.unsat"), ("ext", "z3.unknown")) for m in c[3][1])
    if is_app(c) and c[1] in ("Or", "or"):
        return all(_is_negative_verdict(norm(d)) for d in c[2:])
    if is_app(c, "not") and isinstance(c[2], tuple) and "_solve_optimize_incremental" in show(c[2]) and c[2][0] in ("mcall", "call"):
        return True
    return False


def r_verdict_map(ctx):
    runs = runs_of(ctx, Entry("method", cls="SchedulingSolver", name="solve", opaque=SOLVE_OPAQUE))
    fails_closed(ctx, "R-VERDICT-MAP", runs)
    n = 0
    for run in runs:
        for ev in run.events_of("return"):
            if ev.data["value"] != FALSE:
                continue
            n += 1
            g = show(And(*ev.guards)) if ev.guards else ""
            ok = any(_is_negative_verdict(c) for gd in ev.guards for c in _conjuncts(gd))
            inst = f"SchedulingSolver.solve return False at line {ev.site.lineno} [{describe_config(run)[:80]}]"
            if ok:
                ctx.ok("R-VERDICT-MAP", inst, sample={"guards": g[:300]})
            else:
                ctx.violation("R-VERDICT-MAP", "SchedulingSolver.solve", "False returned without an unsat/unknown verdict",
                              f"`return False` under [{g[:300]}] is not conditioned on the check() result being unsat/unknown",
                              f"processscheduler/solver.py:{ev.site.lineno}")
        rv = run.retval
        if rv == FALSE:
            ctx.violation("R-VERDICT-MAP", "SchedulingSolver.solve", "unconditional False",
                          f"on [{describe_config(run)}] solve() always returns False", "processscheduler/solver.py")
    ctx.floor("R-VERDICT-MAP", "return-False sites", n, 3)
    # check_sat returns the raw result of self._solver.check()
    runs = runs_of(ctx, Entry("method", cls="SchedulingSolver", name="check_sat", opaque=SOLVE_OPAQUE))
    fails_closed(ctx, "R-VERDICT-MAP", runs)
    for run in runs:
        rv = run.retval
        ok = isinstance(rv, tuple) and rv[0] == "tuple" and rv[1][0][0] == "mcall" and rv[1][0][2] == "check" and is_solver_handle(rv[1][0][1])
        if ok:
            ctx.ok("R-VERDICT-MAP", "check_sat returns the result of self._solver.check()")
        else:
            ctx.violation("R-VERDICT-MAP", "SchedulingSolver.check_sat", "result of check() returned unchanged",
                          f"returns {show(rv)[:200] if isinstance(rv, tuple) else rv}", "processscheduler/solver.py")


def r_stream_exact(ctx):
    """everything SchedulingSolver.initialize() hands to the solver belongs to one of the documented groups, each of which is
    decided by its own rule: the drains of the registries (R-DRAIN), `end <= horizon` per task (R-HORIZON), the work amount
    (R-WORK-AMOUNT), the pairwise non-overlap of a worker's busy intervals (R-PAIRWISE), the buffer encoding
    (R-BUF-ENCODING) and the equivalent weighted objective (R-WEIGHTED).  Any other assertion narrows the set of schedules
    beyond what the elements of the problem mean: valid schedules are lost."""
    from rules import tasks as task_rules
    from sa.decide import canon
    where = "SchedulingSolver.initialize"
    SP = S("self.problem")
    n = 0
    found = {}
    for run in task_rules.init_runs(ctx, "R-STREAM-EXACT"):
        for sig, bodies in stream_groups(run).items():
            loops, guards = sig
            for body in bodies:
                n += 1
                first = norm(loops[0][3]) if loops else None
                claimed = None
                if not loops:
                    if "Equivalent" in show(body):
                        claimed = "R-WEIGHTED"
                elif len(loops) == 1 and first == norm(A(SP, "_z3_assertions")) and body == elem(loops[0]):
                    claimed = "R-DRAIN"
                elif len(loops) == 2 and norm(loops[1][3]) == norm(A(elem(loops[0]), "_z3_assertions")) and body == elem(loops[1]):
                    claimed = "R-DRAIN"
                elif first == norm(A(SP, "buffers")):
                    claimed = "R-BUF-ENCODING"
                elif first == norm(task_rules.values_of("tasks")) and len(loops) == 1:
                    t_ = elem(loops[0])
                    if not guards and canon(body) == canon(le(A(t_, "_end"), A(SP, "_horizon"))):
                        claimed = "R-HORIZON"
                    elif any("work_amount" in show(g_) for g_ in guards) and "work_amount" in show(body):
                        claimed = "R-WORK-AMOUNT"
                elif first == norm(task_rules.values_of("workers")) and len(loops) == 3 and "_busy_intervals" in show(loops[1][3]):
                    claimed = "R-PAIRWISE"
                if claimed is None:
                    found.setdefault((show_sig(sig)[:160], show(norm(body))[:200]), describe_config(run))
    for (sg, bd), cfgs in sorted(found.items()):
        ctx.violation("R-STREAM-EXACT", where, f"assertion outside the documented groups: {bd[:80]}",
                      f"initialize() asserts {bd} for [{sg}] (on [{cfgs[:120]}]): it belongs to none of the documented groups - task / "
                      f"resource / constraint / indicator / buffer drains, end <= horizon, work amount, non-overlap, buffer encoding, "
                      f"weighted objective - and removes schedules that every element of the problem allows", "processscheduler/solver.py")
    ctx.floor("R-STREAM-EXACT", "assertion groups classified", n, 200)
    if not found:
        ctx.ok("R-STREAM-EXACT", f"every assertion group of initialize() is one of the documented groups ({n} group instances)")


def r_stream_groups_decided(ctx, skip=()):
    """R-STREAM-EXACT hands every assertion group of initialize() to the rule that decides it: a property that relies on the
    classification runs those rules as well (skip: the ones it already lists)"""
    from rules import tasks as task_rules, buffers, driver
    for name, rule in (("R-DRAIN", task_rules.r_drain), ("R-HORIZON", task_rules.r_horizon), ("R-WORK-AMOUNT", resources.r_work_amount),
                       ("R-PAIRWISE", resources.r_pairwise), ("R-BUF-ENCODING", buffers.r_buf_encoding), ("R-WEIGHTED", driver.r_weighted)):
        if name not in skip:
            rule(ctx)


def r_nothing_left_on_the_stack(ctx):
    """a 'no solution' answer is about the problem only if nothing an earlier call asserted is still on the solver's stack:
    every pushed scope is popped on every exit (R-PUSH-POP), answering methods assert only inside pushed scopes
    (R-SCOPED-ASSERT) - shared with C12 / C13 / C16"""
    from rules import driver
    driver.r_push_pop(ctx)
    driver.r_scoped_assert(ctx)


def r_check_is_fresh(ctx):
    from rules import driver
    driver.r_check_fresh(ctx)


RULES = [
    r_task_exact,
    task_constraints.r_tc_relation,
    resource_constraints.r_rc_relation,
    resource_constraints.r_periodic_core,
    resources.r_pairwise,
    resources.r_busy_bind,
    resources.r_work_amount,
    optional.r_sched_guard,
    r_const_guard,
    r_verdict_map,
    r_nothing_left_on_the_stack,
    r_check_is_fresh,
    r_stream_exact,
    lambda ctx: r_stream_groups_decided(ctx, skip=("R-WORK-AMOUNT", "R-PAIRWISE", "R-BUF-ENCODING")),
    lambda ctx: __import__("rules.logic", fromlist=["x"]).r_fol_table(ctx),
    # an optional constraint binds only when applied: Implies(applied, body) - anything stronger (an equivalence) removes the
    # schedules that satisfy the body partly while the constraint is not applied (R-APPLIED, shared with C10)
    lambda ctx: __import__("rules.logic", fromlist=["x"]).r_single_route(ctx),
    lambda ctx: __import__("rules.indicators", fromlist=["x"]).r_own_exact(ctx),
    # the remaining constraint families are asserted as documented and no tighter: indicator constraints, optional-task rules
    lambda ctx: __import__("rules.indicators", fromlist=["x"]).r_ind_constraint(ctx),
    optional.r_opt_rules,
    # the buffer group of initialize() claimed by R-STREAM-EXACT, and the buffer accesses (registrations, no assertion)
    lambda ctx: __import__("rules.buffers", fromlist=["x"]).r_buf_encoding(ctx),
    lambda ctx: __import__("rules.buffers", fromlist=["x"]).r_buf_pairing(ctx),
]
