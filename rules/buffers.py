"""C09 - buffer levels.

R-BUF-ENCODING  per buffer kind, every assertion of the solver initialisation about a buffer has the documented shape:
                events = starts of unloading tasks + ends of loading tasks, sorted (no duplicates for a non-concurrent
                buffer), tied element-wise to the level change times; final level, lower/upper bound on EVERY level;
                quantities: -q at the start of an unloading task, +q at the end of a loading task, in both encodings;
                recurrence level[i+1] = level[i] + delta(time[i]) for all i (concurrent: unchanged on a repeated time)
R-BUF-PAIRING   every access appends exactly one change time and one level; levels start with the initial level
R-BUF-REGISTER  TaskLoadBuffer / TaskUnloadBuffer register (task, quantity) on the right side
R-SORT-NET      util.sort_no_duplicates: membership of every sorted value + strict chain; util.sort_duplicates: n passes of
                adjacent compare-exchange
R-BUF-REPORT    build_solution reads every level and change time and cleans them with clean_buffer_levels
Oracle: docs/buffer.md, property statement.
"""
from __future__ import annotations

import ast

from sa import project as P
from sa.decide import canon
from sa.interp import Entry
from sa.lib import *
from sa.terms import subterms
from rules import tasks as task_rules
from rules.task_constraints import mandatory_runs

SELF = S("self")
T = lambda n: S(f"self.{n}")


def buffer_kind(run):
    for k, v in run.decisions:
        if k.startswith("isinstance(e#") and "NonConcurrentBuffer" in k and v:
            return "NonConcurrent"
    for k, v in run.decisions:
        if k.startswith("isinstance(e#") and "ConcurrentBuffer" in k and "Non" not in k and v:
            return "Concurrent"
    return None


def spec_items(kind):
    Bf = loop(0, S("self.problem.buffers"))
    b = elem(Bf)
    U = loop("b0.0", A(b, "_unloading_tasks"))
    Ld = loop("b0.0", A(b, "_loading_tasks"))
    events = ("list", (("each", (U,), (), A(elem(U), "_start")), ("each", (Ld,), (), A(elem(Ld), "_end"))))
    sorter = "util.sort_no_duplicates" if kind == "NonConcurrent" else "util.sort_duplicates"
    sc = ("call", sorter, (events,), ())
    levels, times = A(b, "_buffer_levels"), A(b, "_level_changes_time")
    items = []
    L1 = loop(1, idx(sc, 1))
    items.append(((Bf, L1), (), elem(L1)))
    Z = loop(1, ("call", "zip", (idx(sc, 0), times), ()))
    items.append(((Bf, Z), (), eq(idx(elem(Z), 0), idx(elem(Z), 1))))
    items.append(((Bf,), (app("isnot", A(b, "final_level"), NONE),), eq(("idx", levels, K(-1)), A(b, "final_level"))))
    Lv = loop(1, levels)
    items.append(((Bf, Lv), (app("isnot", A(b, "lower_bound"), NONE),), ge(elem(Lv), A(b, "lower_bound"))))
    items.append(((Bf, Lv), (app("isnot", A(b, "upper_bound"), NONE),), le(elem(Lv), A(b, "upper_bound"))))
    Lu, Ll = loop(1, A(b, "_unloading_tasks")), loop(1, A(b, "_loading_tasks"))
    tu, tl = elem(Lu), elem(Ll)
    Li = loop(1, ("range", K(0), sub(("call", "len", (levels,), ()), K(1))))
    i = elem(Li)
    if kind == "NonConcurrent":
        m = ("z3var", "Array", ("fstr", (K("Buffer_"), A(b, "name"), K("_mapping"))))
        items.append(((Bf, Lu), (), eq(m, app("Store", m, A(tu, "_start"), app("neg", ("idx", A(b, "_unloading_tasks"), tu))))))
        items.append(((Bf, Ll), (), eq(m, app("Store", m, A(tl, "_end"), ("idx", A(b, "_loading_tasks"), tl)))))
        items.append(((Bf, Li), (), eq(("idx", levels, add(i, K(1))), add(("idx", levels, i), app("Select", m, ("idx", times, i))))))
    else:
        x = ("z3var", "Int", ("fstr", (K("t_"), A(b, "name"), K("_variable"))))
        fu = lambda t: ("z3func", ("tuple", (K("unloading"), A(b, "name"), A(t, "name"))))
        fl = lambda t: ("z3func", ("tuple", (K("loading"), A(b, "name"), A(t, "name"))))
        items.append(((Bf, Lu), (), app("ForAll", x, If(eq(x, A(tu, "_start")), eq(app("apply", fu(tu), x), app("neg", ("idx", A(b, "_unloading_tasks"), tu))),
                                                        eq(app("apply", fu(tu), x), K(0))))))
        items.append(((Bf, Ll), (), app("ForAll", x, If(eq(x, A(tl, "_end")), eq(app("apply", fl(tl), x), ("idx", A(b, "_loading_tasks"), tl)),
                                                        eq(app("apply", fl(tl), x), K(0))))))

        def delta(at):
            return app("Sum", ("each", (U,), (), app("apply", fu(elem(U)), at)), ("each", (Ld,), (), app("apply", fl(elem(Ld)), at)))
        first = eq(("idx", levels, K(1)), add(("idx", levels, K(0)), delta(("idx", times, K(0)))))
        step = If(eq(("idx", times, i), ("idx", times, sub(i, K(1)))), eq(("idx", levels, add(i, K(1))), ("idx", levels, i)),
                  eq(("idx", levels, add(i, K(1))), add(("idx", levels, i), delta(("idx", times, i)))))
        items.append(((Bf, Li), (eq(i, K(0)),), first))
        items.append(((Bf, Li), (app("not", eq(i, K(0))),), step))
    return items


def r_buf_encoding(ctx):
    where = "SchedulingSolver.initialize"
    seen = set()
    for run in task_rules.init_runs(ctx, "R-BUF-ENCODING"):
        kind = buffer_kind(run)
        if kind is None:
            continue
        seen.add(kind)
        stream = [(l, g, t) for l, g, t, _ in solver_stream(run)
                  if l and norm(l[0][3]) == S("self.problem.buffers") and not (len(l) == 2 and "_z3_assertions" in show(l[1][3]))]
        # the kind test itself is a path condition, not a guard of the emitted items
        def strip(gs):
            return tuple(g for g in gs if "isinstance" not in show(g))
        def canon_func_names(t):
            # the name template of a quantity function is C14's business; here only its kind and its index holes matter
            def f(x):
                if x[0] == "z3func":
                    txt = show(x[1])
                    kind_ = "unloading" if "unloading" in txt else "loading" if "loading" in txt else "?"
                    holes = tuple(sorted((p_ for p_ in (x[1][1] if x[1][0] == "fstr" else ()) if not is_const(p_)), key=show))
                    return ("z3func", ("tuple", (K(kind_),) + holes))
                return None
            return rewrite(t, f)
        stream = [(l, strip(g), canon_func_names(t)) for l, g, t in stream]
        compare_groups(ctx, "R-BUF-ENCODING", where, "processscheduler/solver.py", stream, spec_items(kind),
                       f"{kind} buffer [{describe_config(run)[:90]}]")
    if seen != {"NonConcurrent", "Concurrent"}:
        raise P.AnalysisError(f"R-BUF-ENCODING: buffer kinds reached: {seen}")
    # exhaustiveness over the Buffer subclasses of the class table
    subs = {c.name for c in ctx.project.subclasses("Buffer")}
    if subs == {"NonConcurrentBuffer", "ConcurrentBuffer"}:
        ctx.ok("R-BUF-ENCODING", "both Buffer subclasses have an encoding")
    else:
        ctx.note(f"R-BUF-ENCODING: Buffer subclasses {sorted(subs)}: only NonConcurrentBuffer / ConcurrentBuffer are specified")


def r_buf_pairing(ctx):
    for m, side in (("add_unloading_task", "_unloading_tasks"), ("add_loading_task", "_loading_tasks")):
        runs = runs_of(ctx, Entry("method", cls="Buffer", name=m))
        fails_closed(ctx, "R-BUF-PAIRING", runs)
        where = f"Buffer.{m}"
        for r in runs:
            st = [ev for ev in r.events_of("store") if ev.data["container"][0] == "attr" and ev.data["container"][2].endswith("_tasks")]
            ap = [ev for ev in r.events_of("mcall") if ev.data["name"] == "append"]
            t_app = [ev for ev in ap if ev.data["recv"] == A(SELF, "_level_changes_time")]
            l_app = [ev for ev in ap if ev.data["recv"] == A(SELF, "_buffer_levels")]
            ok_store = len(st) == 1 and st[0].data["container"] == A(SELF, side) and st[0].data["key"] == S("task") \
                and st[0].data["value"] == S("quantity") and not st[0].guards
            ok_pair = len(t_app) == 1 and len(l_app) == 1 and not t_app[0].guards and not l_app[0].guards \
                and all(ev.data["args"][0][0] == "z3var" and ev.data["args"][0][1] == "Int" for ev in t_app + l_app)
            if ok_store:
                ctx.ok("R-BUF-REGISTER", f"{where}: quantity stored under the task in {side}")
            else:
                ctx.violation("R-BUF-REGISTER", where, f"{side}[task] = quantity",
                              f"found stores {[(show(e.data['container']), show(e.data['key']), show(e.data['value'])) for e in st]}",
                              first_line(ctx.project, "Buffer"))
            if ok_pair:
                ctx.ok("R-BUF-PAIRING", f"{where}: one change time and one level appended")
            else:
                ctx.violation("R-BUF-PAIRING", where, "one change time and one level per access",
                              f"{len(t_app)} change time(s) and {len(l_app)} level(s) appended", first_line(ctx.project, "Buffer"))
    runs = runs_of(ctx, Entry("init", cls="Buffer"))
    fails_closed(ctx, "R-BUF-PAIRING", runs)
    n = 0
    for r in runs:
        if r.rejected:
            continue
        n += 1
        from sa.values import PyList
        lv, tm = r.heap.get((SELF, "_buffer_levels")), r.heap.get((SELF, "_level_changes_time"))
        ok = isinstance(lv, PyList) and len(lv.items) == 1 and lv.plain() and isinstance(tm, PyList) and not tm.items
        init_var = lv.items[0].value if ok else None
        own = [e.term for e in r.emissions if e.owner == SELF]
        v = leaf_value(r, "self.initial_level")
        want = [] if (v is not None and v[1] is None) else [eq(init_var, T("initial_level"))]
        ok2 = ok and decide_equiv(ctx, And(*own), And(*want))[0]
        if ok and ok2:
            ctx.ok("R-BUF-PAIRING", f"Buffer.__init__ [{describe_config(r)}]: levels = [initial level], initial level asserted when given")
        else:
            ctx.violation("R-BUF-PAIRING", "Buffer.__init__", "levels start with the initial level",
                          f"on [{describe_config(r)}] level list ok: {ok}; initial-level assertion ok: {ok2}", first_line(ctx.project, "Buffer"))
    ctx.floor("R-BUF-PAIRING", "accepting Buffer.__init__ paths", n, 2)
    for cname, meth, side in (("TaskUnloadBuffer", "add_unloading_task", "_unloading_tasks"), ("TaskLoadBuffer", "add_loading_task", "_loading_tasks")):
        runs = runs_of(ctx, Entry("init", cls=cname))
        fails_closed(ctx, "R-BUF-REGISTER", runs)
        for r in mandatory_runs(runs):
            st = [ev for ev in r.events_of("store") if ev.data["container"] == A(T("buffer"), side)]
            other = [ev for ev in r.events_of("store") if ev.data["container"][0] == "attr" and ev.data["container"][2].endswith("_tasks")
                     and ev not in st]
            if len(st) == 1 and st[0].data["key"] == T("task") and st[0].data["value"] == T("quantity") and not other:
                ctx.ok("R-BUF-REGISTER", f"{cname}: registers (task, quantity) in buffer.{side}")
            else:
                ctx.violation("R-BUF-REGISTER", f"{cname}.__init__", f"registers (task, quantity) in buffer.{side}",
                              f"stores found: {[(show(e.data['container']), show(e.data['key']), show(e.data['value'])) for e in st + other]}",
                              first_line(ctx.project, cname))
            # a buffer access is a registration, not a constraint of its own: the level arithmetic is asserted by the solver from
            # the registered accesses (R-BUF-ENCODING) - anything the access itself asserts narrows the placements
            extra = [e for e in r.emissions if not ("_applied" in show(e.term) and e.term[0] in ("z3var",))]
            for e in extra:
                ctx.violation("R-BUF-REGISTER", f"{cname}.__init__", f"asserts {show(norm(e.term))[:70]}",
                              f"on [{describe_config(r)[:80]}] {cname} asserts {show(norm(e.term))[:200]}: a buffer access only registers "
                              f"(task, quantity); an assertion of its own removes schedules the buffer allows", loc(e))


def _no_dup_semantic(a, cs, z, chain_required=True) -> bool:
    """the two obligations of sort_no_duplicates whatever way the loops are written (over positions or over the elements):
    one fresh integer per input; for every sorted variable, Or over ALL inputs of `variable == input`; one strict chain
    a[i] < a[i + 1] for i = 0 .. n - 2"""
    n = ("call", "len", (z,), ())

    def full_range(L, upper):
        # one round per input: over the positions 0 .. n - 1 or over the inputs themselves
        return (L[3][0] == "range" and len(L[3]) == 3 and L[3][1] == K(0) and same_int(L[3][2], upper)) \
            or (upper == n and norm_iter(L[3]) == z)

    def one_each(t):
        return isinstance(t, tuple) and t and t[0] == "each" and len(t[1]) == 1 and not t[2]
    if not (a[0] == "list" and len(a[1]) == 1 and one_each(a[1][0]) and a[1][0][3][0] == "fresh" and full_range(a[1][0][1][0], n)):
        return False
    La, fresh = a[1][0][1][0], a[1][0][3]
    if not chain_required and cs[0] == "list" and len(cs[1]) == 1:
        cs = ("list", (cs[1][0], None))          # fewer than two values: there is no pair to order
    if not (cs[0] == "list" and len(cs[1]) == 2):
        return False
    mem, chain = cs[1]
    if not (one_each(mem) and full_range(mem[1][0], n)):
        return False
    L1 = mem[1][0]
    var_forms = [("idx", a, elem(L1))] + ([fresh] if L1 == La else [])
    body = mem[3]
    if not (is_app(body, "Or") and len(body) == 3 and one_each(body[2])):
        return False
    L2 = body[2][1][0]
    if norm_iter(L2[3]) == z:
        inp = elem(L2)
    elif full_range(L2, n):
        inp = ("idx", z, elem(L2))
    else:
        return False
    eqt = body[2][3]
    if not (is_app(eqt, "==") and len(eqt) == 4 and ((eqt[2] in var_forms and eqt[3] == inp) or (eqt[3] in var_forms and eqt[2] == inp))):
        return False
    if chain is None:
        return True
    if isinstance(chain, tuple) and chain and chain[0] == "each" and not chain[1] and len(chain[2]) == 1:
        # the chain appended only when there is a pair to order: `if n > 1` / `if len(sorted) >= 2`
        if _pair_state(chain[2][0], z) is not True:
            return False
        chain = chain[3]
    if not (is_app(chain, "And") and len(chain) == 3 and one_each(chain[2])):
        return False
    Lc, c = chain[2][1][0], chain[2][3]
    lo, hi = (c[2], c[3]) if is_app(c, "<") and len(c) == 4 else (c[3], c[2]) if is_app(c, ">") and len(c) == 4 else (None, None)
    if not (lo is not None and lo[0] == "idx" and hi[0] == "idx" and lo[1] == a and hi[1] == a and same_int(hi[2], add(lo[2], K(1)))):
        return False
    # the smaller position p = loop element + k runs over 0 .. n - 2, whatever the range starts from
    from sa.decide import lin
    lp_ = lin(lo[2])
    if not (Lc[3][0] == "range" and len(Lc[3]) == 3 and len(lp_.coef) == 1 and lp_.coef.get(norm(elem(Lc))) == 1):
        return False
    k_ = K(int(lp_.const))
    return same_int(add(Lc[3][1], k_), K(0)) and same_int(add(Lc[3][2], k_), sub(n, K(1)))


def _value_branches(t, guards=()):
    """the alternatives of a value merged from several returns: (guards with their truth value, value)"""
    if isinstance(t, tuple) and t and t[0] == "phi" and len(t) == 4:
        yield from _value_branches(t[2], guards + ((t[1], True),))
        yield from _value_branches(t[3], guards + ((t[1], False),))
    else:
        yield guards, t


def _count(t):
    """number of elements of a sequence term as a term (len(x) for a name); zip(p, p[1:]) has len(p) - 1 pairs"""
    if isinstance(t, tuple) and t and t[0] == "call" and t[1] in ("list", "tuple") and len(t[2]) == 1:
        return _count(t[2][0])
    if isinstance(t, tuple) and t and t[0] == "call" and t[1] == "zip" and len(t[2]) == 2 and not t[3] \
            and t[2][1] == ("idx", t[2][0], ("slice", K(1), K(None), K(None))):
        m = _count(t[2][0])
        return None if m is None else sub(m, K(1))
    if isinstance(t, tuple) and t and t[0] in ("list", "tuple") and len(t[1]) == 1 and t[1][0][0] == "each" \
            and len(t[1][0][1]) == 1 and not t[1][0][2]:
        src = t[1][0][1][0][3]
        if src[0] == "range":
            return length_of(src)
        return _count(norm_iter(src)) if norm_iter(src) != t else None
    m = length_of(t)
    if m is None and isinstance(t, tuple) and t and t[0] in ("sym", "attr"):
        return ("call", "len", (t,), ())
    return m


def _pair_state(g, z):
    """True when the test g holds exactly for two or more inputs, False when exactly for fewer than two, None otherwise.  g is a
    comparison of lengths, or the truth value of a sequence whose length is linear in len(z)"""
    from sa.decide import lin

    def known_len(t):
        if isinstance(t, tuple) and len(t) == 4 and t[0] == "call" and t[1] == "len" and len(t[2]) == 1 and t[2][0] != z:
            m = _count(t[2][0])
            if m is not None:
                return rewrite(m, known_len)
        return None
    nz = ("call", "len", (z,), ())
    g = norm(g)
    neg = False
    while is_app(g, "not") and len(g) == 3:
        g, neg = g[2], not neg
    if is_app(g) and g[1] in ("<", "<=", ">", ">=", "==", "!=") and len(g) == 4:
        l = lin(norm(rewrite(g[2], known_len))).add(lin(norm(rewrite(g[3], known_len))), -1)
        op = g[1]
    else:
        inner = g[2] if is_app(g, "nonempty") and len(g) == 3 else g
        m = _count(inner)
        if m is None:
            return None
        l, op = lin(norm(rewrite(m, known_len))), ">"
    if set(l.coef) - {nz} or l.coef.get(nz, 0) == 0:
        return None
    import operator as _o
    f = {"<": _o.lt, "<=": _o.le, ">": _o.gt, ">=": _o.ge, "==": _o.eq, "!=": _o.ne}[op]
    # a threshold test of a linear form with an integer coefficient: its truth on 0 .. 8 tells which threshold
    table = [f(l.coef[nz] * k + l.const, 0) != neg for k in range(9)]
    if table == [k >= 2 for k in range(9)]:
        return True
    if table == [k < 2 for k in range(9)]:
        return False
    return None


def _no_dup_exact(rv, z, n) -> bool:
    a, cs = rv[1]
    if not (a[0] == "list" and len(a[1]) == 1 and a[1][0][0] == "each" and a[1][0][3][0] == "fresh"
            and canon(a[1][0][1][0][3]) == canon(("range", K(0), n))):
        return False
    Li = loop("b0.0", ("range", K(0), n))
    Lj = loop("b1.0", ("range", K(0), n))
    Lc = loop("b0.0", ("range", K(0), sub(n, K(1))))
    want = ("list", (("each", (Li,), (), app("Or", ("each", (Lj,), (), eq(("idx", a, elem(Li)), ("idx", z, elem(Lj)))))),
                     app("And", ("each", (Lc,), (), lt(("idx", a, elem(Lc)), ("idx", a, add(elem(Lc), K(1))))))))
    return canon(cs) == canon(want)


def _passes_suffice(upper) -> bool:
    """the number of sweeps is len(<list>) + c with c >= -1: n - 1 full sweeps sort n values, fewer do not"""
    from sa.decide import lin
    l = lin(norm(upper))
    lens = [t for t in l.coef if isinstance(t, tuple) and t and t[0] == "call" and t[1] == "len"]
    return len(l.coef) == 1 and len(lens) == 1 and l.coef[lens[0]] == 1 and l.const >= -1


def r_sort_net(ctx):
    # sort_no_duplicates
    fn = ctx.project.function("util", "sort_no_duplicates")
    z = S(fn.args.args[0].arg)
    runs = runs_of(ctx, Entry("func", module="util", name="sort_no_duplicates"))
    fails_closed(ctx, "R-SORT-NET", runs)
    n = ("call", "len", (z,), ())
    for r in runs:
        # a path on which the list is known to have fewer than two values has no pair to order
        short = any(("len(" in k_ and (">= 2" in k_ or "> 1" in k_) and v_ is False) or ("len(" in k_ and ("< 2" in k_ or "<= 1" in k_) and v_ is True)
                    for k_, v_ in r.decisions)
        ok, seen = True, 0
        for guards, rv in _value_branches(r.retval):
            states = {(_pair_state(g, z) is v) if _pair_state(g, z) is not None else None for g, v in guards}
            if True in states and False in states:
                continue                            # `fewer than two` and `at least two` at once: not a path
            if not (isinstance(rv, tuple) and rv[0] == "tuple" and len(rv[1]) == 2):
                ok = False
                break
            seen += 1
            ok = _no_dup_exact(rv, z, n) or _no_dup_semantic(rv[1][0], rv[1][1], z, chain_required=not (short or False in states))
            if not ok:
                break
        rv = r.retval
        if ok and seen:
            ctx.ok("R-SORT-NET", "util.sort_no_duplicates: every sorted value is one of the inputs, strictly increasing chain",
                   sample={"returns": show(norm(rv))[:300]})
        else:
            ctx.violation("R-SORT-NET", "util.sort_no_duplicates", "membership of every sorted value + strict chain",
                          f"returns {show(norm(rv))[:400] if isinstance(rv, tuple) else rv}", "processscheduler/util.py")
    # sort_duplicates: compare-exchange sweep
    outer_fn = ctx.project.function("util", "sort_duplicates")
    if not any(isinstance(x, ast.FunctionDef) and x.name == "bubble_up" for x in ast.walk(outer_fn) if x is not outer_fn):
        return _sort_net_inline(ctx)
    runs = runs_of(ctx, Entry("func", module="util", name="sort_duplicates.bubble_up"))
    fails_closed(ctx, "R-SORT-NET", runs)
    for r in runs:
        rv = r.retval
        ok = isinstance(rv, tuple) and rv[0] == "tuple" and len(rv[1]) == 2
        detail = ""
        if ok:
            arr, asst = rv[1]
            ok = asst[0] == "list" and len(asst[1]) == 1 and asst[1][0][0] == "each" and len(asst[1][0][1]) == 1 and not asst[1][0][2]
        if ok:
            L = asst[1][0][1][0]
            src = L[3]
            ok = src[0] == "range" and canon(src[1]) == canon(K(0)) and "len(" in show(src[2]) and canon(src[2]) == canon(sub(src[2][1][0][1] if False else src[2], K(0)))
            body = asst[1][0][3]
            stores = [ev for ev in r.events_of("store")]
            fresh = [s for s in subterms(body) if s and s[0] == "fresh"]
            fr = []
            for f_ in fresh:
                if f_ not in fr:
                    fr.append(f_)
            ok = ok and is_app(body, "If") and len(fr) == 2
            if ok:
                cond, th, el = body[2], body[3], body[4]
                from sa.decide import canon_atom
                ca = canon_atom(cond)
                x, y = (cond[2], cond[3]) if is_app(cond) and cond[1] in ("<=", "<") else \
                    (cond[3], cond[2]) if is_app(cond) and cond[1] in (">=", ">") else (None, None)
                ok = x is not None and x[0] == "idx" and y[0] == "idx" and canon(y[2]) == canon(add(x[2], K(1))) and x[1] == y[1] \
                    and cond[1] in ("<=", ">=")
                if ok:
                    x1, y1 = None, None
                    # which fresh constant is stored at i and which at i + 1
                    for ev in stores:
                        if canon(ev.data["key"]) == canon(x[2]):
                            x1 = ev.data["value"]
                        if canon(ev.data["key"]) == canon(y[2]):
                            y1 = ev.data["value"]
                    ok = x1 in fr and y1 in fr and x1 != y1
                    if ok:
                        want = If(le(x, y), And(eq(x1, x), eq(y1, y)), And(eq(x1, y), eq(y1, x)))
                        ok = canon(body) == canon(want)
                    # the sweep covers all adjacent pairs
                    ok = ok and canon(src[2]) == canon(sub(("call", "len", (x[1],), ()), K(1)))
        if ok:
            ctx.ok("R-SORT-NET", "util.sort_duplicates.bubble_up: full sweep of adjacent compare-exchange (smaller first)",
                   sample={"exchange": show(norm(body))[:300]})
        else:
            ctx.violation("R-SORT-NET", "util.sort_duplicates.bubble_up", "adjacent compare-exchange sweep",
                          f"returns {show(norm(rv))[:400] if isinstance(rv, tuple) else rv}", "processscheduler/util.py")
    runs = runs_of(ctx, Entry("func", module="util", name="sort_duplicates", opaque=("bubble_up",)))
    fails_closed(ctx, "R-SORT-NET", runs)
    fn = ctx.project.function("util", "sort_duplicates")
    z = S(fn.args.args[0].arg)
    for r in runs:
        calls = [ev for ev in r.events_of("call") if "bubble_up" in ev.data["name"]]
        ok = len(calls) == 1 and len(calls[0].loops) == 1 and calls[0].loops[0][3][0] == "range" \
            and canon(calls[0].loops[0][3][1]) == canon(K(0)) and _passes_suffice(calls[0].loops[0][3][2]) \
            and calls[0].data["args"][0][0] == "carried"
        rv = r.retval
        ok = ok and isinstance(rv, tuple) and rv[0] == "tuple" and rv[1][0][0] == "loopout" and "bubble_up" in show(rv[1][0][4]) \
            and rv[1][1][0] == "list" and "bubble_up" in show(rv[1][1])
        if ok:
            ctx.ok("R-SORT-NET", "util.sort_duplicates: len(list) passes, each on the result of the previous one, all exchange "
                                 "assertions returned")
        else:
            ctx.violation("R-SORT-NET", "util.sort_duplicates", "n passes of the sweep, chained",
                          f"calls: {[(show(c.data['args'][0])[:60], [show(l[3])[:60] for l in c.loops]) for c in calls]}; returns "
                          f"{show(norm(rv))[:200] if isinstance(rv, tuple) else rv}", "processscheduler/util.py")


def _sort_net_inline(ctx):
    """util.sort_duplicates written without a sweep helper: nested loops `for each pass: for each adjacent pair:` over a working
    copy updated in place.  Same obligations as the helper form: enough passes (len + c, c >= -1), every pass starts from the
    result of the previous one, the inner loop visits every adjacent pair (p, p + 1), p = 0 .. n - 2, the exchange is
    If(x <= y, (x1, y1) == (x, y), (x1, y1) == (y, x)) with x1 written at p and y1 at p + 1, every exchange assertion is returned,
    and the list returned is the working list after the last pass"""
    from sa.decide import lin
    where = "util.sort_duplicates"
    fn = ctx.project.function("util", "sort_duplicates")
    z = S(fn.args.args[0].arg)
    runs = runs_of(ctx, Entry("func", module="util", name="sort_duplicates"))
    fails_closed(ctx, "R-SORT-NET", runs)
    for r in runs:
        if r.rejected:
            continue
        rv = r.retval
        why = None
        if not (isinstance(rv, tuple) and rv[0] == "tuple" and len(rv[1]) == 2):
            raise P.AnalysisError(f"R-SORT-NET: {where}: neither a sweep helper nor a (list, assertions) pair built by nested loops")
        out_list, assts = rv[1]
        eaches = [i for i in (assts[1] if assts[0] == "list" else ()) if isinstance(i, tuple) and i and i[0] == "each"]
        if assts[0] != "list" or len(assts[1]) != 1 or len(eaches) != 1 or len(eaches[0][1]) != 2:
            raise P.AnalysisError(f"R-SORT-NET: {where}: the exchange assertions are not one family over (pass, position): "
                                  f"{show(assts)[:200]}")
        (Lp, Li), guards, body = eaches[0][1], eaches[0][2], eaches[0][3]
        n_len = ("call", "len", (z,), ())

        def as_len(t):
            """bounds written with len(<copy of the input>) or a local holding it are len(input)"""
            def f(x):
                if isinstance(x, tuple) and len(x) == 4 and x[0] == "call" and x[1] == "len" and len(x[2]) == 1 and z in subterms(x[2][0]) \
                        and not any(isinstance(q, tuple) and q and q[0] in ("each", "idx") for q in subterms(x[2][0])):
                    return n_len
                return None
            return rewrite(norm(t), f)
        if guards:
            why = f"exchanges are filtered by {[show(g)[:60] for g in guards]}"
        elif not (Lp[3][0] == "range" and Lp[3][1] == K(0) and _passes_suffice(as_len(Lp[3][2]))):
            why = f"the passes range over {show(Lp[3])[:80]}: fewer than len - 1 sweeps do not sort"
        elif not (is_app(body, "If") and len(body) == 5):
            why = f"the exchange is not an If: {show(body)[:120]}"
        else:
            cond, th, el_ = body[2], body[3], body[4]
            if not (is_app(cond) and cond[1] in ("<=", ">=") and len(cond) == 4):
                why = f"the exchange tests {show(cond)[:80]}, not `x <= y`"
            else:
                x, y = (cond[2], cond[3]) if cond[1] == "<=" else (cond[3], cond[2])
                same_list = x[0] == "idx" and y[0] == "idx" and x[1] == y[1]
                px, py = (x[2], y[2]) if same_list else (None, None)
                if same_list and same_int(px, add(py, K(1))):
                    why = f"the exchange keeps the pair when {show(cond)[:100]}: the larger value stays first"
                elif not same_list or not same_int(py, add(px, K(1))):
                    why = f"the exchange compares {show(x)[:60]} and {show(y)[:60]}: not two adjacent positions of one list"
                else:
                    # the inner loop: positions p = 0 .. n - 2
                    e_i = elem(Li)
                    lp_ = lin(norm(px))
                    ok_pos = Li[3][0] == "range" and len(lp_.coef) == 1 and lp_.coef.get(norm(e_i)) == 1 \
                        and same_int(add(Li[3][1], K(int(lp_.const))), K(0)) \
                        and same_int(add(as_len(Li[3][2]), K(int(lp_.const))), sub(n_len, K(1)))
                    if not ok_pos:
                        why = f"position {show(px)[:40]} for {show(e_i)} in {show(Li[3])[:80]} does not run over 0 .. len - 2"
                    else:
                        stores = [ev for ev in r.events_of("store") if ev.data["container"] == x[1] and tuple(ev.loops) == (Lp, Li)]
                        at = {}
                        for ev in stores:
                            if same_int(ev.data["key"], px):
                                at["p"] = ev.data["value"]
                            elif same_int(ev.data["key"], py):
                                at["q"] = ev.data["value"]
                        x1, y1 = at.get("p"), at.get("q")
                        if not (len(stores) == 2 and x1 is not None and y1 is not None and x1 != y1 and x1[0] == "fresh" and y1[0] == "fresh"):
                            why = "the two fresh results are not written back at the two compared positions"
                        else:
                            want = If(le(x, y), And(eq(x1, x), eq(y1, y)), And(eq(x1, y), eq(y1, x)))
                            if canon(body) != canon(want):
                                why = f"the exchange {show(norm(body))[:200]} does not put the smaller value first"
                            else:
                                # the working list: a copy of the list carried from pass to pass, which is what is returned
                                work = x[1]
                                chained = isinstance(work, tuple) and any(isinstance(q, tuple) and q and q[0] == "carried" and q[2] == Lp
                                                                           for q in subterms(work))
                                returned = isinstance(out_list, tuple) and out_list[0] == "loopout" and out_list[2] == Lp \
                                    and norm(out_list[4]) == norm(work) and z in subterms(out_list[3])
                                if not chained:
                                    why = "a pass does not start from the result of the previous pass"
                                elif not returned:
                                    why = f"the list returned ({show(out_list)[:120]}) is not the working list after the last pass"
        if why is None:
            ctx.ok("R-SORT-NET", f"{where} (inline form): enough chained passes of a full adjacent compare-exchange sweep, all exchange "
                                 f"assertions and the final working list returned", sample={"exchange": show(norm(body))[:300]})
        else:
            ctx.violation("R-SORT-NET", where, "chained passes of a full adjacent compare-exchange sweep", why, "processscheduler/util.py")


def r_buf_report(ctx):
    runs = runs_of(ctx, Entry("method", cls="SchedulingSolver", name="build_solution", opaque=("clean_buffer_levels",)))
    fails_closed(ctx, "R-BUF-REPORT", runs)
    where = "SchedulingSolver.build_solution"
    for r in runs:
        if r.rejected:
            continue
        calls = [ev for ev in r.events_of("call") if "clean_buffer_levels" in ev.data["name"]]
        ok = len(calls) == 1 and len(calls[0].loops) == 1 and norm(calls[0].loops[0][3]) == S("self.problem.buffers") and not calls[0].guards
        if ok:
            b = ("elem", calls[0].loops[0])
            a0, a1 = calls[0].data["args"][0], calls[0].data["args"][1]

            def reads_all(lst, attr):
                if not (lst[0] == "list" and len(lst[1]) == 1 and lst[1][0][0] == "each" and len(lst[1][0][1]) == 1 and not lst[1][0][2]):
                    return False
                L = lst[1][0][1][0]
                return norm(L[3]) == norm(A(b, attr)) and lst[1][0][3] == ("mcall", ("idx", S("z3_sol"), ("elem", L)), "as_long", (), ())
            ok = reads_all(a0, "_buffer_levels") and reads_all(a1, "_level_changes_time")
        if ok:
            ctx.ok("R-BUF-REPORT", f"{where}: every level and change time read from the model, cleaned, stored per buffer")
        else:
            ctx.violation("R-BUF-REPORT", where, "levels and change times of every buffer reported",
                          f"clean_buffer_levels calls: {[[show(a)[:120] for a in c.data['args']] for c in calls]}", "processscheduler/solver.py")


def r_clean_paired(ctx):
    """the reported sequence pairs level k+1 with change time k.  util.clean_buffer_levels folds simultaneous accesses (repeated
    change times of a concurrent buffer): the two lists stay paired only if one selection decides both - the level at a position
    is kept exactly when the change time at that position is kept, and that decision looks at the times only (the level does
    not move at a repeated instant, but equal consecutive levels at different instants are two steps)"""
    where = "util.clean_buffer_levels"
    fn = ctx.project.function("util", "clean_buffer_levels")
    p_lv, p_tm = S(fn.args.args[0].arg), S(fn.args.args[1].arg)
    runs = runs_of(ctx, Entry("func", module="util", name="clean_buffer_levels"))
    fails_closed(ctx, "R-CLEAN-PAIRED", runs)
    n = 0
    for r in runs:
        if r.rejected:
            continue
        n += 1
        rv = r.retval
        why = None
        shape = None
        if not (isinstance(rv, tuple) and rv[0] == "tuple" and len(rv[1]) == 2):
            shape = "does not return a (levels, times) pair"
        elif p_tm not in subterms(rv[1][0]):
            # dataflow, whatever the spelling: whether the level at a position is reported depends on whether its instant is a
            # repeated one - the reported levels cannot be a function of the levels alone
            why = "the reported levels do not depend on the change times (each list is cleaned on its own)"
        else:
            lv, tm = norm(rv[1][0]), norm(rv[1][1])
            sel_l = [i for i in (lv[1] if lv[0] == "list" else ()) if i and i[0] == "each"]
            sel_t = [i for i in (tm[1] if tm[0] == "list" else ()) if i and i[0] == "each"]
            if lv[0] != "list" or tm[0] != "list" or len(sel_l) != 1 or len(sel_t) != 1:
                shape = "levels and times are not each built by one selection over the positions"
            elif len(tm[1]) != 1 or len(lv[1]) != 2 or lv[1][1] != sel_l[0]:
                shape = "levels are not the initial level followed by one selection, times one selection"
            else:
                el, et = sel_l[0], sel_t[0]
                first = lv[1][0]
                if not (p_lv in subterms(first) and p_tm not in subterms(first)):
                    why = "the first reported level is not the initial level"
                elif el[1] != et[1]:
                    why = "levels and times are selected by different loops"
                elif tuple(el[2]) != tuple(et[2]):
                    why = "levels and times are kept under different conditions"
                else:
                    L = el[1][-1]
                    e = elem(L)
                    src = L[3]

                    bl, bt = el[3], et[3]
                    sl, st_ = sequence_at_position(bl, L), sequence_at_position(bt, L)
                    comp = {bl: sl, bt: st_}
                    ok_l = sl is not None and p_lv in subterms(sl) and p_tm not in subterms(sl)
                    ok_t = st_ is not None and p_tm in subterms(st_) and p_lv not in subterms(st_)
                    if not (ok_l and ok_t):
                        why = "the kept level / time are not the two components of the same position"
                    else:
                        lvl_reads = [g for g in el[2] if bl in subterms(g)]
                        tm_reads = [g for g in el[2] if bt in subterms(g)]
                        if lvl_reads:
                            why = "the selection depends on the level; it must depend on the change time only (first occurrence of an instant)"
                        elif el[2] and not tm_reads:
                            why = "the selection does not read the change time (first occurrence of an instant)"
        if shape is not None:
            raise P.AnalysisError(f"R-CLEAN-PAIRED: {where}: {shape} - this way of writing the function is not modelled: "
                                  f"{show(rv)[:200] if isinstance(rv, tuple) else rv}")
        if why is None:
            ctx.ok("R-CLEAN-PAIRED", f"{where}: one selection over the (level, time) positions, decided by the time, keeps both",
                   sample={"returns": show(rv)[:300]})
        else:
            ctx.violation("R-CLEAN-PAIRED", where, "levels and change times selected together",
                          f"{why}: returns {show(rv)[:360] if isinstance(rv, tuple) else rv} - the reported level k+1 no longer "
                          f"belongs to the reported change time k when accesses coincide or consecutive levels are equal",
                          "processscheduler/util.py")
    ctx.floor("R-CLEAN-PAIRED", "accepting paths of clean_buffer_levels", n, 1)


RULES = [r_buf_encoding, r_buf_pairing, r_sort_net, r_buf_report, lambda ctx: task_rules.r_drain(ctx, only=("buffers",)), r_clean_paired,
         # the reported level sequence is read from the solution: the renderers / exporters leave it as the solver reported it
         lambda ctx: __import__("rules.exports", fromlist=["x"]).r_report_readonly(ctx)]
