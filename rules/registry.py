"""property id -> rules"""
from rules import task_constraints

PROPERTIES = {
    "C03": {
        "rules": task_constraints.RULES,
        "explanation": "Static analysis of the constraint constructors: for every TaskConstraint subclass and every "
                       "configuration of its Literal/optional/None-able fields the z3 term that reaches the assertion "
                       "sink is reconstructed from the source (no execution) and decided equivalent to the documented "
                       "relation by canonical linear atoms, truth tables and exhaustive weak-ordering enumeration.",
    },
}
