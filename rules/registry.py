"""property id -> rules"""
from rules import task_constraints
from sa.selftest import self_test_rule

NOTES = ("Every check decides structural clauses (necessary conditions) of its property from /repo's source as parsed on "
         "that run; none constructs a problem, imports processscheduler or calls a solver. Clauses outside the reach of "
         "static analysis are listed per property in DESIGN.md section 7.")
NOT_APPLICABLE = {}

PROPERTIES = {
    "C03": {
        "rules": task_constraints.RULES,
        "thorough": [self_test_rule("C03")],
        "level_text": "Every TaskConstraint constructor is translated, per configuration of its Literal / optional / "
                      "None-able fields, into the z3 term it hands to the assertion sink; that term is decided equivalent "
                      "to the documented relation for all parameter values and all task placements (exhaustive weak-ordering "
                      "enumeration, canonical linear atoms). Covers every schedule at once, which tests cannot.",
        "level_note": "Decides the emitted relation per class x kind (reading: all tasks scheduled) and the count polarity of "
                      "ScheduleNTasksInTimeIntervals; trusted: z3 returns models of what is asserted, the sorted-copy helper "
                      "(checked under C09), the spec rows in rules/task_constraints.py (cited from docs/task_constraints.md). "
                      "The scheduled-guard clause is decided by C06's check.",
        "explanation": "Static analysis of the constraint constructors: for every TaskConstraint subclass and every "
                       "configuration of its Literal/optional/None-able fields the z3 term that reaches the assertion "
                       "sink is reconstructed from the source (no execution) and decided equivalent to the documented "
                       "relation by canonical linear atoms, truth tables and exhaustive weak-ordering enumeration.",
    },
}
