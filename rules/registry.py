"""property id -> rules"""
from rules import task_constraints, tasks, optional, logic, resources, resource_constraints, completeness, indicators, buffers, driver, solution, exports, naming, validation
from sa.selftest import self_test_rule

NOTES = ("Every check decides structural clauses (necessary conditions) of its property from /repo's source as parsed on "
         "that run; none constructs a problem, imports processscheduler or calls a solver. Clauses outside the reach of "
         "static analysis are listed per property in DESIGN.md section 7.")
NOT_APPLICABLE = {}

PROPERTIES = {
    "C18": {
        "rules": validation.RULES,
        "thorough": [self_test_rule("C18")],
        "level_text": "The declared constraint of each field the property names (30 rows: integer intervals, list lengths, "
                      "Literal value sets, strict booleans, extra='forbid' on every model class) equals the specification in both "
                      "directions (not looser, not tighter), read from the class table; each of the 8 registry methods tests "
                      "membership of the key it stores under and raises before storing; every self-registering class registers "
                      "exactly once on every accepting path, under its final name; the explicit rejections (no active problem, "
                      "optional-only rules, force-apply over a mandatory constraint, more workers than listed, unassigned "
                      "resource, buffer without level, bounds both None, non-Resource / duplicate required resource) exist, test "
                      "the right predicate and precede the effects they protect; every attribute read on a receiver of known "
                      "class resolves (no AttributeError for a well-formed input).",
        "level_note": "pydantic's own enforcement of the declared annotations is trusted; lax-mode coercions ('3' -> 3) are not "
                      "analysed.",
        "explanation": "Static analysis of the class table (fields, constraints, configs) and of every constructor / registry "
                       "method on the extracted IR (raise events with their guards, registry stores, attribute resolution).",
    },
    "C14": {
        "rules": naming.RULES,
        "thorough": [self_test_rule("C14")],
        "level_text": "The channels through which names, declaration order or an earlier problem can reach the constraint "
                      "system are decided: every one of the 31 z3-constant creation sites names its constant with a template that "
                      "carries the identity of everything the constant is indexed by (owner name or uuid, one hole per enclosing "
                      "loop), and templates of different sites do not coincide; task numbers and the negative counter only flow "
                      "into moved-to-the-past equalities; registry positions are only used on single-element branches; no emitted "
                      "term uses an escaped loop variable; the global active problem has one writer and is read only inside element "
                      "constructors; no module-level mutable state is written at run time; every z3 global option is re-set by "
                      "every solver constructor; the solver phase creates no model element; no reporter branches on the content "
                      "of a name.",
        "level_note": "Cross-site injectivity assumes element names free of the templates' separator fragments (the adversarial "
                      "case is one recorded finding). NOT decided: that z3 gives equal verdicts / optima on constraint systems "
                      "that are equal up to renaming or permutation (solver determinism).",
        "explanation": "Static analysis over all constructors and the solver: name-template analysis of the z3 constant creation "
                       "events, dataflow of order-dependent values in emitted terms, AST scans for the global cell and module state.",
    },
    "C16": {
        "rules": exports.C16_RULES,
        "thorough": [self_test_rule("C16")],
        "level_text": "The correspondence tables and coordinate arithmetic of the exporters are decided on the extracted IR: "
                      "every data-frame column is fed, one row per task of the unfiltered dict, from the TaskSolution attribute of "
                      "its label; to_csv writes exactly to_df(); both Gantt worksheets place an item at row index+1, first column "
                      "start+1, last column end, merged iff end - start > 1, with the documented text, unscheduled tasks skipped; "
                      "the indicators sheet writes (name, value) per indicator; export_to_smt2 serialises the very handle check() "
                      "runs on with a method that exists on every class the handle can hold (library surface read from the z3 "
                      "module); to_json excludes only `problem`, the solution models hide no field, the JSON type registry maps "
                      "names to the classes of those names.",
        "level_note": "NOT decided: byte-level content of what pydantic / pandas / xlsxwriter write, JSON round-trip equality, "
                      "and that the SMT-LIB text is satisfiable exactly when the problem is (z3 printer/parser).",
        "explanation": "Static analysis of solution.py / excel_io.py / solver.py / base.py / problem.py: IR extraction of the "
                       "calls made to the export libraries and canonical-form comparison of their arguments.",
    },
    "C17": {
        "rules": exports.C17_RULES,
        "thorough": [self_test_rule("C17")],
        "level_text": "Per render mode, the multiplicity and arithmetic of the drawing calls are decided on the extracted IR: "
                      "Task mode draws exactly one bar per element of get_scheduled_tasks() (none for unscheduled tasks), Resource "
                      "mode one per element of every resource's assignments, unconditionally; the bar's x-extent is (start, length) "
                      "with a centred marker of positive constant width for zero length, the label sits at start + length/2; the row "
                      "is (2i, 2) with i the enumerate index of the same dict whose keys label the ticks; the buffer step plot uses "
                      "x = [0] + change times + [horizon] with segment k at level[k].",
        "level_note": "The matplotlib contract broken_barh([(xmin, width)], (ymin, height)) / text(x, y) is a small trusted "
                      "table. NOT decided: that rendering succeeds for every solution and what matplotlib rasterises. The plotly "
                      "renderer is not covered (its tests are failing in the baseline: plotly is not installed).",
        "explanation": "Static analysis of plotter.py:render_gantt_matplotlib on the extracted IR (loops, guards and argument "
                       "terms of the draw calls), canonical linear forms for the coordinates.",
    },
    "C11": {
        "rules": solution.RULES,
        "thorough": [self_test_rule("C11")],
        "level_text": "Dataflow inside build_solution, per configuration (horizon given or not, calendar settings, task class): "
                      "start / end / duration / scheduled of every task of the unfiltered registry are read from the model value of "
                      "exactly the constants the task rules constrain (duration chain exhaustive over the task classes); the task "
                      "view and the resource view derive from the same busy-interval entry under predicates that are order-type-"
                      "equivalent given start <= end of a busy interval; assignment tuples are (task name, start, end); the "
                      "cumulative-unit marker agrees between writer and readers; reported horizon; calendar times as canonical "
                      "linear forms.",
        "level_note": "'Unscheduled tasks carry no assignment' and 'horizon >= every end' hold given the encodings decided by "
                      "C01/C02/C06 - the conditional is stated, the model values themselves are runtime. Trusted: z3 model API.",
        "explanation": "Static dataflow analysis of solver.py:build_solution on the extracted IR (attribute writes, list "
                       "appends with their guards and loops), order-type equivalence of the two assignment predicates.",
    },
    "C07": {
        "rules": driver.C07_RULES,
        "thorough": [self_test_rule("C07")],
        "level_text": "The structure of the optimisation driver is decided on the statement CFG and the extracted IR: one direction table from Objective.kind through solve() ('min'/'max'), the strict comparator asserted in the improvement loop, the bound consulted (_bounds[0]/[1]) and minimize()/maximize() on the Optimize handle, for all 13 built-in objectives; typestate of the improvement loop (model() only after a check that is neither unsat nor unknown; the returned schedule is only ever that model; every way back to the next check passes through push() and the strict bound on the value just read; nothing is popped inside the loop); the weighted objective is Sum(weight*target) over every objective; Optimize handle iff optimizer=='optimize' and an objective exists.",
        "level_note": 'NOT decided: that the final unsat means no better schedule exists and that z3.Optimize returns an optimum (solver behaviour); agreement of the two optimisers follows from those. The last-declared-objective direction of the weighted objective is reported under C14.',
        "explanation": 'Static analysis of solver.py / objective.py: CFG must-pass-through and forward must-analysis for the loop typestate; IR extraction for the asserted bound, the direction table and the objective wiring.',
        "technique": "static analysis: statement CFG (must-pass-through, typestate) + AST-to-term IR extraction",
    },
    "C12": {
        "rules": driver.C12_RULES,
        "thorough": [self_test_rule("C12")],
        "level_text": 'find_another_solution is shown to add exactly one clause, outside any pushed scope, that is the disjunction over every task of the unfiltered registry of start != model value, end != model value and (optional tasks) scheduled != model value, each compared with the model value of the same constant, then to return solve(); find_another_solution_for_variable adds variable != its model value; both reject a call without a model; no chained comparison over non-trivial operands exists in the package (positive fixture kept).',
        "level_note": 'NOT decided: that repeating the request visits every distinct timing exactly once - a property of the sequence of models z3 returns under accumulating clauses (a history, for a model checker or an enumeration test).',
        "explanation": 'Static analysis of solver.py: canonical-form comparison of the blocking clause reconstructed from the source; AST scan for chained comparisons.',
        "technique": "static analysis: statement CFG (must-pass-through, typestate) + AST-to-term IR extraction",
    },
    "C13": {
        "rules": driver.C13_RULES,
        "thorough": [self_test_rule("C13")],
        "level_text": 'Typestate over the solver handle for every method of SchedulingSolver: each push() is matched by a pop on every exit (counter idiom or same-iteration pop), initialize() is only reached under `not self._initialized` and records that it ran, _model is only written from a model obtained after a sat verdict, and no solver method creates self-registering model elements or writes a problem registry.',
        "level_note": 'NOT decided: Pareto walking (state internal to z3.Optimize).',
        "explanation": 'Static analysis of solver.py: CFG path analysis (push/pop balance, guarded initialisation, model typestate) and effect analysis of the solver methods on the extracted IR.',
        "technique": "static analysis: statement CFG (must-pass-through, typestate) + AST-to-term IR extraction",
    },
    "C15": {
        "rules": driver.C15_RULES,
        "thorough": [self_test_rule("C15")],
        "level_text": 'Non-interference of the performance options, decided on the source: no test in the assertion-building methods mentions parallel / random_values / verbosity / max_time / max_iter / save_intermediate_states; the normalised assertion stream of initialize() is identical for every value of debug and logics (pairwise over all configurations) and differs between optimizers only by the definitional atoms of the equivalent objective; every z3 global option key is set on all paths of the constructor with the documented value; solver handle selection.',
        "level_note": "NOT decided: that two configurations agree on feasibility and optimum - that is z3's behaviour on equal inputs; what is decided is that the inputs ARE equal.",
        "explanation": 'Static analysis of solver.py: control-dependence scan, pairwise comparison of extracted assertion streams across configurations, option table.',
        "technique": "static analysis: statement CFG (must-pass-through, typestate) + AST-to-term IR extraction",
    },
    "C19": {
        "rules": driver.C19_RULES,
        "thorough": [self_test_rule("C19")],
        "level_text": "In debug mode every assertion is tracked under a fresh label and none goes through add(); the label is mapped to the owner name exactly when a name is passed; only the constraint drain passes a name, the constraint's own, together with that constraint's assertion list; the reader lists problem.constraints[map[label]] for labels of the unsat core found in the map. Together with C15's stream equality this gives: every listed constraint is a constraint of the problem, and debug mode asserts the same system.",
        "level_note": "NOT decided: that the listed set together with the basic rules is really unsatisfiable (z3's unsat-core soundness) and uniqueness of the 8-hex-digit labels (a probability).",
        "explanation": 'Static analysis of solver.py: value-set analysis of the label map writer / reader, debug-route completeness on the extracted IR.',
        "technique": "static analysis: statement CFG (must-pass-through, typestate) + AST-to-term IR extraction",
    },
    "C09": {
        "rules": buffers.RULES,
        "thorough": [self_test_rule("C09")],
        "level_text": "Per buffer kind, the complete set of assertions the solver initialisation emits about a buffer is "
                      "reconstructed and compared, group by group, with the documented encoding: access events are the starts of "
                      "unloading tasks and the ends of loading tasks, sorted by the sorter of that kind and tied element-wise to "
                      "the change times; -quantity for unloading and +quantity for loading in both the array and the quantified-"
                      "function encoding; the recurrence level[i+1] = level[i] + delta(time[i]) over ALL i (concurrent: level kept "
                      "on a repeated time); final level on the last level; bounds on every level. The two sorters, the "
                      "one-time/one-level pairing per access, the registration of (task, quantity) and the reported level lists "
                      "are checked too.",
        "level_note": "NOT decided: that the array-store / ForAll encodings mean 'sum of the quantities at that instant' (z3 "
                      "theory semantics) and the step function for every interleaving of simultaneous accesses (model "
                      "checking); clean_buffer_levels' de-duplication is a runtime list operation. The unscheduled-task defect is "
                      "reported by C06.",
        "explanation": "Static analysis of solver.py / buffer.py / util.py / task_constraint.py on the extracted IR: exact "
                       "group-wise comparison of the buffer assertion stream with the specification, structural rules for the "
                       "sorters and the access registration.",
    },
    "C08": {
        "rules": indicators.RULES + [driver.r_bound_asserted],
        "thorough": [self_test_rule("C08")],
        "level_text": "For each indicator class (and each indicator built inside an objective) and each configuration, the "
                      "expression equated with the indicator variable is reconstructed and compared, in a deep canonical form "
                      "(canonical comparison atoms, sorted linear forms, alpha-normalised sums), with the documented definition: "
                      "utilisation = (sum of busy lengths * 100) / horizon on both horizon branches, tasks assigned, tardiness, "
                      "earliness, tardy count, max lateness and buffer extrema through get_maximum/get_minimum (themselves "
                      "checked), cost (constant part + trapezoid/2 with the cumulative fan-out), idle time over sorted copies, "
                      "flow time / weighted completion / weighted start. Also: no python truncation before scaling, distinct "
                      "default names, the value stored in the solution is the model value of that indicator's variable under "
                      "that indicator's name, IndicatorTarget/Bounds. Cost Function classes (function.py): the callable "
                      "each class installs is applied to a symbolic argument and compared with its documented form "
                      "(constant, slope*x+intercept; the polynomial by its loop invariant: index/power pairing, start values, "
                      "range, skip test), and Function.__call__ returns that callable's value for its own argument.",
        "level_note": "User expressions and GeneralFunction costs are opaque terms (only 'emitted as written' is decided). "
                      "ObjectiveMinimizeFlowtimeSingleResource's min/max encoding is not specified by the docs and is only "
                      "covered by the inertness analysis (C06). Integer division is z3's. Trusted: z3, pydantic.",
        "explanation": "Static analysis of indicator.py / objective.py / function.py / indicator_constraint.py / util.py / solver.py: "
                       "canonical-form comparison of each defining expression with its specification row.",
    },
    "C05": {
        "rules": completeness.RULES,
        "thorough": [self_test_rule("C05")],
        "level_text": "Completeness of the encoder is not decidable as a whole by static analysis; this check decides the "
                      "necessary conditions visible in the source: for every task class, task constraint and (non periodic) "
                      "resource constraint the emitted term is NOT TIGHTER than the documented relation (the <= direction of "
                      "the same order-type / canonical-atom decisions as C01-C04, exhaustive per template); overlapping "
                      "definitions of one variable are rejected (R-FUNDEF); optional entities are never bound when unscheduled "
                      "(R-SCHED-GUARD); a None-test that is constant by the declared type may not guard an emitted default "
                      "(R-CONST-GUARD); the driver reports False only after an unsat/unknown check (R-VERDICT-MAP).",
        "level_note": "NOT decided: completeness of arbitrary combinations of elements, the `% period` encodings, buffers' "
                      "array/quantifier encodings, and that `unknown` is only a resource limit. Those need the solver.",
        "explanation": "Static analysis, <= direction of the specification tables over the extracted IR (order types, "
                       "canonical atoms), functional-definition consistency, constant-guard detection over the class table, "
                       "return-path analysis of solve().",
    },
    "C04": {
        "rules": resource_constraints.RULES,
        "thorough": [self_test_rule("C04")],
        "level_text": "Per resource-constraint class and configuration the emitted terms are decided against the documented "
                      "relation: ResourceUnavailable and ResourceInterrupted by exhaustive order types of (busy start, busy end, "
                      "lo, hi); WorkLoad by functional-definition consistency (in each of the order types exactly one consistent "
                      "definition of the overlap variable, equal to max(0, min(end,hi)-max(start,lo))) plus the kind dispatch; "
                      "distance / non-delay by canonical atoms over sorted copies; Same/DistinctWorkers by truth tables; plus "
                      "attribute resolution, cumulative fan-out, escaped loop variables, rejection tests that read a cumulative "
                      "resource's own busy dict, and the periodic encodings: fan-out, parameters, activity mask, and the "
                      "folded conditions themselves - with f = (busy start - offset) % period taken as an integer in "
                      "[0, period), 'the folded busy interval meets no repetition of the interval' is f + d <= lo or "
                      "(f >= hi and f + d <= lo + period), and 'a folded start / end of an interruptible task is not strictly "
                      "inside the interval' - decided by linear integer arithmetic (truth table over the atoms, every "
                      "distinguishing assignment refuted by Fourier-Motzkin elimination or turned into integer values).",
        "level_note": "NOT decided: the lengthening of interruptible tasks under ResourcePeriodicallyInterrupted (number of "
                      "crossed repetitions: duration / period and duration % period are non linear in the symbolic period). "
                      "Assumes 0 <= lo < hi <= period for periodic intervals and lo <= hi for the others. Trusted: z3's "
                      "integer mod, the sorted-copy helper (checked under C09).",
        "explanation": "Static analysis of resource_constraint.py on the extracted IR with order-type enumeration, "
                       "functional-definition consistency, canonical atoms, truth tables and a small linear-integer-arithmetic "
                       "procedure (Fourier-Motzkin) written for this checker; whole-program attribute "
                       "resolution and union-exhaustiveness over the class table.",
    },
    "C02": {
        "rules": resources.RULES,
        "thorough": [self_test_rule("C02")],
        "level_text": "The capacity argument is decided structurally for all problems: (1) the solver asserts, for every "
                      "worker of the unfiltered registry and every unordered pair of its busy intervals, a term that is "
                      "order-type-equivalent to 'the two half-open intervals do not overlap'; (2) add_required_resource stores "
                      "exactly one (start, end) busy pair per worker and ties it to the task span per resource kind (static "
                      "with delay-in/early-out, dynamic with a non-negative span, alternative: selected => task span, else one "
                      "unique negative point) and asserts the selection's cardinality; (3) SelectWorkers builds Pb(kind) over "
                      "the flags of its whole list with the declared count; (4) a cumulative worker is `size` registered unit "
                      "workers and each use selects >= 1 of them; (5) negative points are strictly negative and never reused; "
                      "(6) the work-amount sum ranges over all required resources and is guarded for optional tasks.",
        "level_note": "Capacity of a cumulative worker follows from (1),(3),(4) by a pigeonhole argument that is stated in "
                      "DESIGN.md, not machine-checked. _distribute_p_over_n arithmetic is not analysed (it self-checks at run "
                      "time). Trusted: z3, pydantic.",
        "explanation": "Static analysis of task.py / resource.py / problem.py / solver.py on the extracted IR: pair-loop shape "
                       "and order-type equivalence of the non-overlap term, per-kind busy-interval binding, Pb tables, negative "
                       "point counters, cumulative expansion, work-amount term.",
    },
    "C10": {
        "rules": logic.RULES,
        "thorough": [self_test_rule("C10")],
        "level_text": "For each of the six connectives and each kind of operand (raw z3 expression or Constraint) the single "
                      "formula handed to the sink is reconstructed and decided equal to the documented boolean combination of "
                      "the operands' own meanings (an operand = the conjunction of its assertion list); every Constraint "
                      "operand is shown to be tagged so that the solver does not also enforce it alone, and the solver's drain "
                      "filter is shown to be exactly that tag. For all 30+ Constraint subclasses the optional variant is shown "
                      "to be Implies(applied flag, mandatory variant) and no assertion bypasses that route.",
        "level_note": "Nesting depth is irrelevant to the argument: an operand is an opaque assertion list to each connective. "
                      "Trusted: z3 semantics of And/Or/Not/Xor/Implies/If and PbGe/PbLe/PbEq.",
        "explanation": "Static analysis of first_order_logic.py / constraint.py / solver.py: per connective and operand kind "
                       "the emitted formula vs the documented combination (normal forms, truth tables over operand "
                       "placeholders); tagging must-pass-through; optional/mandatory path pairing for every constraint class.",
    },
    "C06": {
        "rules": optional.RULES,
        "thorough": [self_test_rule("C06")],
        "level_text": "Inertness (taint) analysis over the extracted term IR: every occurrence of a time of a possibly "
                      "unscheduled task or unselected worker (task start/end/duration, busy interval bounds) in any term "
                      "emitted by any constraint, indicator, objective constructor or by the solver initialisation is "
                      "classified by its guard context; unguarded classes must be in a reviewed benign table or the "
                      "known-findings file. Plus the truth tables of the optional-task rules and the If(scheduled, rules, "
                      "moved-to-the-past) shape of every task class. Quantifies over all problems and schedules.",
        "level_note": "Decides guard presence and shape, not the behaviour; the benign table (rules/optional.py) assumes "
                      "non-negative interval bounds / due dates and is justified entry by entry. Trusted: z3, pydantic. "
                      "'Schedules of the other tasks are exactly those of the problem without the task' follows from "
                      "inertness of every consumer and is argued, not machine-checked.",
        "explanation": "Static taint analysis of optional-entity time leaves over all emitted z3 terms (67 constructors + "
                       "solver initialisation), guard classes M/G1/G2/G3/G5/T vs U; truth tables for the optional-task rules.",
    },
    "C01": {
        "rules": tasks.RULES,
        "thorough": [self_test_rule("C01")],
        "level_text": "For every Task subclass and every configuration (optional, release/due dates, min/max/allowed "
                      "durations) the assertions built by the constructor chain are reconstructed and shown to entail each "
                      "timing obligation of a scheduled task; the solver initialisation is shown to bound every task end by "
                      "the horizon and to hand every element's assertion list, unfiltered, to the solver. Holds for all "
                      "parameter values and all schedules at once.",
        "level_note": "Decides R-TASK-OBLIG, R-SET-ASSERTIONS, R-HORIZON, R-DRAIN on the extracted term IR (truth tables over "
                      "canonical linear atoms). Trusted: z3 returns models of the asserted conjunction; pydantic enforces the "
                      "declared field constraints; extraction of model values into the solution is decided under C11.",
        "explanation": "Static analysis of task.py / solver.py / problem.py: per class and configuration the emitted z3 terms "
                       "are reconstructed from the AST and each obligation (start>=0, end-start==duration, duration bounds, "
                       "release date, deadline, end<=horizon, complete drain of assertion lists) is decided on them.",
    },
    "C03": {
        "rules": task_constraints.RULES,
        "thorough": [self_test_rule("C03")],
        "level_text": "Every TaskConstraint constructor is translated, per configuration of its Literal / optional / "
                      "None-able fields, into the z3 term it hands to the assertion sink; that term is decided equivalent "
                      "to the documented relation for all parameter values and all task placements (exhaustive weak-ordering "
                      "enumeration, canonical linear atoms). Covers every schedule at once, which tests cannot.",
        "level_note": "Decides the emitted relation per class x kind (reading: all tasks scheduled) and the count polarity of "
                      "ScheduleNTasksInTimeIntervals; trusted: z3 returns models of what is asserted, the sorted-copy helper "
                      "(checked under C09), the spec rows in rules/task_constraints.py (cited from docs/task_constraints.md). "
                      "The scheduled-guard clause is decided by C06's check.",
        "explanation": "Static analysis of the constraint constructors: for every TaskConstraint subclass and every "
                       "configuration of its Literal/optional/None-able fields the z3 term that reaches the assertion "
                       "sink is reconstructed from the source (no execution) and decided equivalent to the documented "
                       "relation by canonical linear atoms, truth tables and exhaustive weak-ordering enumeration.",
    },
}

# clauses decided by rules that were added to a property's rule list after the rounds of independent seeded changes
# (DESIGN 10.7, 10.10, 10.12); appended to the level text of the manifest
LEVEL_TEXT_ADDENDA = {
    "C05": " Also: nothing beyond the documented groups is asserted by initialize() (R-STREAM-EXACT: task / resource / constraint / "
           "indicator / buffer drains, end <= horizon, work amount, non-overlap, buffer encoding, weighted objective); nothing an "
           "earlier call asserted is left on the solver's stack (R-PUSH-POP, R-SCOPED-ASSERT); every verdict returned by check_sat "
           "is the result of a check() made in the same call (R-CHECK-FRESH). The truth tables of the logical combinators (R-FOL-TABLE): a wrong table also excludes valid schedules. An optional constraint is asserted as Implies(applied, body), never more (R-APPLIED). Indicator, objective and resource constructors assert definitions only - the one equation of the indicator variable or the whole assertion list of a defining helper (R-OWN-EXACT); indicator constraints, optional-task rules and buffer accesses are asserted as documented and no tighter (R-IND-CONSTRAINT, R-OPT-RULES, R-BUF-REGISTER); every group R-STREAM-EXACT classifies is decided by its rule in this check (R-DRAIN, R-HORIZON, R-WORK-AMOUNT, R-PAIRWISE, R-BUF-ENCODING, R-WEIGHTED).",
    "C06": " Also: a test of a time against a constant is a scheduled-ness test and must have the threshold `t >= 0` / `t <= -1`; "
           "the work-amount assertion is under the scheduled guard (R-WORK-AMOUNT). The premise of the exemption of ObjectiveMinimizeFlowtimeSingleResource from R-SCHED-GUARD is decided: every per-task implication has `start >= lower bound` in its antecedent.",
    "C07": " Also: with z3.Optimize every objective is handed to the handle in its own direction, the equivalent weighted one in "
           "weight mode and each declared one otherwise (R-OBJ-HANDED); the makespan objective is the horizon variable, which bounds "
           "every task end (R-HORIZON). The objective variable of every built-in objective is defined by the schedule as an equality, not merely bounded (R-IND-DEF, R-MINMAX); the bound the incremental loop takes as a proof of optimality is written only by an indicator's own constructor and Objective.__init__ (R-BOUND-PROVENANCE). With a user horizon exactly `_horizon <= horizon` is asserted (R-HORIZON, exact): the variable the makespan objective minimises stays free below the bound. The stream of build_equivalent_weighted_objective is the two definitions only (R-WEIGHTED). Bounds given by the caller are asserted on the indicator variable (R-BOUND-ASSERTED); the caller's weight is the objective's weight (R-WEIGHT: eleven recorded findings).",
    "C08": " Also: the horizon the utilisation divides by is the horizon delivered with the solution (R-HORIZON-REPORT), and the "
           "horizon variable bounds every task end (R-HORIZON: makespan). An indicator's constructor asserts its definition and nothing else (R-OWN-EXACT): the value reported is a measurement, not a constraint. Bounds the caller declares on an indicator are asserted on its variable on every path where they are given, a bound of 0 included (R-BOUND-ASSERTED, see C15).",
    "C10": " Also: a constraint asserts into its own assertion list only (R-OWN-ASSERTIONS); the force-N cardinalities are decided "
           "semantically over (count, n, size). A constraint acts through its own assertion list, not through a side effect on another element (R-EFFECT-ONLY: the two buffer accesses are recorded findings).",
    "C11": " Also: the stored busy pair is tied to the task span with delay-in / early-out (R-BUSY-BIND), every task end is "
           "asserted <= the horizon variable (R-HORIZON), an unscheduled optional task has start, end and duration pinned to its "
           "negative point (R-SET-ASSERTIONS). The part of a unit worker's name before the marker is the cumulative worker's own name, unchanged (R-MARKER). Every task class asserts start >= 0 on every parameter combination (R-TASK-OBLIG): the reporters' `busy >= 0` test means 'assigned' only then. R-REPORT-READONLY (see C09); a horizon the problem constructor computes itself is asserted and an integer (R-HORIZON). The calendar end is problem start + end * step for unscheduled tasks too (R-CALENDAR, exact). R-BASE-STORE (see C01): the binding of a busy interval reaches the solver only if the store keeps it. The four add_*_solution methods of SchedulingSolution store their argument itself, once, unconditionally, under its own name, and leave it untouched (R-SOLUTION-STORE): the two views R-VIEW-SYMMETRY decided are the two views the caller reads.",
    "C12": " Also: answering methods assert only inside pushed scopes and pop them all (R-SCOPED-ASSERT, R-PUSH-POP), an "
           "unscheduled task has one representation (R-SET-ASSERTIONS), verdicts are fresh (R-CHECK-FRESH), and nothing beyond the "
           "documented groups is asserted at initialisation (R-STREAM-EXACT). Every task's own obligations are asserted on every parameter combination (R-TASK-OBLIG): the enumeration walks exactly the valid timings. The rules R-STREAM-EXACT hands the groups of initialize() to are run in this check as well (R-DRAIN, R-HORIZON, R-WORK-AMOUNT, R-PAIRWISE, R-BUF-ENCODING, R-WEIGHTED). The exclusion added by find_another_solution_for_variable holds for the request only (R-VAR-SCOPE: recorded finding).",
    "C13": " Also: R-SCOPED-ASSERT, the blocking clause (R-BLOCK-CLAUSE), a fresh solver handle on every initialize() "
           "(R-OPT-WIRING) and fresh verdicts (R-CHECK-FRESH). Solver methods do not modify the problem's registries in place (R-SOLVER-READONLY: pop / clear / update / ...). export_to_smt2 calls nothing but the serialiser on the solver handle (R-SMT-SAME-HANDLE). R-ARG-READONLY (see C01).",
    "C14": " Also: no accumulator is read inside the loop that fills it (R-ORDER-PREFIX); no process-wide state: module-level "
           "objects built by a call and used in functions, class attributes written at run time, `global` statements "
           "(R-NO-MODULE-STATE). The sorting network of the concurrent buffer, a position-dependent helper, is a complete sort (R-SORT-NET). Nothing in the encoding phase is ordered by name (R-NAME-ORDER: sorted / min / max / .sort over registry keys or items, .name, key functions reading .name). No time of a possibly unscheduled task is read without the scheduled guard - it is -task_number, the declaration rank (R-SCHED-GUARD; its recorded findings are findings of this property too). Every constant name carries a literal tag of its kind. R-BASE-STORE: the duplicate test of the assertion store compares name-dependent hashes and must refuse loudly, never drop.",
    "C15": " Also: R-OBJ-HANDED (see C07). R-BOUND-PROVENANCE (see C07). R-WEIGHTED decides the whole assertion stream of build_equivalent_weighted_objective (an extra assertion there exists only in the configurations that build the weighted objective). A bound an indicator gives itself is one of those that follow from a definition (table: utilisation (0, 100)). R-BOUND-ASSERTED (see C07).",
    "C16": " Also: only `indent` and the exclusion of `problem` may be passed to the JSON dump; the exported SMT-LIB stack is the "
           "problem only if nothing is left on it (R-PUSH-POP, R-SCOPED-ASSERT). add_from_json hands the whole document unchanged to the validator of the class its type entry names (R-JSON-READ). No custom serializer, computed field, dump override or excluded field in the MRO of the task and cost function classes (R-JSON-FIELDS); every free name read in excel_io / solution / base / problem is bound (R-NAMES-RESOLVE). Distinct constants have distinct, kind-tagged names (R-NAME-INJECTIVE: the SMT-LIB text parses only then); R-REPORT-READONLY for the Excel exporter. The tracked (debug) configuration of the export is decided apart (R-SMT-TRACKED: one recorded finding - the labels of assert_and_track are left free in the exported text). A coloured Excel cell gets `#` + exactly six digits for every text (R-EXCEL-COLOR). The CSV writer gets the frame of to_df(), the caller's separator, no index column, the caller's file name, nothing else (R-CSV-WRITE).",
    "C17": " Also: the task-view bar is (start, duration) and duration == end - start by the way build_solution extracts them "
           "(R-EXTRACT). The renderers' `if not solution` rejection is a presence test: no class the argument can hold defines __bool__ or __len__ (R-PRESENCE-TEST). Every free name read in a function of plotter.py / solution.py is bound at module level or builtin (R-NAMES-RESOLVE, from the compiler's symbol tables). R-REPORT-READONLY; the reported horizon the renderers count periods with is an asserted integer (R-HORIZON). With a buffer sub-plot the calendar ticks are set on the Gantt axes object, not through the pyplot state machine (R-GANTT-TICKS). R-CLEAN-PAIRED (see C09): the levels and times the curve is drawn from stay paired.",
    "C18": " Also: no rejection test reads the busy dict of a possibly cumulative resource itself (R-UNION-EXH on rejection tests). No constructor raises after registering the element (R-REGISTER-ATOMIC: twelve recorded findings); a constructor that sorts two lists is not refused for a single element (R-SINGLE-SORT).",
    "C19": " Also: the reader side on the extracted IR of solve(): every mapped label of the unsat core is printed, only `label in "
           "map` and a 'not already listed' test may filter (R-CORE-COMPLETE); a constraint asserts into its own list only "
           "(R-OWN-ASSERTIONS). R-EFFECT-ONLY (see C10): a constraint without assertions can never be named in a conflict.",
    "C01": " Also: the constraint system is built lazily by the first answering call, never by the solver's constructor (R-INIT-ONCE), and a task declared under an existing name is rejected, not substituted (R-DUP-NAME). No solver method modifies in place a list it was given or read through get_z3_assertions() (R-ARG-READONLY).",
    "C02": " Also: the assignment a resource reports is the model value of the stored busy pair, listed exactly when the task lists the resource (R-VIEW-SYMMETRY); R-INIT-ONCE and R-DUP-NAME for the three resource registries as in C01. Each unit worker of a cumulative worker carries the element at its position of _distribute_p_over_n(productivity | cost, size), unchanged; that helper returns `size` elements (length lemma decided on its body). Worker, cumulative worker and selection constructors assert nothing of their own (R-OWN-EXACT). Every task class asserts start >= 0 (R-TASK-OBLIG): the reporters' `busy >= 0` test means 'assigned' only then. One worker serves one task through one requirement: the duplicate test of add_required_resource looks at what is stored (R-DUP-REQUIRED, recorded findings); parked points of tasks and of unselected workers come from one generator (R-NEG-POINT); the delayed busy interval of an unscheduled task (R-BUSY-BIND, recorded finding).",
    "C03": " Also: R-INIT-ONCE and R-DUP-NAME (constraint registry) as in C01: what is declared before solve() is what is asserted, and no declared constraint is silently replaced under its name.",
    "C04": " Also: R-INIT-ONCE and R-DUP-NAME (constraint registry) as in C01/C03. SameWorkers: equal flags for the workers both selections offer, and the others excluded on their side (specification corrected from the documentation after the defect hunt).",
    "C09": " Also: util.clean_buffer_levels keeps level k+1 exactly when it keeps change time k, by one selection that reads the times only (R-CLEAN-PAIRED); the bubble sorter makes at least len - 1 full sweeps. The sorter is also decided when written inline (nested loops over a working copy), and sort_no_duplicates whatever way its loops are written. Renderers and exporters do not modify anything reachable from the solution they are given (R-REPORT-READONLY).",
}
for _k, _v in LEVEL_TEXT_ADDENDA.items():
    PROPERTIES[_k]["level_text"] = PROPERTIES[_k]["level_text"] + _v
