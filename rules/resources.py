"""C02 - resource capacity, assignment, selection, work amount.

R-PAIRWISE   complete unordered-pair loop over every worker's busy intervals, non-overlap per pair (order types)
R-BUSY-BIND  add_required_resource ties the stored (start, end) busy pair to the task span per resource kind
R-PB-TABLE   SelectWorkers: Pb(kind) over the selection flags of the whole list with the declared count
R-NEG-POINT  unique negative integers / task numbers are strictly negative and never reused
R-CUMUL      a cumulative worker is `size` unit workers registered like plain workers; each use selects >= 1
R-WORK-AMOUNT Sum(productivity * busy length) >= work_amount over all required resources, under the scheduled guard
R-UNION-EXH  (known finding) a CumulativeWorker listed inside a SelectWorkers
Oracle: docs/resource_assignment.md, docs/resource.md, property statement.
"""
from __future__ import annotations

import ast

from sa import project as P
from sa.interp import Entry
from sa.lib import *
from sa.terms import subterms
from rules import tasks as task_rules
from rules.task_constraints import kind_of

SELF = S("self")
OPAQUE = ("sort_no_duplicates", "sort_duplicates")


def r_pairwise(ctx):
    where = "SchedulingSolver.initialize"
    W = loop(0, task_rules.values_of("workers"))
    w = elem(W)
    B = ("call", "list", (("mcall", A(w, "_busy_intervals"), "values", (), ()),), ())
    n = ("call", "len", (B,), ())
    Li = loop(1, ("range", K(0), n))
    i = elem(Li)
    Lk = loop(2, ("range", add(i, K(1)), n))
    k = elem(Lk)
    bi, bk = ("idx", B, i), ("idx", B, k)
    spec_term = Or(ge(idx(bk, 0), idx(bi, 1)), ge(idx(bi, 0), idx(bk, 1)))
    spec = [((W, Li, Lk), (), spec_term)]
    for run in task_rules.init_runs(ctx, "R-PAIRWISE"):
        groups = stream_groups(run)
        g_spec = conj_groups(spec)
        (sig, bodies), = g_spec.items()
        cfgs = describe_config(run)
        if sig not in groups:
            # accept the same pair loop written over get_busy_intervals() kept opaque or over any equivalent spelling
            cands = [s for s in groups if len(s[0]) == 3 and s[0][0] == sig[0][0]]
            ctx.violation("R-PAIRWISE", where, "complete pair loop over the busy intervals of every worker",
                          f"on [{cfgs}] no loop `for every worker, for i in range(n), for k in range(i+1, n)` over the worker's busy "
                          f"intervals asserts non-overlap; loops found over the worker registry: {[show_sig(c)[:160] for c in cands]}",
                          "processscheduler/solver.py")
            continue
        if groups[sig] and sig[1]:
            ctx.violation("R-PAIRWISE", where, "pair loop is filtered", f"guards {[show(g) for g in sig[1]]}", "processscheduler/solver.py")
            continue
        f_em = And(*groups[sig])
        ok, wit, method = decide_equiv(ctx, f_em, And(*bodies))
        if ok:
            ctx.ok("R-PAIRWISE", f"{where} [{cfgs}]", sample={"emitted": show(norm(f_em))[:300], "decided_by": method})
        else:
            ctx.violation("R-PAIRWISE", where, "non-overlap of a pair of busy intervals",
                          f"on [{cfgs}] the pair assertion {show(norm(f_em))[:260]} is not `the two half-open intervals do not overlap`",
                          "processscheduler/solver.py", witness=str(wit)[:400])
    # get_busy_intervals returns all the values of the busy dict
    runs = runs_of(ctx, Entry("method", cls="Resource", name="get_busy_intervals"))
    fails_closed(ctx, "R-PAIRWISE", runs)
    want = norm(("call", "list", (("mcall", A(SELF, "_busy_intervals"), "values", (), ()),), ()))
    for r in runs:
        got = norm(r.retval) if isinstance(r.retval, tuple) else None
        if got == want or got == norm(("mcall", A(SELF, "_busy_intervals"), "values", (), ())):
            ctx.ok("R-PAIRWISE", "Resource.get_busy_intervals returns every busy interval")
        else:
            ctx.violation("R-PAIRWISE", "Resource.get_busy_intervals", "returns every busy interval",
                          f"returns {show(got)[:200] if got else r.retval}", first_line(ctx.project, "Resource"))
    runs = runs_of(ctx, Entry("method", cls="Resource", name="add_busy_interval"))
    fails_closed(ctx, "R-PAIRWISE", runs)
    for r in runs:
        st = [ev for ev in r.events_of("store") if ev.data["container"] == A(SELF, "_busy_intervals")]
        if len(st) == 1 and st[0].data["key"] == S("task") and st[0].data["value"] == S("interval") and not st[0].guards:
            ctx.ok("R-PAIRWISE", "Resource.add_busy_interval stores interval under task")
        else:
            ctx.violation("R-PAIRWISE", "Resource.add_busy_interval", "stores the interval under its task",
                          "the busy interval is not stored as _busy_intervals[task] = interval", first_line(ctx.project, "Resource"))


def _param_zero(run, term):
    """delay_in / early_out are assumed >= 0: `not (p > 0)` means p == 0"""
    m = {}
    for leaf, d in run.doms.items():
        if leaf[0] == "sym" and leaf[1] in ("delay_in", "early_out") and d.hi is not None and d.hi <= 0:
            m[leaf] = K(0)
    return substitute(term, m) if m else term


def r_busy_bind(ctx):
    where = "Task.add_required_resource"
    runs = runs_of(ctx, Entry("method", cls="Task", name="add_required_resource", opaque=OPAQUE))
    fails_closed(ctx, "R-BUSY-BIND", runs)
    start, end = A(SELF, "_start"), A(SELF, "_end")
    kinds_seen = set()
    for run in runs:
        if run.rejected:
            continue
        cfgs = describe_config(run)
        dec = dict(run.decisions)
        stores = [ev for ev in run.events_of("store") if isinstance(ev.data["container"], tuple)
                  and ev.data["container"][0] == "attr" and ev.data["container"][2] == "_busy_intervals"]
        own = [e for e in run.emissions if e.owner == SELF]
        location = loc(own[0]) if own else "processscheduler/task.py"
        is_worker = dec.get("isinstance(resource, Worker)") is True
        is_select = dec.get("isinstance(resource, SelectWorkers)") is True
        is_cumul = dec.get("isinstance(resource, CumulativeWorker)") is True
        if not (is_worker or is_select or is_cumul):
            continue
        if len(stores) != 1 or stores[0].data["key"] != SELF or stores[0].data["value"][0] != "tuple" \
                or len(stores[0].data["value"][1]) != 2:
            ctx.violation("R-BUSY-BIND", where, "one (start, end) busy interval stored per worker",
                          f"on [{cfgs}] {len(stores)} busy interval store(s) found", location)
            continue
        a, b = stores[0].data["value"][1]
        holder = stores[0].data["container"][1]
        if is_worker:
            kinds_seen.add("worker")
            if holder != S("resource"):
                ctx.violation("R-BUSY-BIND", where, "busy interval stored on the assigned worker",
                              f"stored on {show(holder)}", location)
            if dec.get("bool(dynamic)") is True:
                spec = And(ge(a, start), le(b, end), le(a, b))
                what = "dynamic: some non-negative span inside the task span"
            else:
                spec = _param_zero(run, And(eq(a, add(start, S("delay_in"))), eq(b, sub(end, S("early_out")))))
                what = "static: task span shifted inwards by delay_in / early_out"
            em = And(*[_param_zero(run, e.term) for e in own if not e.loops and not e.guards])
            # an unscheduled optional task sits at one negative point n; with a delay the worker's interval becomes
            # (n + delay_in, n - early_out): it can be non-negative (the reporters and the indicators then count the worker as
            # busy with a task that is not scheduled) and it has negative length.  The binding is unconditional today.
            shifted = [k for k, v in run.decisions if v is True and (k.startswith("delay_in >") or k.startswith("early_out >"))]
            if shifted and dec.get("bool(dynamic)") is not True and not any("_scheduled" in show(e.term) for e in own):
                ctx.violation("R-BUSY-BIND", where, "busy interval shifted by delay_in / early_out also when the task is not scheduled",
                              f"on [{cfgs[:90]}] the worker's interval is bound to start + delay_in / end - early_out with no look at the "
                              f"task's scheduled flag: for an unscheduled optional task parked at -n it is (-n + delay_in, -n - early_out) - "
                              f"with delay_in=2 the task parked at -1 is reported as assigned to the worker, and utilisation / cost count "
                              f"an interval of negative length", location)
            ok, wit, method = decide_equiv(ctx, em, spec)
            if ok:
                ctx.ok("R-BUSY-BIND", f"{where} [{cfgs}]", sample={"emitted": show(norm(em))[:300], "what": what, "decided_by": method})
            else:
                ctx.violation("R-BUSY-BIND", where, what,
                              f"on [{cfgs}] emitted {show(norm(em))[:300]} ; required {show(norm(spec))[:300]}", location,
                              witness=str(wit)[:300])
        else:
            kinds_seen.add("select" if is_select else "cumulative")
            lp = stores[0].loops
            if len(lp) != 1:
                ctx.violation("R-BUSY-BIND", where, "one busy interval per listed worker",
                              f"on [{cfgs}] the store is not inside a single loop over the listed workers", location)
                continue
            worker = ("elem", lp[0])
            want_iter = A(S("resource"), "list_of_workers") if is_select else A(S("resource"), "_cumulative_workers")
            if norm(lp[0][3]) != norm(want_iter):
                ctx.violation("R-BUSY-BIND", where, "loop over all listed workers",
                              f"on [{cfgs}] the loop ranges over {show(lp[0][3])[:120]} instead of {show(want_iter)}", location)
                continue
            if holder != worker:
                ctx.violation("R-BUSY-BIND", where, "busy interval stored on the listed worker", f"stored on {show(holder)}", location)
            per_worker = [e for e in own if e.loops == lp and not e.guards]
            if len(per_worker) != 1 or not is_app(per_worker[0].term, "If"):
                ctx.violation("R-BUSY-BIND", where, "If(selected, busy == task span, moved to the past) per listed worker",
                              f"on [{cfgs}] found {[show(norm(e.term))[:120] for e in per_worker]}", location)
                continue
            t = per_worker[0].term
            sel, then_, else_ = t[2], t[3], t[4]
            ok_sel = isinstance(sel, tuple) and sel[0] == "idx" and sel[2] == worker and "_selection_dict" in show(sel[1])
            ok1, w1, _ = decide_equiv(ctx, then_, And(eq(a, start), eq(b, end)))
            # the other branch: both ends equal to one and the same point p, p produced by get_unique_negative_integer
            pts = set()
            for s in subterms(else_):
                if is_app(s, "==") and len(s) == 4:
                    other = s[3] if s[2] in (a, b) else s[2] if s[3] in (a, b) else None
                    if other is not None:
                        pts.add(other)
            ok2 = len(pts) == 1
            p = next(iter(pts)) if pts else None
            if ok2:
                ok2, w2, _ = decide_equiv(ctx, else_, And(eq(a, p), eq(b, p)))
                ok2 = ok2 and "_unique_integer" in show(p)
            if ok_sel and ok1 and ok2:
                ctx.ok("R-BUSY-BIND", f"{where} [{cfgs}]", sample={"emitted": show(norm(t))[:400]})
            else:
                ctx.violation("R-BUSY-BIND", where, "alternative worker: selected => task span, else one unique negative point",
                              f"on [{cfgs}] emitted {show(norm(t))[:400]} (selection flag ok={ok_sel}, selected branch ok={ok1}, "
                              f"unselected branch ok={ok2})", location)
            # the selection's cardinality assertion is asserted as well
            top = [norm(e.term) for e in own if not e.loops and not e.guards]
            sel_obj = sel[1][1] if ok_sel and sel[1][0] == "attr" else None
            sa_ = run.heap.get((sel_obj, "_selection_assertion")) if sel_obj is not None else None
            want = norm(sa_) if isinstance(sa_, tuple) else norm(A(S("resource"), "_selection_assertion"))
            if want in top:
                ctx.ok("R-BUSY-BIND", f"{where} [{cfgs}] selection cardinality asserted")
            else:
                ctx.violation("R-BUSY-BIND", where, "selection cardinality assertion",
                              f"on [{cfgs}] the selection's count assertion is not asserted with the task", location)
            if is_cumul:
                news = [ev for ev in run.events_of("new") if ev.data["cls"] == "SelectWorkers"]
                kw = dict(news[0].data["kwargs"]) if news else {}
                if news and kw.get("list_of_workers") == A(S("resource"), "_cumulative_workers") and kw.get("nb_workers_to_select") == K(1) \
                        and kw.get("kind") == K("min"):
                    ctx.ok("R-CUMUL", f"{where}: a cumulative use selects at least one of its unit workers")
                else:
                    ctx.violation("R-CUMUL", where, "cumulative use = select >= 1 unit worker",
                                  f"get_select_workers builds SelectWorkers({ {k: show(v) for k, v in kw.items()} })", location)
            if is_select:
                et = None
                sw = ctx.project.cls("SelectWorkers").all_fields().get("list_of_workers")
                alts = P.type_classes(sw.type[1]) if sw is not None and sw.type[0] == "list" else []
                narrowed = any(k.startswith("isinstance(e#") and "CumulativeWorker" in k for k, _ in run.decisions)
                if "CumulativeWorker" in alts and not narrowed:
                    ctx.violation("R-UNION-EXH", where, "CumulativeWorker listed in a SelectWorkers is treated as a plain worker",
                                  "SelectWorkers.list_of_workers admits a CumulativeWorker, but the alternative branch stores the busy "
                                  "interval on the cumulative object itself, which no capacity loop ever visits", location)
        # the worker(s) join the task's required resources
        apps = [ev for ev in run.events_of("mcall") if False]
    for k in ("worker", "select", "cumulative"):
        if k not in kinds_seen:
            raise P.AnalysisError(f"R-BUSY-BIND: no path for resource kind {k}")
    # R-PARAM-DROP: parameters honoured in one branch and silently ignored in the siblings
    fn = ctx.project.method("Task", "add_required_resource")[1]
    params = [a.arg for a in fn.args.args[2:]]
    used = {}
    for run in runs:
        dec = dict(run.decisions)
        branch = "worker" if dec.get("isinstance(resource, Worker)") else "select" if dec.get("isinstance(resource, SelectWorkers)") \
            else "cumulative" if dec.get("isinstance(resource, CumulativeWorker)") else None
        if branch is None:
            continue
        for p_ in params:
            if any(k.startswith(p_ + " ") or k == f"bool({p_})" for k, _ in run.decisions):
                used.setdefault(p_, set()).add(branch)
    for p_ in params:
        u = used.get(p_, set())
        if u and u != {"worker", "select", "cumulative"}:
            ctx.violation("R-PARAM-DROP", where, f"parameter {p_} ignored for {sorted({'worker', 'select', 'cumulative'} - u)}",
                          f"`{p_}` shapes the busy interval of a plain worker but is silently ignored for "
                          f"{sorted({'worker', 'select', 'cumulative'} - u)} resources", "processscheduler/task.py")


def r_select_workers(ctx):
    cname = "SelectWorkers"
    runs = runs_of(ctx, Entry("init", cls=cname, opaque=OPAQUE))
    fails_closed(ctx, "R-PB-TABLE", runs)
    where = f"{cname}.__init__"
    seen = set()
    for run in runs:
        if run.rejected:
            continue
        kind = kind_of(run)
        seen.add(kind)
        pb = {"min": "PbGe", "max": "PbLe", "exact": "PbEq"}.get(kind)
        sa_ = run.heap.get((SELF, "_selection_assertion"))
        sd = run.heap.get((SELF, "_selection_dict"))
        stores = [ev for ev in run.events_of("store") if ev.data["container"] == A(SELF, "_selection_dict")]
        location = first_line(ctx.project, cname)
        ok_dict = len(stores) == 1 and len(stores[0].loops) == 1 and norm(stores[0].loops[0][3]) == S("self.list_of_workers") \
            and stores[0].data["key"] == ("elem", stores[0].loops[0]) and stores[0].data["value"][0] == "z3var" \
            and stores[0].data["value"][1] == "Bool" and not stores[0].guards
        if not ok_dict and not stores:
            # the dict may be built as a whole (a dict comprehension) instead of filled key by key
            from sa.values import PyDict
            ents = sd.entries if isinstance(sd, PyDict) else []
            ok_dict = len(ents) == 1 and len(ents[0][2]) == 1 and norm(ents[0][2][0][3]) == S("self.list_of_workers") \
                and ents[0][0] == ("elem", ents[0][2][0]) and isinstance(ents[0][1], tuple) and ents[0][1][0] == "z3var" \
                and ents[0][1][1] == "Bool" and not ents[0][3]
        if ok_dict:
            ctx.ok("R-PB-TABLE", f"{where} kind={kind}: one selection Boolean per listed worker")
        else:
            ctx.violation("R-PB-TABLE", where, "one selection Boolean per listed worker",
                          "the selection dict is not filled with one fresh Bool per element of list_of_workers", location)
        L = loop("b0.0", ("call", "list", (("mcall", A(SELF, "_selection_dict"), "values", (), ()),), ()))
        want = norm(app(pb, ("list", (("each", (L,), (), ("tuple", (elem(L), TRUE))),)), S("self.nb_workers_to_select")))
        got = norm(sa_) if isinstance(sa_, tuple) else None
        alt = norm(app(pb, ("list", (("each", (loop("b0.0", ("mcall", A(SELF, "_selection_dict"), "values", (), ())),), (),
                                      ("tuple", (elem(loop("b0.0", ("mcall", A(SELF, "_selection_dict"), "values", (), ()))), TRUE))),)),
                       S("self.nb_workers_to_select")))
        if got in (want, alt):
            ctx.ok("R-PB-TABLE", f"{where} kind={kind}", sample={"selection assertion": show(got)[:240]})
        else:
            ctx.violation("R-PB-TABLE", where, f"kind={kind}: count over all selection flags",
                          f"expected {show(want)[:240]}, built {show(got)[:240] if got else None}", location)
        rs = [ev for ev in run.events_of("raise") if "nb_workers_to_select" in show(And(*ev.guards))]
        from sa.decide import canon_atom, atom_key
        want_g = canon_atom(gt(S("self.nb_workers_to_select"), ("call", "len", (S("self.list_of_workers"),), ())))
        got_g = canon_atom(rs[0].guards[-1]) if rs else None
        if rs and got_g is not None and atom_key(got_g) == atom_key(want_g):
            ctx.ok("R-RAISE-SELECT", f"{where} kind={kind}: more workers requested than listed is rejected")
        else:
            ctx.violation("R-RAISE-SELECT", where, "nb_workers_to_select > len(list_of_workers) rejected",
                          "no rejection of a selection of more workers than listed", location)
    if seen != {"min", "max", "exact"}:
        raise P.AnalysisError(f"R-PB-TABLE: SelectWorkers kinds seen {seen}")


def r_neg_point(ctx):
    proj = ctx.project
    # writers of _unique_integer
    writers = []
    for m in proj.modules.values():
        for n in ast.walk(m.tree):
            if isinstance(n, (ast.Assign, ast.AugAssign)):
                tg = n.targets if isinstance(n, ast.Assign) else [n.target]
                for t in tg:
                    if isinstance(t, ast.Attribute) and t.attr == "_unique_integer":
                        fn = n
                        while fn is not None and not isinstance(fn, ast.FunctionDef):
                            fn = getattr(fn, "_parent", None)
                        writers.append((m.short, fn.name if fn else "?", n))
    names = sorted((a, b) for a, b, _ in writers)
    if names == [("problem", "__init__"), ("problem", "get_unique_negative_integer")]:
        ctx.ok("R-NEG-POINT", "_unique_integer has exactly two writers")
    else:
        ctx.violation("R-NEG-POINT", "SchedulingProblem", "writers of _unique_integer",
                      f"_unique_integer is written in {names}", first_line(proj, "SchedulingProblem"))
    runs = runs_of(ctx, Entry("init", cls="SchedulingProblem"))
    fails_closed(ctx, "R-NEG-POINT", runs)
    for r in runs:
        v = r.heap.get((SELF, "_unique_integer"))
        if is_const(v) and isinstance(v[1], int) and v[1] <= -1:
            ctx.ok("R-NEG-POINT", f"initial counter {v[1]} <= -1")
        else:
            ctx.violation("R-NEG-POINT", "SchedulingProblem.__init__", "initial value of the negative counter",
                          f"_unique_integer starts at {show(v) if isinstance(v, tuple) else v}", first_line(proj, "SchedulingProblem"))
    runs = runs_of(ctx, Entry("method", cls="SchedulingProblem", name="get_unique_negative_integer"))
    fails_closed(ctx, "R-NEG-POINT", runs)
    for r in runs:
        new = r.heap.get((SELF, "_unique_integer"))
        from sa.decide import lin
        ok = False
        if isinstance(new, tuple):
            l = lin(new)
            ok = l.coef == {A(SELF, "_unique_integer"): 1} and l.const <= -1 and r.retval == new
        if ok:
            ctx.ok("R-NEG-POINT", "each call returns the strictly decreased counter", sample={"returns": show(new)})
        else:
            ctx.violation("R-NEG-POINT", "SchedulingProblem.get_unique_negative_integer", "strictly decreasing, returned after the decrement",
                          f"new counter {show(new) if isinstance(new, tuple) else new}, returned {show(r.retval) if isinstance(r.retval, tuple) else r.retval}",
                          first_line(proj, "SchedulingProblem"))
    # one generator for all parked points: an unscheduled optional task and an unselected alternative worker are both moved to "a
    # negative point of their own"; the strict sorters (ResourceNonDelay, ResourceTasksDistance, IndicatorResourceIdle) and the
    # pairwise non-overlap rest on all those points being distinct, which two independent generators cannot promise
    runs = runs_of(ctx, Entry("init", cls="FixedDurationTask", opaque=OPAQUE))
    fails_closed(ctx, "R-NEG-POINT", runs)
    own_generator = False
    for r in runs:
        if r.rejected or dict(r.decisions).get("bool(self.optional)") is not True:
            continue
        st_var = r.heap.get((SELF, "_start"))
        for e in r.emissions:
            for s_ in subterms(e.term):
                if is_app(s_, "==") and len(s_) == 4 and st_var in (s_[2], s_[3]):
                    other = s_[3] if s_[2] == st_var else s_[2]
                    if "get_unique_negative_integer" not in show(other) and "_unique_integer" not in show(other) \
                            and (is_app(other, "neg") or "_task_number" in show(other) or "len(" in show(other)):
                        own_generator = show(norm(other))[:80]
    if own_generator:
        ctx.violation("R-NEG-POINT", "Task.set_assertions", "parked points come from two generators",
                      f"an unscheduled optional task is parked at {own_generator} (-1, -2, ... by declaration rank) while an unselected "
                      f"alternative worker is parked at get_unique_negative_integer() (-2, -3, ...): the second optional task and the first "
                      f"unselected worker both sit at -2, and a strict sorter over that worker's busy intervals rejects a valid schedule",
                      "processscheduler/task.py")
    else:
        ctx.ok("R-NEG-POINT", "parked points of tasks and of unselected workers come from one generator")
    # task number: number of tasks after insertion
    runs = runs_of(ctx, Entry("method", cls="SchedulingProblem", name="add_task"))
    fails_closed(ctx, "R-NEG-POINT", runs)
    for r in runs:
        st = [ev for ev in r.events_of("store") if ev.data["container"] == A(SELF, "tasks")]
        want = ("call", "len", (A(SELF, "tasks"),), ())
        if st and r.retval == want:
            ctx.ok("R-NEG-POINT", "add_task returns len(tasks) after insertion (>= 1)")
        else:
            ctx.violation("R-NEG-POINT", "SchedulingProblem.add_task", "task number >= 1 and unique",
                          f"returns {show(r.retval) if isinstance(r.retval, tuple) else r.retval}", first_line(proj, "SchedulingProblem"))


def r_cumul(ctx):
    cname = "CumulativeWorker"
    runs = runs_of(ctx, Entry("init", cls=cname, opaque=OPAQUE + ("_distribute_p_over_n",)))
    fails_closed(ctx, "R-CUMUL", runs)
    where = f"{cname}.__init__"
    n = 0
    # the productivity / cost shares come from _distribute_p_over_n(x, size): as many as `size` (decided on its body)
    decide_length_lemma(ctx, "R-CUMUL", "resource", "_distribute_p_over_n", 1)
    for r in runs:
        if r.rejected or dict(r.decisions).get("processscheduler.base.active_problem is None") is True:
            continue
        cw = r.heap.get((SELF, "_cumulative_workers"))
        t = cw if isinstance(cw, tuple) else None
        from sa.values import PyList
        items = cw.items if isinstance(cw, PyList) else []
        n += 1
        from sa.decide import canon
        how_many = length_of(norm(items[0].loops[0][3])) if len(items) == 1 and len(items[0].loops) == 1 else None
        ok = how_many is not None and same_int(how_many, S("self.size")) \
            and not items[0].guards and isinstance(items[0].value, tuple) and items[0].value[0] == "obj" and items[0].value[1] == "Worker"
        if ok:
            ctx.ok("R-CUMUL", f"{where}: exactly `size` unit Worker objects", sample={"loop": show(items[0].loops[0][3])})
        else:
            ctx.violation("R-CUMUL", where, "`size` unit workers",
                          "the cumulative worker is not expanded into one Worker per unit of size", first_line(ctx.project, cname))
        # the unit workers carry the shares of the declared productivity and cost: element `position` of
        # _distribute_p_over_n(self.productivity | self.cost, self.size), unchanged (that function checks itself that the shares
        # add up to the declared total)
        if ok:
            Lw = items[0].loops[0]
            for ev in r.events_of("new"):
                for field, kwname, cls_ in (("productivity", "productivity", "Worker"), ("cost", "value", "ConstantFunction")):
                    if ev.data["cls"] != cls_:
                        continue
                    got = dict(ev.data["kwargs"]).get(kwname)
                    seq = sequence_at_position(norm(got), Lw) if isinstance(got, tuple) else None
                    want_seq = ("call", "resource._distribute_p_over_n", (A(SELF, field), A(SELF, "size")), ())
                    if seq is not None and norm(seq) == norm(want_seq):
                        ctx.ok("R-CUMUL", f"{where}: unit {field} = its share of the declared {field}")
                    else:
                        ctx.violation("R-CUMUL", where, f"unit workers carry the shares of the declared {field}",
                                      f"a unit worker gets {field} {show(got)[:160] if isinstance(got, tuple) else got}, which is not the "
                                      f"element at its position of _distribute_p_over_n(self.{field}, self.size): the units no longer "
                                      f"add up to the declared {field}", first_line(ctx.project, cname))
        # each unit worker registers in problem.workers (the capacity loop ranges over that registry)
        regs = [ev for ev in r.events_of("store") if "workers" in show(ev.data["container"]) and ev.loops
                and ev.data["container"] == A(("glob", "processscheduler.base.active_problem"), "workers")]
        if regs:
            ctx.ok("R-CUMUL", f"{where}: unit workers are registered in problem.workers")
        else:
            ctx.violation("R-CUMUL", where, "unit workers registered as workers",
                          "the unit workers of a cumulative worker are not added to problem.workers: no capacity assertion covers them",
                          first_line(ctx.project, cname))
    ctx.floor("R-CUMUL", "accepting constructor paths", n, 1)


def r_work_amount(ctx):
    where = "SchedulingSolver.initialize"
    Tk = loop(0, task_rules.values_of("tasks"))
    t = elem(Tk)
    R = loop("b0.0", A(t, "_required_resources"))
    r = elem(R)
    busy = ("idx", A(r, "_busy_intervals"), t)
    total = app("Sum", ("each", (R,), (), mul(A(r, "productivity"), sub(idx(busy, 1), idx(busy, 0)))))
    rel = ge(total, A(t, "work_amount"))
    for run in task_rules.init_runs(ctx, "R-WORK-AMOUNT"):
        cfgs = describe_config(run)
        hits = []
        for loops, guards, term, ev in solver_stream(run):
            if "work_amount" in show(term):
                hits.append((loops, guards, term))
        if len(hits) != 1:
            ctx.violation("R-WORK-AMOUNT", where, "one work-amount assertion per task",
                          f"on [{cfgs}] {len(hits)} assertion(s) mention work_amount", "processscheduler/solver.py")
            continue
        g = conj_groups(hits)
        from sa.decide import canon
        opt = A(t, "optional")
        want_opt = Implies(A(t, "_scheduled"), rel)
        allowed = {repr(canon(gt(A(t, "work_amount"), K(0))))}
        ok_loop, ok_body, extra = True, True, []
        seen_opt = set()
        sig = None
        body = None
        for sig, bodies in g.items():
            loops, guards = sig
            ok_loop = ok_loop and len(loops) == 1 and loops[0][3] == norm(Tk[3])
            body = bodies[0]
            # python-level guards allowed: work_amount > 0, "the task has resources", and the optional flag of the task
            is_opt = [x for x in guards if repr(canon(x)) == repr(canon(opt))]
            is_mand = [x for x in guards if repr(canon(x)) == repr(canon(app("not", opt)))]
            extra += [x for x in guards if repr(canon(x)) not in allowed and "_required_resources" not in show(x)
                      and x not in is_opt and x not in is_mand]
            if body[0] == "phi":
                seen_opt |= {True, False}
                ok_body = ok_body and norm(body[1]) == norm(opt) and decide_equiv(ctx, body[2], want_opt)[0] and decide_equiv(ctx, body[3], rel)[0]
            elif is_mand:
                seen_opt.add(False)
                ok_body = ok_body and decide_equiv(ctx, body, rel)[0]
            else:
                # an optional task - or one whose optional flag is not looked at: only the guarded form is safe
                seen_opt.add(True)
                if not is_opt:
                    seen_opt.add(False)
                ok_body = ok_body and decide_equiv(ctx, body, want_opt)[0]
        ok_body = ok_body and seen_opt == {True, False}
        if ok_loop and ok_body and not extra:
            ctx.ok("R-WORK-AMOUNT", f"{where} [{cfgs}]", sample={"emitted": show(body)[:400]})
        else:
            ctx.violation("R-WORK-AMOUNT", where, "Sum(productivity * busy length) >= work_amount, scheduled-guarded",
                          f"on [{cfgs}] emitted {show(body)[:360]} for [{show_sig(sig)[:200]}] (unfiltered task loop: {ok_loop}, "
                          f"term as documented and guarded by the scheduled flag of an optional task: {ok_body}, extra guards: "
                          f"{[show(x) for x in extra]})", "processscheduler/solver.py")


def r_dup_required(ctx):
    """one worker serves one task through one requirement: the busy dict of a worker is keyed by task, the work amount sums over
    `_required_resources`, and the z3 names of the busy interval carry (worker, task) only - a worker reached twice by the same
    task (two selections sharing it, or a direct requirement plus a selection) overwrites its own interval and is counted twice.
    The duplicate test of add_required_resource must therefore look at what is stored (the workers), on every branch."""
    where = "Task.add_required_resource"
    runs = runs_of(ctx, Entry("method", cls="Task", name="add_required_resource", opaque=OPAQUE))
    fails_closed(ctx, "R-DUP-REQUIRED", runs)
    n = 0
    bad = {}
    for run in runs:
        if run.rejected:
            continue
        dec = dict(run.decisions)
        kind = "worker" if dec.get("isinstance(resource, Worker)") is True else "selection" if dec.get("isinstance(resource, SelectWorkers)") is True \
            else "cumulative worker" if dec.get("isinstance(resource, CumulativeWorker)") is True else None
        if kind is None:
            continue
        n += 1
        stored = [ev.data["args"][0] for ev in run.events_of("mcall") if ev.data["name"] == "append"
                  and ev.data["recv"] == A(SELF, "_required_resources") and ev.data["args"]]
        tested = [g_[2] for ev in run.events_of("raise") for g_ in ev.guards
                  if is_app(g_, "in") and len(g_) == 4 and g_[3] == A(SELF, "_required_resources")]
        if stored and all(any(norm(s_) == norm(t_) for t_ in tested) for s_ in stored):
            ctx.ok("R-DUP-REQUIRED", f"{where} [{kind}]: the duplicate test looks at what is stored")
        else:
            bad.setdefault(kind, ([show(s_)[:40] for s_ in stored], [show(t_)[:40] for t_ in tested], describe_config(run)[:80]))
    for kind, (st_, te_, cfgs) in sorted(bad.items()):
        ctx.violation("R-DUP-REQUIRED", where, f"duplicate test misses the workers of a {kind}",
                      f"for a {kind} the method stores {st_} in _required_resources but tests {te_} for membership: the same worker can be "
                      f"required twice by one task (two selections sharing a worker, or a direct requirement plus a selection) - its busy "
                      f"interval for the task is overwritten, the two requirements share one pair of z3 constants, and its work is counted "
                      f"twice (work_amount 4 met with 2 units of work)", "processscheduler/task.py")
    ctx.floor("R-DUP-REQUIRED", "accepting paths by resource kind", n, 3)


def r_reported_assignment(ctx):
    """'every scheduled task occupies each required worker for ...' is read by the user from the returned schedule: the
    assignment a resource reports is the model value of the stored busy pair, listed exactly when the task lists the resource
    (R-VIEW-SYMMETRY, shared with C11)"""
    from rules import solution
    solution.r_view_symmetry(ctx)


def r_declared_reaches_solver(ctx):
    """what is declared before solve() is what the solver asserts: the constraint system is built lazily, once, by the first
    answering call and never by the solver's constructor (R-INIT-ONCE, shared with C13)"""
    from rules import driver
    driver.r_init_once(ctx)


def r_resources_assert_nothing(ctx):
    """a worker, a cumulative worker or a selection constrains nothing by itself (the selection's count is asserted with the task
    that uses it): R-OWN-EXACT restricted to the resource classes"""
    from rules import indicators
    indicators.r_own_exact(ctx, bases=("Resource",))


RULES = [r_resources_assert_nothing, r_dup_required, r_pairwise, r_busy_bind, r_select_workers, r_neg_point, r_cumul, r_work_amount,
         lambda ctx: task_rules.r_drain(ctx, only=("workers", "tasks")), r_reported_assignment, r_declared_reaches_solver,
         # `busy >= 0` is the reporters' (and R-VIEW-SYMMETRY's) test for 'assigned': every task class asserts start >= 0 (R-TASK-OBLIG)
         lambda ctx: task_rules.r_task_oblig(ctx),
         lambda ctx: __import__("rules.validation", fromlist=["x"]).r_dup_name(ctx, only=('add_resource_worker', 'add_resource_select_workers', 'add_resource_cumulative_worker'))]
