"""C04 - every resource constraint emits its documented relation.

R-RC-RELATION  per class x configuration (order types / canonical atoms / truth tables)
R-FUNDEF       WorkLoad's overlap variable: in every order type of (start, end, lo, hi) exactly one consistent
               definition, equal to max(0, min(end, hi) - max(start, lo))
R-ATTR         every attribute read on a receiver of known class resolves (whole program)
R-UNION-EXH    readers of a Union[Worker, CumulativeWorker] resource reach the unit workers' busy intervals
R-LOOPVAR      a for-target read after its loop must not flow into an emitted term
R-PERIODIC-STRUCT  structure of the two periodic encodings (their modular arithmetic is NOT decided)
Oracle: docs/resource_constraints.md, class docstrings, property statement.
"""
from __future__ import annotations

import ast

from sa import project as P
from sa.decide import lin, Lin, weak_orderings, canon_atom
from sa.interp import Entry
from sa.lib import *
from sa.lib import _rename_loops
from sa.terms import subterms
from rules.task_constraints import mandatory_runs, kind_of, apply_config

SELF = S("self")
OPAQUE = ("sort_no_duplicates", "sort_duplicates")
T = lambda n: S(f"self.{n}")


def worker_source(run):
    """(loops, worker term) of the unit workers the constraint ranges over on this path"""
    dec = dict(run.decisions)
    # `resource` is declared Union[Worker, CumulativeWorker]: either test decides the kind, in either polarity
    plain = dec.get("isinstance(self.resource, Worker)") is True or dec.get("isinstance(self.resource, CumulativeWorker)") is False
    if plain:
        return (), T("resource")
    W = loop(90, A(T("resource"), "_cumulative_workers"))
    return (W,), elem(W)


def busy_values(w):
    return ("mcall", A(w, "_busy_intervals"), "values", (), ())


def busy_items(w):
    return ("mcall", A(w, "_busy_intervals"), "items", (), ())


def spec_unavailable(run):
    wl, w = worker_source(run)
    I = loop(91, T("list_of_time_intervals"))
    B = loop(92, busy_values(w))
    b, itv = elem(B), elem(I)
    return [(wl + (I, B), (), Or(ge(idx(b, 0), idx(itv, 1)), le(idx(b, 1), idx(itv, 0))))], None


def spec_interrupted(run):
    wl, w = worker_source(run)
    Bi = loop(91, busy_items(w))
    I = loop(92, T("list_of_time_intervals"))
    item, itv = elem(Bi), elem(I)
    task, b = idx(item, 0), idx(item, 1)
    s, e, lo, hi = idx(b, 0), idx(b, 1), idx(itv, 0), idx(itv, 1)
    is_var = app("isinstance", task, K(("VariableDurationTask",)))
    items = [
        (wl + (Bi, I), (app("not", is_var),), Or(ge(s, hi), le(e, lo))),
        (wl + (Bi, I), (is_var,), And(Or(le(s, lo), ge(s, hi)), Or(le(e, lo), ge(e, hi)))),
    ]
    def dc(sig):
        for l in sig[0]:
            if norm(l[3]) == T("list_of_time_intervals"):
                return eq(idx(elem(l), 0), idx(elem(l), 1))
        return None
    return items, dc


RELATION_SPECS = {
    "ResourceUnavailable": (spec_unavailable, "docs/resource_constraints.md: ResourceUnavailable - no work inside the intervals"),
    "ResourceInterrupted": (spec_interrupted, "docs/resource_constraints.md: ResourceInterrupted - fixed-duration tasks never overlap an "
                                               "interruption, variable-duration tasks neither start nor end strictly inside one"),
}


def _duration_bounds_interrupted(ctx, run, groups, where, location):
    """duration >= min_duration + total overlap (scheduled-guarded for optional tasks), duration <= max_duration + total overlap"""
    wl, w = worker_source(run)
    wl_n, _, _ = _rename_loops(wl + (loop(91, busy_items(w)),), (), TRUE)
    found_min = found_max = False
    for sig, bodies in groups.items():
        loops, guards = sig
        if loops != wl_n:
            continue
        item = elem(loops[-1])
        if isinstance(loops[-1][3], tuple) and len(loops[-1][3]) == 5 and loops[-1][3][0] == "mcall" and loops[-1][3][2] == "items":
            task, b = idx(item, 0), idx(item, 1)
        else:
            task, b = item, ("idx", loops[-1][3], item)     # the key loop over the busy dict (canonical form of .items())
        s, e = idx(b, 0), idx(b, 1)
        for body in bodies:
            alts = [body]
            if body[0] == "phi":
                alts = [body[2], body[3]]
            for alt in alts:
                core = alt[3] if is_app(alt, "Implies") else alt
                if is_app(core) and core[1] in (">=", "<=") and len(core) == 4 and core[3] == A(task, "_duration"):
                    core = app({">=": "<=", "<=": ">="}[core[1]], core[3], core[2])
                if not (is_app(core) and core[1] in (">=", "<=") and len(core) == 4 and core[2] == A(task, "_duration")):
                    continue
                rhs = core[3]
                if not (is_app(rhs, "+") and len(rhs) == 4):
                    continue
                base, total = rhs[2], rhs[3]
                if is_app(total, "Sum") and len(total) == 3 and total[2][0] == "each" and len(total[2][1]) > 1:
                    ctx.violation("R-RC-RELATION", where, "duration bound with the overlapped time",
                                  f"the time added to the duration bound of one task is summed over "
                                  f"{[show(norm(l[3]))[:80] for l in total[2][1]]}, not over the interruption intervals only: "
                                  f"{show(norm(total))[:260]}", location)
                    found_min = found_max = True
                    continue
                if not (is_app(total, "Sum") and len(total) == 3 and total[2][0] == "each" and len(total[2][1]) == 1):
                    raise P.AnalysisError(f"R-RC-RELATION: {where}: total overlap term not understood: {show(total)[:200]}")
                L = total[2][1][0]
                itv = elem(L)
                lo, hi = idx(itv, 0), idx(itv, 1)
                t = total[2][3]
                ok_iter = norm(L[3]) == T("list_of_time_intervals") and not total[2][2]
                ok_if = is_app(t, "If") and len(t) == 5 and t[4] == K(0) and lin(t[3]) == lin(sub(hi, lo))
                ok_cond = False
                if ok_if:
                    overlap = Not(Or(ge(s, hi), le(e, lo)))
                    ok_cond, wit, _ = decide_equiv(ctx, t[2], overlap, dont_care=eq(lo, hi))
                is_min = core[1] == ">=" and base == A(task, "min_duration")
                is_max = core[1] == "<=" and base == A(task, "max_duration")
                if (is_min or is_max) and ok_iter and ok_if and ok_cond:
                    if is_min:
                        found_min = True
                        if body[0] == "phi":
                            guard_ok = norm(body[1]) == A(task, "optional") and is_app(body[2], "Implies") \
                                and body[2][2] == A(task, "_scheduled")
                            if not guard_ok:
                                ctx.violation("R-SCHED-GUARD", where, "min-duration bound of an optional task",
                                              "the lengthened minimum duration is not under the task's scheduled guard", location)
                    else:
                        found_max = True
                else:
                    ctx.violation("R-RC-RELATION", where, "duration bound with the overlapped time",
                                  f"{show(core)[:300]} is not `duration >=/<= min/max duration + sum over the intervals of "
                                  f"(hi - lo) when the task overlaps the interval`", location)
    if found_min and found_max:
        ctx.ok("R-RC-RELATION", f"{where} [{describe_config(run)}] duration bounds lengthened by the overlapped time",
               sample={"decided": "If(overlap, hi - lo, 0) per interval; overlap by order types"})
    else:
        ctx.violation("R-RC-RELATION", where, "duration bounds of interrupted variable-duration tasks",
                      f"lengthened minimum found: {found_min}, lengthened maximum found: {found_max}", location)


def r_rc_relation(ctx):
    rows = 0
    for cname, (spec_fn, cite) in RELATION_SPECS.items():
        runs = runs_of(ctx, Entry("init", cls=cname, opaque=OPAQUE))
        fails_closed(ctx, "R-RC-RELATION", runs)
        where = f"{cname}.__init__"
        for run in mandatory_runs(runs):
            own = [e for e in run.emissions if e.owner == SELF]
            location = loc(own[0]) if own else first_line(ctx.project, cname)
            spec_items, dc = spec_fn(run)
            em_items = emission_items(own)
            groups = conj_groups(em_items)
            if cname == "ResourceInterrupted":
                # the duration-bound groups are handled structurally
                wl, w = worker_source(run)
                wl_n, _, _ = _rename_loops(wl + (loop(91, busy_items(w)),), (), TRUE)
                _duration_bounds_interrupted(ctx, run, groups, where, location)
                em_items = [it for it in em_items]
                keep = {}
                spec_groups = conj_groups(spec_items)
                filtered = []
                for l, g, t in em_items:
                    parts = []
                    split_conjuncts(l, g, t, parts)
                    for pl, pg, pb in parts:
                        if "_duration" in show(pb):
                            continue
                        filtered.append((pl, pg, pb))
                em_items = filtered
            compare_groups(ctx, "R-RC-RELATION", where, location, em_items, spec_items, f"[{describe_config(run)}]", dont_care=dc)
            rows += 1
            _check_unassigned_raise(ctx, run, where, location)
    r_workload(ctx)
    r_distance(ctx)
    r_same_distinct(ctx)
    ctx.floor("R-RC-RELATION", "class x configuration rows", rows, 4)
    ctx.assume("interval bounds satisfy lo <= hi; a zero-length interruption interval (lo == hi) is a don't-care")


def _check_unassigned_raise(ctx, run, where, location):
    """a resource that has no busy interval yet is rejected (R-RAISE-UNASSIGNED)"""
    rs = [ev for ev in run.events_of("raise") if "resource_assigned" in show(And(*ev.guards)) or "not assigned" in ev.data.get("src", "")
          or "at least 2" in ev.data.get("src", "")]
    if rs:
        ctx.ok("R-RAISE-UNASSIGNED", f"{where} [{describe_config(run)}]")
    else:
        ctx.violation("R-RAISE-UNASSIGNED", where, "unassigned resource accepted",
                      "the constructor does not reject a resource that is not assigned to any task, as its siblings do", location)


# ---------------------------------------------------------------------------
# WorkLoad
# ---------------------------------------------------------------------------
def r_workload(ctx):
    cname = "WorkLoad"
    runs = runs_of(ctx, Entry("init", cls=cname, opaque=OPAQUE))
    fails_closed(ctx, "R-FUNDEF", runs)
    where = f"{cname}.__init__"
    seen = set()
    for run in mandatory_runs(runs):
        kind = kind_of(run)
        seen.add(kind)
        own = [e for e in run.emissions if e.owner == SELF]
        location = loc(own[0]) if own else first_line(ctx.project, cname)
        wl, w = worker_source(run)
        I = loop(91, T("dict_time_intervals_and_bound"))
        B = loop(92, busy_values(w))
        sig_n = _rename_loops(wl + (I, B), (), TRUE)[0]
        groups = conj_groups(emission_items(own))
        key = (sig_n, ())
        # accept get_busy_intervals() spelled as list(values())
        if key not in groups:
            B2 = loop(92, ("call", "list", (busy_values(w),), ()))
            key = (_rename_loops(wl + (I, B2), (), TRUE)[0], ())
        if key not in groups:
            ctx.violation("R-FUNDEF", where, "overlap definition per (interval, busy interval)",
                          f"on [{describe_config(run)}] no assertion group over every time interval x every busy interval of every unit "
                          f"worker; groups: {[show_sig(s)[:140] for s in groups]}", location)
            continue
        loops = key[0]
        # identify the loop elements by their iterables
        itv = b = None
        for l in loops:
            if norm(l[3]) == T("dict_time_intervals_and_bound"):
                itv = elem(l)
            elif "_busy_intervals" in show(l[3]):
                b = elem(l)
        s, e, lo, hi = idx(b, 0), idx(b, 1), idx(itv, 0), idx(itv, 1)
        bodies = groups[key]
        durs = {x for body in bodies for x in subterms(body) if x and x[0] == "z3var" and x[1] == "Int"}
        if len(durs) != 1:
            raise P.AnalysisError(f"R-FUNDEF: {where}: expected one overlap variable per busy interval, found {len(durs)}")
        dur = next(iter(durs))
        defs, nonneg, other = [], False, []
        for body in bodies:
            if is_app(body, "Implies") and len(body) == 4 and is_app(body[3], "==") and dur in (body[3][2], body[3][3]):
                expr = body[3][3] if body[3][2] == dur else body[3][2]
                defs.append((body[2], expr))
            elif canon_atom(body) is not None and canon_atom(body) == canon_atom(ge(dur, K(0))):
                nonneg = True
            else:
                other.append(body)
        extra = [o for o in other if canon_atom(o) is not None and set(canon_atom(o)[1].coef) == {dur}]
        for o in extra:
            ctx.violation("R-FUNDEF", where, f"extra bound on the overlap variable: {show(o)[:120]}",
                          f"the overlap variable is additionally constrained by {show(o)[:160]}, which its definition "
                          f"max(0, min(end,hi) - max(start,lo)) does not imply", location)
        other = [o for o in other if o not in extra]
        if other:
            raise P.AnalysisError(f"R-FUNDEF: {where}: assertion about the overlap variable not understood: {show(other[0])[:200]}")
        pts = [s, e, lo, hi]
        bad = None
        n_types = 0
        for rank in weak_orderings(4):
            rk = dict(zip(pts, rank))
            if rk[s] > rk[e] or rk[lo] > rk[hi]:
                continue
            n_types += 1

            def lv(a):
                x, y = rk[norm(a[2])], rk[norm(a[3])]
                return {"<": x < y, "<=": x <= y, ">": x > y, ">=": x >= y, "==": x == y, "!=": x != y}[a[1]]

            rep = {}
            for p_ in pts:
                rep[p_] = [q for q in pts if rk[q] == rk[p_]][0]

            def canon_val(t):
                l = lin(t)
                out = Lin(const=l.const)
                for leaf, c in l.coef.items():
                    out = out.add(Lin({rep.get(leaf, leaf): c}))
                return out

            active = [canon_val(expr) for cond, expr in defs if eval_formula(cond, lv)]
            mn = e if rk[e] <= rk[hi] else hi
            mx = s if rk[s] >= rk[lo] else lo
            want = Lin() if rk[mn] <= rk[mx] else canon_val(sub(mn, mx))
            from sa.decide import describe_ordering
            if not active:
                bad = (describe_ordering(pts, rank), "no definition is active: the overlap variable is free")
                break
            if any(a != active[0] for a in active):
                bad = (describe_ordering(pts, rank), f"conflicting definitions {[a.show() for a in active]}: this placement is infeasible")
                break
            if active[0] != want:
                bad = (describe_ordering(pts, rank), f"overlap defined as {active[0].show()} instead of {want.show()}")
                break
        ctx.order_types += n_types
        inst = f"{where} [{describe_config(run)}] overlap variable"
        if bad is None and nonneg:
            ctx.ok("R-FUNDEF", inst, sample={"definitions": [f"{show(c)[:120]} => {show(x)[:60]}" for c, x in defs],
                                             "order_types": n_types, "spec": "max(0, min(end,hi) - max(start,lo))"})
        elif bad is None:
            ctx.ok("R-FUNDEF", inst + " (no explicit dur >= 0, implied by the definitions)")
        else:
            ctx.violation("R-FUNDEF", where, "overlap variable is max(0, min(end,hi) - max(start,lo))",
                          f"order type {bad[0]}: {bad[1]}", location, witness=bad[0])
        # the per-interval sum compared by kind
        rel = {"exact": "==", "max": "<=", "min": ">="}.get(kind)
        I_n = _rename_loops((I,), (), TRUE)[0]
        got = groups.get((I_n, ()), [])
        sumloops = tuple(l for l in (wl + (B,)))
        key2 = None
        ok_sum = False
        for g_ in got:
            ca = canon_atom(g_)
            if is_app(g_) and g_[1] in ("==", "<=", ">=") and len(g_) == 4 and is_app(g_[3], "Sum") and not is_app(g_[2], "Sum"):
                g_ = app({"==": "==", "<=": ">=", ">=": "<="}[g_[1]], g_[3], g_[2])
            if is_app(g_) and g_[1] in ("==", "<=", ">=") and len(g_) == 4 and is_app(g_[2], "Sum") and len(g_[2]) == 3 \
                    and g_[2][2][0] == "each" and g_[2][2][3][0] == "z3var" and not g_[2][2][2]:
                inner_iters = [show(_erase(l[3])) for l in g_[2][2][1]]
                want_iters = [show(_erase(l[3])) for l in _rename_loops(wl + (loop(92, loops[-1][3] if False else B[3]),), (), TRUE)[0]]
                bound = g_[3]
                itv1 = elem(I_n[0])
                ok_bound = bound == ("idx", T("dict_time_intervals_and_bound"), itv1)
                ok_rel = g_[1] == rel
                ok_iters = len(g_[2][2][1]) == len(wl) + 1 and "_busy_intervals" in inner_iters[-1] \
                    and (not wl or "_cumulative_workers" in inner_iters[0])
                ok_sum = ok_bound and ok_rel and ok_iters
        if ok_sum:
            ctx.ok("R-RC-RELATION", f"{where} kind={kind}: Sum of the overlaps {rel} bound, per interval")
        else:
            ctx.violation("R-RC-RELATION", where, f"kind={kind}: Sum(overlaps) {rel} bound per interval",
                          f"on [{describe_config(run)}] found {[show(x)[:200] for x in got]}", location)
        _check_unassigned_raise(ctx, run, where, location)
    if seen != {"exact", "max", "min"}:
        raise P.AnalysisError(f"R-FUNDEF: WorkLoad kinds seen {seen}")


def _erase(t):
    from sa.lib import _erase_ids
    return _erase_ids(t)


# ---------------------------------------------------------------------------
# ResourceTasksDistance / ResourceNonDelay
# ---------------------------------------------------------------------------
def _sorted_call(listterm):
    return ("call", "util.sort_no_duplicates", (listterm,), ())


def r_distance(ctx):
    for cname in ("ResourceTasksDistance", "ResourceNonDelay"):
        runs = runs_of(ctx, Entry("init", cls=cname, opaque=OPAQUE))
        fails_closed(ctx, "R-RC-RELATION", runs)
        where = f"{cname}.__init__"
        for run in mandatory_runs(runs):
            own = [e for e in run.emissions if e.owner == SELF]
            location = loc(own[0]) if own else first_line(ctx.project, cname)
            Lb = loop("b0.0", busy_values(T("resource")))
            starts = ("list", (("each", (Lb,), (), idx(elem(Lb), 0)),))
            ends = ("list", (("each", (Lb,), (), idx(elem(Lb), 1)),))
            ss, se = _sorted_call(starts), _sorted_call(ends)
            l1, l2 = loop(0, idx(ss, 1)), loop(0, idx(se, 1))
            li = loop(0, ("range", K(1), ("call", "len", (idx(ss, 0),), ())))
            i = elem(li)
            prev_end, cur_start = ("idx", idx(se, 0), sub(i, K(1))), ("idx", idx(ss, 0), i)
            gap = sub(cur_start, prev_end)
            if cname == "ResourceNonDelay":
                rel = eq(cur_start, prev_end)
                cond = And(ge(prev_end, K(0)), ge(cur_start, K(0)))
            else:
                mode = kind_of(run, "self.mode")
                op = {"exact": "==", "max": "<=", "min": ">="}.get(mode)
                if op is None:
                    ctx.violation("R-LITERAL-EXH", where, f"mode={mode!r}", "no documented relation for this mode", location)
                    continue
                rel = app(op, gap, T("distance"))
                v = leaf_value(run, "self.list_of_time_intervals")
                if v is not None and v[1] is None:
                    cond = And(ge(prev_end, K(0)), ge(cur_start, K(0)))
                else:
                    Lt = loop("b0.0", T("list_of_time_intervals"))
                    lo, hi = idx(elem(Lt), 0), idx(elem(Lt), 1)
                    cond = app("Or", ("each", (Lt,), (), And(ge(cur_start, lo), ge(prev_end, lo), le(cur_start, hi), le(prev_end, hi))))
            spec = [((l1,), (), elem(l1)), ((l2,), (), elem(l2)), ((li,), (), Implies(cond, rel))]
            em = [(e.loops, e.guards, apply_config(run, e.term)) for e in own]
            compare_groups(ctx, "R-RC-RELATION", where, location, em, spec, f"[{describe_config(run)}]")
            if cname == "ResourceTasksDistance":
                _check_unassigned_raise(ctx, run, where, location)


from sa.values import PyDict


def _flags_are_never_none(ctx) -> bool:
    """every value SelectWorkers.__init__ puts into _selection_dict is a z3 Bool made there (so `d.get(w) is None` says exactly
    that w is not a key)"""
    runs = runs_of(ctx, Entry("init", cls="SelectWorkers", opaque=OPAQUE))
    n = 0
    for run in runs:
        if run.rejected:
            continue
        stores = [ev for ev in run.events_of("store") if ev.data["container"] == A(SELF, "_selection_dict")]
        d = run.heap.get((SELF, "_selection_dict"))
        vals = [ev.data["value"] for ev in stores]
        if isinstance(d, PyDict):
            vals += [v if isinstance(v, tuple) else None for (_k, v, _l, _g) in d.entries]
        if not vals or not all(isinstance(v, tuple) and v and v[0] == "z3var" and v[1] == "Bool" for v in vals):
            return False
        n += 1
    return n > 0


def _get_as_lookup(items, dicts):
    """`d.get(k) is None` is `k not in d`, and d.get(k) under `k in d` is d[k] - for the dicts whose values are never None;
    an asserted conditional `a if c else b` is a under c and b under not c"""
    def is_get(t):
        return isinstance(t, tuple) and len(t) == 5 and t[0] == "mcall" and t[2] == "get" and len(t[3]) == 1 and not t[4] and t[1] in dicts

    def tests(t):
        if is_app(t) and t[1] in ("is", "is not") and len(t) == 4 and t[3] == NONE and is_get(t[2]):
            inn = app("in", t[2][3][0], t[2][1])
            return app("not", inn) if t[1] == "is" else inn
        if is_app(t, "not") and len(t) == 3 and is_app(t[2], "not") and len(t[2]) == 3:
            return rewrite(t[2][2], tests)
        return None
    out = []
    todo = [(lp, tuple(gs), tm) for lp, gs, tm in items]
    while todo:
        lp, gs, tm = todo.pop(0)
        if isinstance(tm, tuple) and tm and tm[0] == "phi" and len(tm) == 4:
            todo = [(lp, gs + (tm[1],), tm[2]), (lp, gs + (app("not", tm[1]),), tm[3])] + todo
            continue
        gs2 = tuple(norm(rewrite(rewrite(g, tests), tests)) for g in gs)
        present = {(g[2], g[3]) for g in gs2 if is_app(g, "in") and len(g) == 4}

        def lookups(t):
            if is_get(t) and (t[3][0], t[1]) in present:
                return ("idx", t[1], t[3][0])
            return None
        out.append((lp, gs2, rewrite(tm, lookups)))
    return out


def r_same_distinct(ctx):
    never_none = _flags_are_never_none(ctx)
    for cname, rel in (("SameWorkers", lambda a, b: eq(a, b)), ("DistinctWorkers", lambda a, b: Not(And(a, b)))):
        runs = runs_of(ctx, Entry("init", cls=cname, opaque=OPAQUE))
        fails_closed(ctx, "R-RC-RELATION", runs)
        where = f"{cname}.__init__"
        for run in mandatory_runs(runs):
            own = [e for e in run.emissions if e.owner == SELF]
            location = loc(own[0]) if own else first_line(ctx.project, cname)
            d1, d2 = A(T("select_workers_1"), "_selection_dict"), A(T("select_workers_2"), "_selection_dict")
            L = loop(0, d1)
            w = elem(L)
            spec = [((L,), (app("in", w, d2),), rel(("idx", d1, w), ("idx", d2, w)))]
            if cname == "SameWorkers":
                # 'both selections select the same worker(s)' (docs/resource_constraints.md, class docstring): equal flags for the
                # workers both offer, and a worker that only one of the two offers cannot be selected on that side
                L2 = loop(1, d2)
                w2 = elem(L2)
                spec += [((L,), (app("not", app("in", w, d2)),), Not(("idx", d1, w))),
                         ((L2,), (app("not", app("in", w2, d1)),), Not(("idx", d2, w2)))]
            items = emission_items(own)
            if never_none:
                items = _get_as_lookup(items, (d1, d2))
            compare_groups(ctx, "R-RC-RELATION", where, location, items, spec, f"[{describe_config(run)}]")


# ---------------------------------------------------------------------------
# whole-program attribute resolution, union exhaustiveness, escaped loop variables
# ---------------------------------------------------------------------------
def all_entries(ctx):
    proj = ctx.project
    out = []
    for base in ("Constraint", "Indicator", "Objective", "Task", "Resource", "Buffer"):
        for c in proj.subclasses(base, strict=False):
            out.append(Entry("init", cls=c.name, opaque=OPAQUE))
    out.append(Entry("method", cls="Task", name="add_required_resource", opaque=OPAQUE))
    for m in ("initialize", "build_solution", "create_objective", "build_equivalent_weighted_objective", "export_to_smt2",
              "find_another_solution", "find_another_solution_for_variable"):
        out.append(Entry("method", cls="SchedulingSolver", name=m,
                         opaque=OPAQUE + ("clean_buffer_levels", "solve", "initialize") if m not in ("initialize",) else OPAQUE))
    return out


def r_attr(ctx, modules=("resource_constraint",)):
    seen, n = set(), 0
    for entry in all_entries(ctx):
        runs = runs_of(ctx, entry)
        for run in runs:
            n += 1
            for ev in run.events_of("attr-unresolved"):
                if modules is not None and ev.site.module not in modules:
                    continue
                key = (ev.site.func, show(ev.data["base"]), ev.data["attr"])
                if key in seen:
                    continue
                seen.add(key)
                ctx.violation("R-ATTR", ev.site.func, f"{show(ev.data['base'])}.{ev.data['attr']}",
                              f"attribute `{ev.data['attr']}` does not exist on {list(ev.data['classes'])} "
                              f"(receiver {show(ev.data['base'])} may be {list(ev.data['all_classes'])}): AttributeError at run time",
                              f"processscheduler/{ev.site.module}.py:{ev.site.lineno}")
    ctx.floor("R-ATTR", "configuration paths scanned", n, 500)
    if not seen:
        ctx.ok("R-ATTR", f"every attribute read on a receiver of known class resolves ({n} paths)", nontrivial=True)


UNION_READERS_OK = {}


def r_union_exh(ctx, bases=("Constraint",)):
    """a function holding a Union[Worker, CumulativeWorker] and reading `_busy_intervals` on it must narrow to the unit
    workers for the cumulative alternative: CumulativeWorker._busy_intervals is never written on the normal assignment route"""
    proj = ctx.project
    n = 0
    for base in bases:
        for c in proj.subclasses(base):
            f = c.all_fields().get("resource")
            takes_data = False
            if f is None:
                oc, fn = c.find_method("__init__")
                if fn is None or oc.name in ("Constraint", "Indicator", "Objective", "NamedUIDObject"):
                    continue
            runs = runs_of(ctx, Entry("init", cls=c.name, opaque=OPAQUE))
            where = f"{c.name}.__init__"
            flagged = False
            for run in runs:
                if run.rejected:
                    continue
                for e in run.emissions:
                    for x in list(subterms(e.term)) + [y for l in e.loops for y in subterms(l[3])]:
                        if x and x[0] == "attr" and x[2] == "_busy_intervals":
                            recv = x[1]
                            if recv[0] == "attr" and recv[1] == SELF and recv[2] == "resource":
                                d = run.doms.get(recv)
                                classes = d.classes if d is not None and d.classes is not None else None
                                fld = c.all_fields().get("resource")
                                declared = set(P.type_classes(fld.type)) if fld is not None else set()
                                if "CumulativeWorker" in declared and (classes is None or "CumulativeWorker" in classes):
                                    flagged = True
                            elif recv[0] == "idx" and recv[2] == K("resource") and recv[1] == S("data"):
                                flagged = True
            n += 1
            if flagged:
                ctx.violation("R-UNION-EXH", where, "cumulative resource read through its own (empty) busy dict",
                              f"{c.name} reads resource._busy_intervals without expanding a CumulativeWorker into its unit workers: "
                              f"for a cumulative worker the dict is empty", first_line(proj, c.name))
    ctx.floor("R-UNION-EXH", "classes scanned", n, 8)


def r_union_exh_raise(ctx, bases=("Constraint",)):
    """a rejection test must not read the busy dict of a possibly cumulative resource itself: that dict is never filled on the
    normal assignment route (the intervals live on the unit workers), so the test rejects every well-formed element on a
    cumulative worker (or never rejects)"""
    proj = ctx.project
    n = 0
    for base in bases:
        for c in proj.subclasses(base):
            fld = c.all_fields().get("resource")
            if fld is None or "CumulativeWorker" not in set(P.type_classes(fld.type)):
                continue
            runs = runs_of(ctx, Entry("init", cls=c.name, opaque=OPAQUE))
            where = f"{c.name}.__init__"
            bad = None
            for run in runs:
                for ev in run.events_of("raise"):
                    for g in ev.guards:
                        for x in subterms(g):
                            if x and x[0] == "attr" and x[2] == "_busy_intervals" and x[1] == A(SELF, "resource"):
                                d = run.doms.get(x[1])
                                classes = d.classes if d is not None and d.classes is not None else None
                                if classes is None or "CumulativeWorker" in classes:
                                    bad = (ev, g)
            n += 1
            if bad:
                ev, g = bad
                ctx.violation("R-UNION-EXH", where, "rejection test reads the cumulative resource's own (empty) busy dict",
                              f"{c.name} raises under `{show(norm(g))[:160]}` where the resource may be a CumulativeWorker: its own busy "
                              f"dict is never filled (the intervals live on the unit workers), so a well-formed constraint on an "
                              f"assigned cumulative worker is rejected", f"processscheduler/{ev.site.module}.py:{ev.site.lineno}")
            else:
                ctx.ok("R-UNION-EXH", f"{where}: no rejection test reads the cumulative resource's own busy dict", nontrivial=False)
    ctx.floor("R-UNION-EXH", "classes with a Union[Worker, CumulativeWorker] resource scanned for rejection tests", n, 5)


def r_loopvar(ctx, bases=("Constraint", "Indicator", "Objective"), solver=False):
    """a term emitted after a loop must not be built from the loop's own variables.  Findings are keyed by the loop that is
    escaped (its iterable), so that a second escape in the same constructor is a new finding"""
    n = 0
    found = {}

    def escaped(x):
        return x and x[0] == "loopout" and x[3] == ("k", "<unbound>")

    def over_of(lp):
        """the escaped loop, named by the tail of its iterable (independent of loop numbering and of the receiver's spelling)"""
        txt = show(norm(lp[3]))
        parts = txt.split(".")
        return ".".join(parts[-2:]) if len(parts) >= 2 else txt

    for base in bases:
        for c in ctx.project.subclasses(base):
            runs = runs_of(ctx, Entry("init", cls=c.name, opaque=OPAQUE))
            for run in runs:
                n += 1
                for e in run.emissions:
                    for x in subterms(e.term):
                        if escaped(x):
                            lp = x[2]
                            if lp not in e.loops:
                                where = e.site.func if e.site.func.endswith("__init__") else f"{c.name}.__init__"
                                found.setdefault((where, over_of(lp)[:100]), (set(), loc(e)))[0].add(x[1])
    for m in (("build_equivalent_weighted_objective",) if solver else ()):
        runs = runs_of(ctx, Entry("method", cls="SchedulingSolver", name=m, opaque=OPAQUE))
        for run in runs:
            n += 1
            for ev in run.events_of("new"):
                for k, v in ev.data["kwargs"]:
                    for x in subterms(v):
                        if escaped(x):
                            found.setdefault((f"SchedulingSolver.{m}", over_of(x[2])[:100]),
                                             (set(), f"processscheduler/solver.py:{ev.site.lineno}"))[0].add(x[1])
    for (where, over), (vars_, location) in sorted(found.items()):
        vs = sorted(vars_)
        ctx.violation("R-LOOPVAR", where, f"value bound inside the loop over {over} used after that loop in an emitted term",
                      f"{', '.join('`' + v + '`' for v in vs)} {'is' if len(vs) == 1 else 'are'} only bound inside the loop over {over} "
                      f"and read after it to build an emitted term: the term speaks about the last element only", location)
    ctx.floor("R-LOOPVAR", "paths scanned", n, 200 if bases else 1)
    if not found:
        ctx.ok("R-LOOPVAR", f"no emitted term uses an escaped loop variable ({n} paths)")


# ---------------------------------------------------------------------------
# periodic encodings: structure only
# ---------------------------------------------------------------------------
def r_periodic_struct(ctx):
    cname = "ResourcePeriodicallyUnavailable"
    runs = runs_of(ctx, Entry("init", cls=cname, opaque=OPAQUE))
    fails_closed(ctx, "R-PERIODIC-STRUCT", runs)
    where = f"{cname}.__init__"
    n = 0
    for run in mandatory_runs(runs):
        own = [e for e in run.emissions if e.owner == SELF]
        location = loc(own[0]) if own else first_line(ctx.project, cname)
        wl, w = worker_source(run)
        I = loop(91, T("list_of_time_intervals"))
        B = loop(92, busy_values(w))
        sig = (_rename_loops(wl + (I, B), (), TRUE)[0], ())
        groups = conj_groups(emission_items(own))
        if sig not in groups:
            B2 = loop(92, ("call", "list", (busy_values(w),), ()))
            sig = (_rename_loops(wl + (I, B2), (), TRUE)[0], ())
        n += 1
        if sig not in groups or len(groups) != 1:
            ctx.violation("R-PERIODIC-STRUCT", where, "one assertion per (interval, busy interval of every unit worker)",
                          f"on [{describe_config(run)}] groups: {[show_sig(s)[:160] for s in groups]}", location)
            continue
        b = itv = None
        for l in sig[0]:
            if "_busy_intervals" in show(l[3]):
                b = elem(l)
            elif norm(l[3]) == T("list_of_time_intervals"):
                itv = elem(l)
        body = norm(And(*groups[sig]))
        disj = list(body[2:]) if is_app(body, "Or") else [body]
        start_v, end_v = leaf_value(run, "self.start"), leaf_value(run, "self.end")
        dstart = run.doms.get(T("start"))
        want_mask = []
        if dstart is not None and dstart.lo is not None and dstart.lo >= 1:
            want_mask.append(norm(le(idx(b, 1), T("start"))))
        if not (end_v is not None and end_v[1] is None):
            want_mask.append(norm(ge(idx(b, 0), T("end"))))
        cores = [d for d in disj if "%" in show(d)]
        if len(cores) > 1:          # a core that is itself a disjunction is flattened into the mask disjunction
            cores = [Or(*cores)]
        masks = [norm(d) for d in disj if "%" not in show(d)]
        from sa.decide import canon as _canon
        ok = len(cores) == 1 and sorted(repr(_canon(m)) for m in masks) == sorted(repr(_canon(m)) for m in want_mask)
        used = show(cores[0]) if cores else ""
        params_ok = all(p_ in used for p_ in ("self.period", "self.offset")) and show(idx(itv, 0)) in used and show(idx(itv, 1)) in used \
            and show(idx(b, 0)) in used and show(idx(b, 1)) in used
        if ok and params_ok:
            ctx.ok("R-PERIODIC-STRUCT", f"{where} [{describe_config(run)}]",
                   sample={"core (modular arithmetic, NOT decided)": used[:200], "activity mask": [show(m) for m in masks]})
        else:
            ctx.violation("R-PERIODIC-STRUCT", where, "folded core + activity mask per busy interval",
                          f"on [{describe_config(run)}] core terms: {len(cores)}, mask found {[show(m) for m in masks]} expected "
                          f"{[show(m) for m in want_mask]}, all parameters used: {params_ok}", location)
        _check_unassigned_raise(ctx, run, where, location)
    ctx.floor("R-PERIODIC-STRUCT", "configurations", n, 8)
    ctx.note("the arithmetic of the `% period` encodings (folded start vs window, number of crossings) is outside the order-type "
             "domain and is not decided: only fan-out, parameters used, activity mask and rejection of unassigned resources are")


def _generic_periodic(t):
    """rename the busy tuple and the interval element to fixed symbols"""
    m = {}
    for s_ in subterms(t):
        if s_ and s_[0] == "idx" and is_const(s_[2]) and s_[2][1] in (0, 1) and isinstance(s_[1], tuple) and s_[1]:
            base = s_[1]
            its = " ".join(show(x[3]) for x in subterms(base) if x and x[0] == "loop")
            if "_busy_intervals" in its and not (base[0] == "elem" and ".items()" in its):
                m[s_] = ("sym", f"busy{s_[2][1]}")
            elif base[0] == "elem" and "list_of_time_intervals" in its:
                m[s_] = ("sym", f"itv{s_[2][1]}")
    return substitute(t, m)


def _conjuncts(t):
    if is_app(t, "And"):
        for a in t[2:]:
            yield from _conjuncts(a)
    elif isinstance(t, tuple) and t and t[0] == "each":
        yield from _conjuncts(t[3])
    else:
        yield t


def _fixed_periodic_cores(ctx, cname, rule):
    """(run, emission, conjunct) for the 'a task that cannot be interrupted does not meet the repeated interval' condition:
    top-level conjuncts (inside the activity-mask disjunction) that fold a busy start with `%` and use the busy end unfolded"""
    runs = runs_of(ctx, Entry("init", cls=cname, opaque=OPAQUE))
    fails_closed(ctx, rule, runs)
    out = []
    for run in mandatory_runs(runs):
        if worker_source(run)[0] != ():          # the plain-worker paths (either isinstance test, either polarity)
            continue
        for e in run.emissions:
            if e.owner != SELF:
                continue
            tops = []
            for c in _conjuncts(e.term):
                if is_app(c, "Or") and any("%" not in show(d) for d in c[2:]) and any("%" in show(d) for d in c[2:]):
                    for d in c[2:]:          # activity mask: Or(core, mask...)
                        tops += list(_conjuncts(d))
                else:
                    tops.append(c)
            for c in tops:
                g = _generic_periodic(c)
                if not (is_app(g) and g[1] in ("Xor", "Or") and "%" in show(g)):
                    continue
                mods = {x for x in subterms(g) if is_app(x, "%")}
                outside = substitute(g, {m_: ("sym", "folded") for m_ in mods})
                if "busy1" in show(outside) and "_duration" not in show(g):
                    out.append((run, e, c))
    return out


def r_periodic_core(ctx):
    """the folded non-overlap condition of the periodic constraints, decided: with f = (busy start - offset) % period
    (0 <= f < period), d = busy end - busy start >= 0 and an interval 0 <= lo < hi <= period repeated every period, the busy
    interval [f, f + d) meets none of the windows [lo + k*period, hi + k*period) iff
        f + d <= lo   or   (f >= hi and f + d <= lo + period)
    (windows k < 0 end before 0 <= f; window 0 and window 1 give the two bounds; windows k >= 2 follow from the second).
    Linear integer arithmetic over (f, d, lo, hi, period): truth table over the atoms, each distinguishing assignment
    refuted by Fourier-Motzkin or turned into integer values of the leaves."""
    from sa.decide import linear_equiv, Undecided, canon
    n = 0
    for cname in ("ResourcePeriodicallyUnavailable", "ResourcePeriodicallyInterrupted"):
        where = f"{cname}.__init__"
        cores = _fixed_periodic_cores(ctx, cname, "R-PERIODIC-CORE")
        if not cores:
            raise P.AnalysisError(f"R-PERIODIC-CORE: anchor vanished: no folded non-overlap condition found in {cname}")
        seen = set()
        for run, e, c in cores:
            g = norm(_generic_periodic(c))
            key = repr(canon(g))
            if key in seen:
                continue
            seen.add(key)
            n += 1
            b0, b1, lo, hi = S("busy0"), S("busy1"), S("itv0"), S("itv1")
            per, off = T("period"), T("offset")
            mods = {x for x in subterms(g) if is_app(x, "%")}
            bad_mod = [m_ for m_ in mods if not (lin(m_[2]) == lin(sub(b0, off)) and norm(m_[3]) == per)]
            if bad_mod or not mods:
                ctx.violation("R-PERIODIC-CORE", where, "busy start folded into one period",
                              f"the condition folds {[show(m_)[:80] for m_ in bad_mod] or 'nothing'}; documented: (busy start - offset) % period",
                              loc(e))
                continue
            f = S("folded_start")
            em = substitute(g, {m_: f for m_ in mods})
            d = sub(b1, b0)
            spec = Or(le(add(f, d), lo), And(ge(f, hi), le(add(f, d), add(lo, per))))
            side = [ge(f, K(0)), le(f, sub(per, K(1))), ge(lo, K(0)), le(add(lo, K(1)), hi), le(hi, per), ge(d, K(0))]
            try:
                ok, wit = linear_equiv(em, spec, side)
            except Undecided as u:
                raise P.AnalysisError(f"R-PERIODIC-CORE: {where}: {u}")
            if ok:
                ctx.ok("R-PERIODIC-CORE", f"{where} [{describe_config(run)}]",
                       sample={"emitted": show(em)[:240], "decided_by": f"linear integer arithmetic, {wit}"})
            else:
                v = wit["values"]
                ctx.violation("R-PERIODIC-CORE", where, "folded busy interval meets no repetition of the interval",
                              f"emitted {show(em)[:260]} ; documented {show(norm(spec))[:200]} ; they differ for {v} "
                              f"(emitted {wit['first']}, documented {wit['second']}): a task that starts after the interval in one "
                              f"period and runs into its next repetition is accepted", loc(e), witness=wit)
    # interruptible tasks: neither the folded start nor the folded end lies strictly inside the interval
    cname = "ResourcePeriodicallyInterrupted"
    where = f"{cname}.__init__"
    runs = runs_of(ctx, Entry("init", cls=cname, opaque=OPAQUE))
    covered = set()
    for run in mandatory_runs(runs):
        if worker_source(run)[0] != ():          # the plain-worker paths (either isinstance test, either polarity)
            continue
        for e in run.emissions:
            if e.owner != SELF:
                continue
            for c0 in _conjuncts(e.term):
                parts = [c0]
                if is_app(c0, "Or") and any("%" not in show(d_) for d_ in c0[2:]):
                    parts = [x for d_ in c0[2:] for x in _conjuncts(d_)]
                for c in parts:
                    g = norm(_generic_periodic(c))
                    if not (is_app(g) and g[1] in ("Xor", "Or") and "%" in show(g)) or "_duration" in show(g):
                        continue
                    mods = {x for x in subterms(g) if is_app(x, "%")}
                    outside = substitute(g, {m_: ("sym", "folded") for m_ in mods})
                    if "busy" in show(outside) or len(mods) != 1:
                        continue
                    m_ = next(iter(mods))
                    which = None
                    for nm in ("busy0", "busy1"):
                        if lin(m_[2]) == lin(sub(S(nm), T("offset"))) and norm(m_[3]) == T("period"):
                            which = nm
                    key = (which, repr(canon(g)))
                    if key in covered:
                        continue
                    covered.add(key)
                    n += 1
                    if which is None:
                        ctx.violation("R-PERIODIC-CORE", where, "busy start / end folded into one period",
                                      f"the condition folds {show(m_)[:100]}; documented: (busy start or end - offset) % period", loc(e))
                        continue
                    x = S("folded")
                    em = substitute(g, {m_: x})
                    lo, hi, per = S("itv0"), S("itv1"), T("period")
                    spec = Or(le(x, lo), ge(x, hi))
                    side = [ge(x, K(0)), le(x, sub(per, K(1))), ge(lo, K(0)), le(add(lo, K(1)), hi), le(hi, per)]
                    ok, wit = linear_equiv(em, spec, side)
                    if ok:
                        ctx.ok("R-PERIODIC-CORE", f"{where}: folded {'start' if which == 'busy0' else 'end'} of an interruptible task not inside the interval",
                               sample={"emitted": show(em)[:200]})
                    else:
                        ctx.violation("R-PERIODIC-CORE", where, f"folded {'start' if which == 'busy0' else 'end'} not strictly inside the interval",
                                      f"emitted {show(em)[:200]} ; documented {show(spec)[:120]} ; they differ for {wit['values']}", loc(e), witness=wit)
    if {k_[0] for k_ in covered} != {"busy0", "busy1"}:
        ctx.violation("R-PERIODIC-CORE", where, "start and end of an interruptible task kept out of the interval",
                      f"conditions found for {sorted(str(k_[0]) for k_ in covered)}; both the folded start and the folded end are required",
                      first_line(ctx.project, cname))
    ctx.floor("R-PERIODIC-CORE", "distinct folded conditions", n, 3)
    ctx.assume("periodic constraints: the intervals lie inside one period (0 <= lo < hi <= period); period >= 1; busy end >= busy start")


def r_sibling_periodic(ctx):
    """Engler-style sibling cross-check: ResourcePeriodicallyUnavailable and the fixed-duration branch of
    ResourcePeriodicallyInterrupted both say 'the folded busy interval does not meet the interval'; the two encodings must
    be the same function of (busy start, busy end, lo, hi, offset, period).  (R-PERIODIC-CORE decides each of them.)"""
    from sa.decide import canon
    a = _fixed_periodic_cores(ctx, "ResourcePeriodicallyUnavailable", "R-SIBLING-PERIODIC")
    b = _fixed_periodic_cores(ctx, "ResourcePeriodicallyInterrupted", "R-SIBLING-PERIODIC")
    if not a or not b:
        raise P.AnalysisError(f"R-SIBLING-PERIODIC: cores found: unavailable {len(a)}, interrupted {len(b)}")
    from sa.decide import linear_equiv, Undecided

    def abstracted(c):
        g = norm(_generic_periodic(c))
        mods = sorted({x for x in subterms(g) if is_app(x, "%")}, key=show)
        return substitute(g, {m_: S(f"folded{i}:{show(m_)}") for i, m_ in enumerate(mods)})
    fa, fb = abstracted(a[0][2]), abstracted(b[0][2])
    side = [ge(sub(S("busy1"), S("busy0")), K(0)), le(add(S("itv0"), K(1)), S("itv1")), ge(S("itv0"), K(0)), le(S("itv1"), T("period"))]
    same = True
    wit = None
    try:
        for x in a[1:]:
            ok, w = linear_equiv(fa, abstracted(x[2]), side)
            same, wit = (same and ok), (wit or (None if ok else w))
        for x in b:
            ok, w = linear_equiv(fa, abstracted(x[2]), side)
            same, wit = (same and ok), (wit or (None if ok else w))
    except Undecided as u:
        raise P.AnalysisError(f"R-SIBLING-PERIODIC: {u}")
    if same:
        ctx.ok("R-SIBLING-PERIODIC", "the folded non-overlap condition of the two periodic constraints is the same function",
               sample={"core": show(norm(_generic_periodic(a[0][2])))[:300], "decided_by": "linear integer arithmetic"})
    else:
        ctx.violation("R-SIBLING-PERIODIC", "ResourcePeriodicallyUnavailable.__init__", "periodic siblings disagree",
                      f"ResourcePeriodicallyUnavailable folds as {show(norm(_generic_periodic(a[0][2])))[:260]} while "
                      f"ResourcePeriodicallyInterrupted (fixed-duration tasks) folds as "
                      f"{sorted({show(norm(_generic_periodic(x[2])))[:200] for x in b})[:2]}: they differ for {wit['values'] if wit else '?'}", loc(a[0][1]))


RULES = [r_rc_relation, r_attr, r_union_exh, r_union_exh_raise, r_sibling_periodic, r_periodic_core, lambda ctx: r_loopvar(ctx, bases=("Constraint",)), r_periodic_struct,
         lambda ctx: __import__("rules.resources", fromlist=["x"]).r_declared_reaches_solver(ctx),
         lambda ctx: __import__("rules.validation", fromlist=["x"]).r_dup_name(ctx, only=('add_constraint',))]
