"""C14 - independence of names, declaration order and earlier problems.

The channels through which a name, an order or an earlier problem CAN reach the constraint system are decided; that z3's
search does not change a verdict on equal inputs is trusted.

R-NAME-INJECTIVE  every z3 constant's name template carries the identity of everything the constant is indexed by (owner
                  name or a uuid, and a hole bound by each enclosing loop); templates of different sites do not coincide
                  for separator-free names
R-ORDER-FLOW      order dependent values (task number, negative counter, position in a registry, an escaped loop variable)
                  only flow into 'moved to the past' equalities
R-GLOBAL-USE      the global active problem has one writer and is read only inside element constructors
R-NO-MODULE-STATE no mutable module-level state besides that cell
R-OPTION-RESET    (driver.r_option_table) no z3 option leaks from the solver of an earlier problem
R-NAME-BRANCH / R-SOLVER-READONLY / R-LOOPVAR findings are shared with C11 / C13.
"""
from __future__ import annotations

import ast

from sa import project as P
from sa import cfg as C
from sa.interp import Entry
from sa.lib import *
from sa.terms import subterms
from rules import driver, resource_constraints, solution as solution_rules
from rules.resource_constraints import all_entries

SELF = S("self")

# sites whose constant is indexed by more than its owner: literal fragment of the template -> required index holes
# (confirmed by reading; an unknown site falls back to the generic rule)
MULTI_INDEX = {
    ("Task.add_required_resource", "_busy_"): ["resource.name", "self.name"],
    ("Task.add_required_resource", "_maybe_busy_"): [".name", "self.name"],
    ("SelectWorkers.__init__", "Selected_"): [".name", "uuid"],
    ("Buffer.add_unloading_task", "_sc_time_"): ["self.name", "task.name"],
    ("Buffer.add_unloading_task", "_level_"): ["self.name", "task.name"],
    ("Buffer.add_loading_task", "_sc_time_"): ["self.name", "task.name"],
    ("Buffer.add_loading_task", "_level_"): ["self.name", "task.name"],
    ("SchedulingSolver.initialize", "_quantity_unloading"): [".name", ".name"],
    ("SchedulingSolver.initialize", "_quantity_loading"): [".name", ".name"],
    ("ScheduleNTasksInTimeIntervals.__init__", "InTimeIntervalTask_"): [".name", "uuid"],
}

SINGLETONS = {
    "horizon": "one per problem by construction (SchedulingProblem.__init__); solvers are per problem",
    "EquivalentSingleObjective": "created once per solver initialisation",
    "GreatestStartTime": "the indicator of the same constant name is registered first: a second objective of this kind is rejected as a duplicate indicator",
    "SmallestStartTimeVar": "as GreatestStartTime: the indicator 'MinimumStartTime' can only be registered once",
}


def template_of(name):
    """('lit', str) / ('hole', term) segments of a name term"""
    if is_const(name):
        return [("lit", str(name[1]))]
    if name[0] == "fstr":
        out = []
        for p_ in name[1]:
            if is_const(p_) and isinstance(p_[1], str):
                out.append(("lit", p_[1]))
            elif isinstance(p_, tuple) and p_ and p_[0] == "fstr":
                out.extend(template_of(p_))          # a prefix built in a local variable
            else:
                out.append(("hole", p_))
        merged = []
        for seg in out:
            if merged and seg[0] == "lit" and merged[-1][0] == "lit":
                merged[-1] = ("lit", merged[-1][1] + seg[1])
            else:
                merged.append(seg)
        return merged
    return [("hole", name)]


def skeleton(tpl):
    return tuple(("lit", s[1]) if s[0] == "lit" else ("hole",) for s in tpl)


def collect_sites(ctx):
    sites = {}
    entries = all_entries(ctx) + [Entry("method", cls="Buffer", name="add_unloading_task"), Entry("method", cls="Buffer", name="add_loading_task"),
                                   Entry("init", cls="SchedulingProblem")]
    for ent in entries:
        for r in runs_of(ctx, ent):
            for ev in r.events_of("z3var"):
                key = (ev.site.module, ev.site.func, ev.site.lineno, getattr(ev, "col", 0))
                sites.setdefault(key, []).append(ev)
    return sites


def r_name_injective(ctx):
    sites = collect_sites(ctx)
    ctx.floor("R-NAME-INJECTIVE", "z3 constant creation sites", len(sites), 28)
    skeletons = {}
    for key, evs in sorted(sites.items()):
        mod, func, line = key[0], key[1], key[2]
        where = func
        location = f"processscheduler/{mod}.py:{line}"
        ev = evs[0]
        tpl = template_of(ev.data["name"])
        holes = [s[1] for s in tpl if s[0] == "hole"]
        lits = "".join(s[1] for s in tpl if s[0] == "lit")
        text = show(ev.data["name"])
        has_uuid = any("uuid" in show(h) or "_uid" in show(h) for h in holes)
        if not holes:
            if lits in SINGLETONS:
                ctx.ok("R-NAME-INJECTIVE", f"{where}: singleton {lits!r} ({SINGLETONS[lits][:60]})", nontrivial=False)
            else:
                ctx.violation("R-NAME-INJECTIVE", where, f"constant name {lits!r} without any identity",
                              f"the z3 constant is always named {lits!r}: two elements created at this site share one unknown", location)
            continue
        # every enclosing loop contributes a hole (or the name carries a uuid)
        missing = []
        if not any(ch.isalpha() for ch in lits) and not has_uuid:
            # a name made of element names only carries no tag of its kind: it IS the full name of a constant that another
            # template produces for an ordinary element (an indicator called `<task>_scheduled`, a task called `<worker>_busy`):
            # one unlucky name is enough, and the two constants of different sorts share one SMT-LIB symbol
            missing.append("a literal tag of its kind (the name is made of element names only)")
        for ev_ in evs:
            holes_ = [s[1] for s in template_of(ev_.data["name"]) if s[0] == "hole"]
            for l in ev_.loops:
                if not has_uuid and not any(any(s_ == ("elem", l) or s_ == l for s_ in subterms(h)) for h in holes_):
                    missing.append(show(l[3])[:60])
        # owner identity for constants created by an element for itself
        id_holes = [h for h in holes if show(h).endswith(".name") or "uuid" in show(h) or "_uid" in show(h)
                    or (h[0] == "idx" and h[1][0] == "elem")]
        owner_ok = bool(id_holes)
        for (fn_, frag), need in sorted(MULTI_INDEX.items(), key=lambda kv: -len(kv[0][1])):
            if fn_ == func.replace("buffer.", "").strip() and frag in lits:
                shown = [show(h).replace("self.buffer.name", "self.name").replace("self.task.name", "task.name") for h in holes]
                pool = list(shown)
                for want in need:
                    hit = [x for x in pool if want in x]
                    if hit:
                        pool.remove(hit[0])
                    else:
                        missing.append(f"index `{want}`")
                break
        # two free-form names must be separated by a distinctive literal: `{a}_{b}` reads the same for ('x_y', 'z') and ('x', 'y_z')
        name_hole = lambda h: show(h).endswith(".name")
        for i_, seg in enumerate(tpl):
            if seg[0] == "hole" and name_hole(seg[1]):
                j_ = i_ + 1
                sep = ""
                while j_ < len(tpl) and tpl[j_][0] == "lit":
                    sep += tpl[j_][1]
                    j_ += 1
                if j_ < len(tpl) and tpl[j_][0] == "hole" and name_hole(tpl[j_][1]) and not any(ch.isalpha() for ch in sep):
                    missing.append(f"a distinctive separator between {show(seg[1])} and {show(tpl[j_][1])} (only {sep!r})")
        if missing or not owner_ok:
            ctx.violation("R-NAME-INJECTIVE", where, f"name template {text[:80]} loses an index",
                          f"the constant named {text[:120]} is created once per {sorted(set(missing)) or 'element'} but its name does not "
                          f"contain that index: distinct unknowns of one problem get the same name, whatever the element names are",
                          location)
        else:
            ctx.ok("R-NAME-INJECTIVE", f"{where}: {text[:70]}", sample={"template": text[:120], "holes": [show(h)[:40] for h in holes]})
        skeletons.setdefault(skeleton(tpl), []).append((where, line, text))
    # cross-site: equal literal skeletons from different creation sites
    for sk, lst in sorted(skeletons.items(), key=lambda kv: repr(kv[0])):
        funcs = sorted({(w, t) for w, l, t in lst})
        if len({w for w, _ in funcs}) > 1:
            ctx.violation("R-NAME-INJECTIVE", "+".join(sorted({w for w, _ in funcs})), f"same name template at several sites: {funcs[0][1][:60]}",
                          f"the sites {sorted({w for w, _ in funcs})} name their constants with the same template {funcs[0][1][:100]}: for the "
                          f"same (owner, index) pair they denote one and the same z3 constant", "processscheduler/" )
    ctx.assume("element names do not contain the literal fragments the templates use as separators (_busy_, _maybe_busy_, _start, "
               "_end, _level_, Indicator_, ...); with adversarial names several templates do unify (one recorded finding)")


def r_order_flow(ctx):
    """task numbers and the negative counter may only appear in 'moved to the past' equalities"""
    n = 0
    bad = {}
    for ent in all_entries(ctx):
        for r in runs_of(ctx, ent):
            n += 1
            for e in r.emissions:
                t = e.term
                hot = [s for s in subterms(t) if (s and s[0] == "attr" and s[2] in ("_task_number", "_unique_integer"))
                       or (s and s[0] == "mcall" and s[2] in ("add_task", "get_unique_negative_integer"))
                       or (s and s[0] == "call" and s[1] == "len" and "tasks" in show(s) and "active_problem" in show(s))]
                if not hot:
                    continue
                # allowed: If(flag, <no order value>, And(x == p, y == p, ...)) where the order value only occurs in the else branch equalities
                ok = is_app(t, "If") and len(t) == 5 and not any(h in list(subterms(t[3])) or h in list(subterms(t[2])) for h in hot)
                if ok:
                    for c in (t[4][2:] if is_app(t[4], "And") else [t[4]]):
                        if any(h in list(subterms(c)) for h in hot) and not (is_app(c, "==") and len(c) == 4):
                            ok = False
                if not ok:
                    bad.setdefault((e.site.func, show(hot[0])[:60]), loc(e))
    for (where, what), location in sorted(bad.items()):
        ctx.violation("R-ORDER-FLOW", where, f"declaration-order value {what} in an assertion of a scheduled entity",
                      f"{what} depends on the order in which elements were declared and flows into an assertion that binds scheduled / "
                      f"selected entities", location)
    ctx.floor("R-ORDER-FLOW", "paths scanned", n, 500)
    if not bad:
        ctx.ok("R-ORDER-FLOW", f"task numbers / negative counter only occur in moved-to-the-past equalities ({n} paths)")
    # position in a registry: list(registry.values())[k]
    proj = ctx.project
    for m in proj.modules.values():
        for node in ast.walk(m.tree):
            if isinstance(node, ast.Subscript) and isinstance(node.value, ast.Call) and ast.unparse(node.value.func) == "list" \
                    and node.value.args and ".values()" in ast.unparse(node.value.args[0]) and isinstance(node.slice, ast.Constant):
                fn = node
                while fn is not None and not isinstance(fn, ast.FunctionDef):
                    fn = getattr(fn, "_parent", None)
                # permitted when the branch is taken only for a registry of exactly one element
                par = node
                single = False
                while par is not None and par is not fn:
                    prev = par
                    par = getattr(par, "_parent", None)
                    if isinstance(par, ast.If) and "multi_objective" in ast.unparse(par.test):
                        core, pos = C.strip_not(par.test)
                        if isinstance(core, ast.Attribute) and (prev in par.orelse if pos else prev in par.body):
                            single = True
                if single:
                    ctx.ok("R-ORDER-FLOW", f"{m.short}.{fn.name if fn else '?'}: {ast.unparse(node)[:60]} only on the single-element branch")
                else:
                    ctx.violation("R-ORDER-FLOW", f"{m.short}.{fn.name if fn else '?'}", f"registry position {ast.unparse(node)[:60]}",
                                  f"`{ast.unparse(node)[:80]}` picks an element by declaration order", f"{proj.relpath(m.path)}:{node.lineno}")


ELEMENT_BASES = ("NamedUIDObject",)


def r_global_use(ctx):
    proj = ctx.project
    writers, readers = [], []
    for m in proj.modules.values():
        for node in ast.walk(m.tree):
            if isinstance(node, ast.Attribute) and node.attr == "active_problem" and "processscheduler.base" in ast.unparse(node.value):
                fn = node
                cls = None
                while fn is not None and not isinstance(fn, ast.FunctionDef):
                    fn = getattr(fn, "_parent", None)
                c = fn
                while c is not None and not isinstance(c, ast.ClassDef):
                    c = getattr(c, "_parent", None)
                rec = (m, node, fn.name if fn else "<module>", c.name if c else None)
                (writers if isinstance(node.ctx, ast.Store) else readers).append(rec)
            if isinstance(node, (ast.Global,)) and "active_problem" in node.names:
                writers.append((m, node, "global statement", None))
    ok_w = len(writers) == 1 and writers[0][2] == "__init__" and writers[0][3] == "SchedulingProblem"
    if ok_w:
        ctx.ok("R-GLOBAL-USE", "the active problem has exactly one writer: SchedulingProblem.__init__")
    else:
        ctx.violation("R-GLOBAL-USE", "processscheduler.base.active_problem", "writers of the global problem",
                      f"written in {[(w[3], w[2]) for w in writers]}", "processscheduler/base.py")
    ctx.floor("R-GLOBAL-USE", "reads of the global problem", len(readers), 20)
    def enclosing(n_):
        f_ = n_
        while f_ is not None and not isinstance(f_, ast.FunctionDef):
            f_ = getattr(f_, "_parent", None)
        c_ = f_
        while c_ is not None and not isinstance(c_, ast.ClassDef):
            c_ = getattr(c_, "_parent", None)
        return (f_.name if f_ else "<module>"), (c_.name if c_ else None)

    def element_constructor(fname, cname):
        ci = proj.classes.get(cname) if cname else None
        return ci is not None and ci.is_subclass_of("NamedUIDObject") and not ci.is_subclass_of("SchedulingProblem") \
            and (fname == "__init__" or (cname == "Task" and fname == "add_required_resource") or fname == "get_resource_cost")

    def allowed_context(fname, cname, depth=0):
        """an element constructor, or a helper (function or method) every call of which, anywhere in the package, is made from
        an allowed context"""
        if element_constructor(fname, cname):
            return True
        if depth >= 3 or fname in ("<module>", "__init__"):
            return False
        sites = []
        for m2 in proj.modules.values():
            for n2 in ast.walk(m2.tree):
                if isinstance(n2, ast.Call) and ((isinstance(n2.func, ast.Name) and n2.func.id == fname)
                                                 or (isinstance(n2.func, ast.Attribute) and n2.func.attr == fname)):
                    sites.append(enclosing(n2))
        return bool(sites) and all(allowed_context(f2, c2, depth + 1) for f2, c2 in sites)

    for m, node, fname, cname in readers:
        allowed = allowed_context(fname, cname)
        if not allowed:
            ctx.violation("R-GLOBAL-USE", f"{cname or m.short}.{fname}", "global problem read outside an element constructor",
                          f"`{ast.unparse(node)}` is read in {cname or m.short}.{fname}: solver, solution and exporters must use "
                          f"their own `problem`, otherwise a problem created later changes what an earlier object sees",
                          f"{proj.relpath(m.path)}:{node.lineno}")
    bad = [r for r in readers if False]
    if not any(True for _ in []) and all(True for _ in []):
        pass
    ctx.ok("R-GLOBAL-USE", f"{len(readers)} reads of the global problem scanned")


IMMUTABLE_FACTORIES = ("tuple", "frozenset", "str", "int", "float", "bool", "bytes", "compile", "namedtuple", "TypeVar", "NewType",
                       "getLogger", "Path", "Field", "Literal", "Union", "Optional", "frozendict", "MappingProxyType")


def r_no_module_state(ctx):
    proj = ctx.project
    n = 0
    for m in proj.modules.values():
        for st in m.tree.body:
            n += 1
            if isinstance(st, (ast.Import, ast.ImportFrom, ast.ClassDef, ast.FunctionDef, ast.Try)):
                continue
            if isinstance(st, ast.Expr) and isinstance(st.value, ast.Constant):
                continue
            if isinstance(st, (ast.Assign, ast.AnnAssign)):
                targets = st.targets if isinstance(st, ast.Assign) else [st.target]
                v = st.value
                names = [t.id for t in targets if isinstance(t, ast.Name)]
                mutable = isinstance(v, (ast.List, ast.Set, ast.ListComp, ast.DictComp)) or \
                    (isinstance(v, ast.Dict)) or (isinstance(v, ast.Call) and ast.unparse(v.func) in ("dict", "list", "set", "defaultdict"))
                if mutable:
                    for nm in names:
                        wr = [x for mm in proj.modules.values() for x in ast.walk(mm.tree)
                              if (isinstance(x, ast.Subscript) and isinstance(x.ctx, ast.Store) and ast.unparse(x.value).split(".")[-1] == nm)
                              or (isinstance(x, ast.Call) and isinstance(x.func, ast.Attribute) and ast.unparse(x.func.value).split(".")[-1] == nm
                                  and x.func.attr in ("append", "update", "add", "extend", "pop", "clear", "setdefault", "insert", "remove"))]
                        if wr:
                            ctx.violation("R-NO-MODULE-STATE", f"{m.short}.{nm}", "module-level mutable object written at run time",
                                          f"`{nm}` is a module-level {type(v).__name__} that is modified at run time: state survives from "
                                          f"one problem to the next", f"{proj.relpath(m.path)}:{st.lineno}")
                        else:
                            ctx.ok("R-NO-MODULE-STATE", f"{m.short}.{nm}: module-level table without writer", nontrivial=True)
                continue
            if isinstance(st, ast.If):
                continue
            ctx.note(f"R-NO-MODULE-STATE: {m.short}: module-level {type(st).__name__} at line {st.lineno} not classified")
        # module-level objects built by a call (counters, iterators, generators, registries, caches): any use of them from
        # inside a function is process-wide state shared by all problems
        for st in m.tree.body:
            if not isinstance(st, (ast.Assign, ast.AnnAssign)) or st.value is None:
                continue
            v = st.value
            targets = st.targets if isinstance(st, ast.Assign) else [st.target]
            names = [t.id for t in targets if isinstance(t, ast.Name)]
            stateful = isinstance(v, ast.GeneratorExp) or (isinstance(v, ast.Call) and ast.unparse(v.func).split(".")[-1] not in IMMUTABLE_FACTORIES
                                                             and ast.unparse(v.func) not in ("dict", "list", "set", "defaultdict"))
            if not stateful:
                continue
            for nm in names:
                uses = []
                for mm in proj.modules.values():
                    for fn_ in ast.walk(mm.tree):
                        if isinstance(fn_, (ast.FunctionDef, ast.Lambda)):
                            for x in ast.walk(fn_):
                                if (isinstance(x, ast.Name) and x.id == nm and mm is m) or \
                                        (isinstance(x, ast.Attribute) and x.attr == nm and ast.unparse(x.value).endswith(m.short)):
                                    uses.append((mm, x))
                n += 1
                if uses:
                    ctx.violation("R-NO-MODULE-STATE", f"{m.short}.{nm}", "module-level object used at run time",
                                  f"`{nm} = {ast.unparse(v)[:60]}` lives for the whole process and is used inside functions "
                                  f"({sorted({f'{u[0].short}:{u[1].lineno}' for u in uses})[:4]}): what it returns depends on the problems built "
                                  f"earlier in the same process", f"{proj.relpath(m.path)}:{st.lineno}")
                else:
                    ctx.ok("R-NO-MODULE-STATE", f"{m.short}.{nm}: module-level object never used inside a function", nontrivial=True)
    # class attributes written at run time (Task.counter += 1, cls.registry[...] = ..., type(self).n = ...): shared by all
    # instances of all problems
    class_names = set(proj.classes)
    for m in proj.modules.values():
        for fn_ in ast.walk(m.tree):
            if not isinstance(fn_, ast.FunctionDef):
                continue
            for x in ast.walk(fn_):
                tgt = None
                if isinstance(x, ast.Attribute) and isinstance(x.ctx, ast.Store):
                    tgt = x
                elif isinstance(x, ast.Subscript) and isinstance(x.ctx, ast.Store) and isinstance(x.value, ast.Attribute):
                    tgt = x.value
                elif isinstance(x, ast.Call) and isinstance(x.func, ast.Attribute) and isinstance(x.func.value, ast.Attribute) \
                        and x.func.attr in ("append", "update", "add", "extend", "pop", "clear", "setdefault", "insert", "remove"):
                    tgt = x.func.value
                if tgt is None:
                    continue
                base = ast.unparse(tgt.value)
                if base in class_names or base in ("cls", "type(self)", "self.__class__"):
                    ctx.violation("R-NO-MODULE-STATE", f"{m.short}.{fn_.name}", f"class attribute {base}.{tgt.attr} written at run time",
                                  f"`{ast.unparse(x)[:80]}` modifies an attribute of the class itself: the value is shared by every "
                                  f"instance of every problem built in the process", f"{proj.relpath(m.path)}:{x.lineno}")
    # `global` statements: the only module variable the package rebinds at run time is the active problem
    for m in proj.modules.values():
        for x in ast.walk(m.tree):
            if isinstance(x, (ast.Global, ast.Nonlocal)) and isinstance(x, ast.Global):
                extra = [g for g in x.names if g != "active_problem"]
                if extra:
                    ctx.violation("R-NO-MODULE-STATE", f"{m.short}", f"global statement on {extra}",
                                  f"`global {', '.join(extra)}`: a module variable rebound at run time is state that survives from one "
                                  f"problem to the next", f"{proj.relpath(m.path)}:{x.lineno}")
    ctx.floor("R-NO-MODULE-STATE", "module-level statements", n, 100)


def r_order_prefix(ctx):
    """declaration order: a list that is created outside a loop over a declaration-ordered collection, filled inside it and
    read as a whole while that loop is still running holds the contributions of the elements declared so far only; a term
    built from it depends on the order of declaration (the same model declared in another order gets another encoding)"""
    n = 0
    found = {}
    entries = [(e.label(), e) for e in all_entries(ctx)]
    for label, entry in entries:
        for run in runs_of(ctx, entry):
            n += 1
            for ev in run.events_of("prefix-read"):
                if ev.data.get("how") == "membership":
                    # `x in acc` while acc is being filled is "x seen before": when what the loop adds to acc is x itself, the
                    # elements kept are the distinct values, whatever the order of declaration
                    from sa.values import PyList as _PL, PyDict as _PD
                    c_ = ev.data["container"]
                    added = [norm(i.value) for i in c_.items if isinstance(i.value, tuple) and ev.data["loop"] in i.loops] \
                        if isinstance(c_, _PL) else [norm(k) for (k, _v, lp_, _g) in c_.entries if ev.data["loop"] in lp_]
                    if added and all(x == norm(ev.data["tested"]) for x in added):
                        continue
                    if not run.emissions and not solver_calls(run):
                        continue        # a reporter: nothing is asserted on this path, the order of a reported list is not the encoding
                where = ev.site.func if ev.site.func else label
                found.setdefault((where, show(norm(ev.data["loop"][3]))[:120]), (show(norm(ev.data["list"]))[:200], ev.site))
    for (where, over), (what, site) in sorted(found.items()):
        ctx.violation("R-ORDER-PREFIX", where, f"accumulator read inside the loop over {over}",
                      f"a list filled across the iterations of the loop over {over} is read as a whole inside that loop ({what}): "
                      f"each element sees the contributions of the elements declared before it, so the encoding changes with the "
                      f"declaration order", f"processscheduler/{site.module}.py")
    ctx.floor("R-ORDER-PREFIX", "paths scanned", n, 400)
    if not found:
        ctx.ok("R-ORDER-PREFIX", f"no accumulator is read inside the loop that fills it ({n} paths)")


RULES = [r_order_prefix, r_name_injective, r_order_flow, r_global_use, r_no_module_state, driver.r_option_table, driver.r_solver_readonly,
         lambda ctx: resource_constraints.r_loopvar(ctx, bases=(), solver=True), solution_rules.r_marker,
         lambda ctx: __import__("rules.buffers", fromlist=["x"]).r_sort_net(ctx)]


_NAME_ORDER_SELFTEST = '''
def f(self):
    for _, obj in sorted(self.problem.objectives.items()):
        use(obj)
'''


def _orders_by_name(call: ast.Call):
    """`call` puts elements in the order of their names: sorted / min / max / .sort over the keys or items of a registry (the keys
    ARE the names), over `.name` attributes, or with a key function that reads `.name`; returns a description or None"""
    fname = ast.unparse(call.func)
    is_sort = fname in ("sorted", "min", "max") or (isinstance(call.func, ast.Attribute) and call.func.attr == "sort")
    if not is_sort:
        return None
    operands = list(call.args) + ([call.func.value] if isinstance(call.func, ast.Attribute) and call.func.attr == "sort" else [])
    key_fn = next((k.value for k in call.keywords if k.arg == "key"), None)
    REG = ("tasks", "workers", "select_workers", "cumulative_workers", "constraints", "indicators", "objectives")
    if key_fn is not None:
        if any(isinstance(x, ast.Attribute) and x.attr in ("name", "uid") for x in ast.walk(key_fn)):
            return f"key function {ast.unparse(key_fn)[:60]} reads the name"
        return None      # ordered by something else than the default comparison of the elements
    for a in operands:
        for x in ast.walk(a):
            if isinstance(x, ast.Call) and isinstance(x.func, ast.Attribute) and x.func.attr in ("items", "keys") \
                    and isinstance(x.func.value, ast.Attribute) and x.func.value.attr in REG:
                return f"{ast.unparse(x)[:60]}: the keys of that registry are the element names"
            if isinstance(x, ast.Attribute) and x.attr in ("name",) and isinstance(x.ctx, ast.Load):
                return f"{ast.unparse(x)[:60]}"
        if isinstance(a, ast.Attribute) and a.attr in REG:
            return f"{ast.unparse(a)[:60]}: iterating that registry yields the element names"
    return None


def r_name_order(ctx):
    """'renaming the elements consistently leaves ... the optimal objective value unchanged': in the code that builds or drives
    the constraint system (element constructors, SchedulingSolver) nothing may be put in the order of the names - the order in
    which objectives reach z3.Optimize is their priority in 'lex' mode, the order of the sorter inputs decides ties, ..."""
    proj = ctx.project
    # the matcher itself is exercised on every run (the expected number of sites in the package is zero)
    probe = [n for n in ast.walk(ast.parse(_NAME_ORDER_SELFTEST)) if isinstance(n, ast.Call) and _orders_by_name(n)]
    if len(probe) != 1:
        raise P.AnalysisError("R-NAME-ORDER: the matcher does not recognise its own positive example")
    n = 0
    hits = 0
    for m in proj.modules.values():
        if m.short in ("plotter", "excel_io", "solution", "__init__"):
            continue      # reporters: the order of a display is not the encoding
        for fn in [x for x in ast.walk(m.tree) if isinstance(x, ast.FunctionDef)]:
            if fn.name in ("build_solution", "print_solution", "print_assertions", "print_statistics"):
                continue
            n += 1
            for call in [x for x in ast.walk(fn) if isinstance(x, ast.Call)]:
                why = _orders_by_name(call)
                if why is not None:
                    hits += 1
                    ctx.violation("R-NAME-ORDER", f"{m.short}.{fn.name}", f"elements ordered by name: {ast.unparse(call)[:60]}",
                                  f"`{ast.unparse(call)[:120]}` orders elements by their names ({why}): renaming the elements "
                                  f"consistently changes the order in which they reach the solver (objective priority in 'lex' mode, "
                                  f"tie-breaking of sorters), hence possibly the optimum", f"{proj.relpath(m.path)}:{call.lineno}")
    ctx.floor("R-NAME-ORDER", "functions of the encoding phase scanned", n, 120)
    if not hits:
        ctx.ok("R-NAME-ORDER", f"nothing is ordered by name in the {n} functions that build or drive the constraint system")


RULES.append(r_name_order)


def r_rank_leak(ctx):
    """an unscheduled optional task sits at start = end = -task_number, its rank in the order of declaration: a term that reads a
    time of a possibly unscheduled task without the scheduled guard makes indicator and objective values depend on the order
    in which the tasks were declared (R-SCHED-GUARD, shared with C06 - the recorded findings of that rule are findings here too)"""
    from rules import optional
    optional.r_sched_guard(ctx)


RULES.append(r_rank_leak)

# the duplicate test of the assertion store compares 32-bit hashes that depend on the names: it must refuse loudly, never drop
# (a silent drop makes the encoding depend on the names chosen) - R-BASE-STORE
RULES.append(lambda ctx: __import__("rules.tasks", fromlist=["x"]).r_base_store(ctx))
