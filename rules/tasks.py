"""C01 - task timing obligations (R-TASK-OBLIG, R-TASK-RELEASE, R-SET-ASSERTIONS, R-HORIZON, R-DRAIN, R-EXTRACT).

Oracle: docs/task.md ("if the task is scheduled then start >= 0, end <= horizon, duration = end - start") and the
property statement.
"""
from __future__ import annotations

from sa import project as P
from sa.interp import Entry
from sa.lib import *
from sa.terms import subterms

OPAQUE = ("sort_no_duplicates", "sort_duplicates")
SELF = S("self")


def task_classes(ctx):
    cl = [c for c in ctx.project.subclasses("Task")]
    ctx.floor("R-TASK-OBLIG", "Task subclasses", len(cl), 3)
    return cl


def heap_term(run, name):
    v = run.heap.get((SELF, name))
    return v if isinstance(v, tuple) else None


def task_spec(ctx, c, run):
    """conjunction of the obligations of a *scheduled* task of class c on this configuration path"""
    st, en = heap_term(run, "_start"), heap_term(run, "_end")
    if st is None or en is None:
        raise P.AnalysisError(f"R-TASK-OBLIG: {c.name}: _start/_end constants not found")
    fields = c.all_fields()
    obl = [("start >= 0", ge(st, K(0)))]
    dur_var = heap_term(run, "_duration")
    if dur_var is not None and dur_var[0] == "z3var":
        obl.append(("end - start == duration variable", eq(sub(en, st), dur_var)))
        if "min_duration" in fields:
            obl.append(("duration >= min_duration", ge(dur_var, S("self.min_duration"))))
        if "max_duration" in fields:
            v = leaf_value(run, "self.max_duration")
            if not (v is not None and v[1] is None):
                obl.append(("duration <= max_duration", le(dur_var, S("self.max_duration"))))
        if "allowed_durations" in fields:
            v = leaf_value(run, "self.allowed_durations")
            if not (v is not None and v[1] is None):
                L = loop("b0.0", S("self.allowed_durations"))
                obl.append(("duration in allowed_durations",
                            app("Or", ("each", (L,), (), eq(dur_var, elem(L))))))
    elif "duration" in fields:
        f = fields["duration"]
        if f.type[0] == "literal" and len(f.type[1]) == 1:
            obl.append(("end - start == literal duration", eq(sub(en, st), K(f.type[1][0]))))
        else:
            obl.append(("end - start == duration", eq(sub(en, st), S("self.duration"))))
    else:
        raise P.AnalysisError(f"R-TASK-OBLIG: task class {c.name} declares neither a duration field nor a duration variable")
    # release date / deadline
    rd = dom_of(run, "self.release_date")
    rd_none = leaf_value(run, "self.release_date")
    if not (rd_none is not None and rd_none[1] is None):
        # redundant when the configuration says release_date <= 0 (start >= 0 is an obligation)
        if not (rd is not None and rd.hi is not None and rd.hi <= 0):
            obl.append(("start >= release_date", ge(st, S("self.release_date"))))
    dd_none = leaf_value(run, "self.due_date")
    dl = leaf_value(run, "self.due_date_is_deadline")
    if not (dd_none is not None and dd_none[1] is None) and not (dl is not None and dl[1] is False):
        obl.append(("end <= due_date (deadline)", le(en, S("self.due_date"))))
    return obl, st, en, dur_var


def r_task_oblig(ctx, mode="implies", rule="R-TASK-OBLIG", obligations=True):
    """mode 'implies': every obligation is entailed by what is asserted for a scheduled task (C01);
    mode 'implied': nothing beyond the obligations is asserted (C05)"""
    n_obl = 0
    for c in task_classes(ctx):
        runs = runs_of(ctx, Entry("init", cls=c.name, opaque=OPAQUE))
        fails_closed(ctx, rule, runs)
        where = f"{c.name}.__init__"
        live = [r for r in runs if not r.rejected]
        if not live:
            raise P.AnalysisError(f"{rule}: no accepting path through {where}")
        for run in live:
            cfgs = describe_config(run)
            own = [e for e in run.emissions if e.owner == SELF]
            location = loc(own[0]) if own else first_line(ctx.project, c.name)
            obl, st, en, dur = task_spec(ctx, c, run)
            opt = leaf_value(run, "self.optional")
            if opt is None:
                ctx.violation("R-SET-ASSERTIONS", where, "optional flag never consulted",
                              f"on [{cfgs}] the constructor never looks at `optional`: an optional {c.name} gets no "
                              f"scheduled flag and its rules are not conditional", location, prop="C06" if ctx.prop == "C06" else None)
                continue
            if opt[1] is False:
                if any(e.loops or e.guards for e in own):
                    raise P.AnalysisError(f"{rule}: {where}: conditional emission on a mandatory task not understood")
                scheduled_branch = And(*[e.term for e in own]) if own else TRUE
            else:
                ifs = [e for e in own if is_app(e.term, "If") and len(e.term) == 5]
                others = [e for e in own if e not in ifs]
                flag = heap_term(run, "_scheduled")
                if len(ifs) != 1 or flag is None or flag[0] != "z3var" or flag[1] != "Bool" or ifs[0].term[2] != flag:
                    ctx.violation("R-SET-ASSERTIONS", where, "optional task without If(scheduled, rules, moved to the past)",
                                  f"on [{cfgs}] an optional {c.name} does not assert If(<its scheduled flag>, ...): "
                                  f"found {len(ifs)} If assertion(s), flag={show(flag) if flag else None}", location)
                    continue
                scheduled_branch = ifs[0].term[3]
                # R-SET-ASSERTIONS: the other branch moves the task to a single negative point
                # ... of its own: minus the task number (>= 1 by R-NEG-POINT), or a value drawn from the problem's counter of unique
                # negative integers (the same generator as the points of unselected workers)
                n = heap_term(run, "_task_number")
                past = app("neg", n) if n is not None else None
                drawn = [s_[3] if s_[2] == st else s_[2] for s_ in subterms(ifs[0].term[4])
                         if is_app(s_, "==") and len(s_) == 4 and st in (s_[2], s_[3])]
                if len(set(drawn)) == 1 and "_unique_integer" in show(drawn[0]) and "active_problem" in show(drawn[0]):
                    past = drawn[0]
                exp_else = [eq(st, past), eq(en, past)] + ([eq(dur, K(0))] if dur is not None and dur[0] == "z3var" else [])
                ok, wit, method = decide_equiv(ctx, ifs[0].term[4], And(*exp_else))
                if True:
                    if ok:
                        ctx.ok("R-SET-ASSERTIONS", f"{where} [{cfgs}] unscheduled branch",
                               sample={"emitted": show(norm(ifs[0].term[4]))[:300], "decided_by": method})
                    else:
                        ctx.violation("R-SET-ASSERTIONS", where, "unscheduled branch",
                                      f"an unscheduled {c.name} must be start == end == one negative point of its own (-task_number or a unique negative integer)"
                                      f"{' and duration == 0' if dur is not None and dur[0] == 'z3var' else ''}; "
                                      f"emitted {show(norm(ifs[0].term[4]))[:300]}", location, witness=str(wit)[:300])
                # anything asserted outside the If binds the unscheduled task too
                for e in (others if ctx.prop != "C01" else []):
                    ctx.violation("R-SCHED-GUARD", where, f"outside the scheduled guard: {show(norm(e.term))[:160]}",
                                  f"on [{cfgs}] {show(norm(e.term))[:200]} is asserted unconditionally for an optional task: "
                                  f"it also binds the task when it is not scheduled", loc(e))
            spec = And(*[t for _, t in obl])
            if not obligations:
                n_obl += 1
                continue
            if opt[1] is True:
                # what is asserted unconditionally also holds when the task is scheduled
                scheduled_branch = And(scheduled_branch, *[e.term for e in others])
            if mode == "implies":
                for name, t in obl:
                    ok, wit, method = decide_equiv(ctx, scheduled_branch, t, mode="implies")
                    n_obl += 1
                    inst = f"{where} [{cfgs}] {name}"
                    if ok:
                        ctx.ok(rule, inst, sample={"obligation": show(norm(t))[:200], "asserted": show(norm(scheduled_branch))[:300],
                                                   "decided_by": method})
                    else:
                        ctx.violation(rule, where, f"obligation: {name}",
                                      f"on [{cfgs}] what is asserted for a scheduled {c.name} does not entail {show(norm(t))[:200]} "
                                      f"(asserted: {show(norm(scheduled_branch))[:300]})", location, witness=str(wit)[:300])
            else:
                ok, wit, method = decide_equiv(ctx, scheduled_branch, spec, mode="implied")
                n_obl += 1
                inst = f"{where} [{cfgs}] nothing beyond the documented rules"
                if ok:
                    ctx.ok(rule, inst, sample={"asserted": show(norm(scheduled_branch))[:300], "decided_by": method})
                else:
                    ctx.violation(rule, where, "asserts more than the documented task rules",
                                  f"on [{cfgs}] a scheduled {c.name} is constrained by {show(norm(scheduled_branch))[:300]}, "
                                  f"which the documented rules {show(norm(spec))[:300]} do not imply", location,
                                  witness=str(wit)[:300])
    ctx.floor(rule, "task obligations", n_obl, 20)


INIT_ENTRY = Entry("method", cls="SchedulingSolver", name="initialize", opaque=OPAQUE)


def init_runs(ctx, rule):
    runs = runs_of(ctx, INIT_ENTRY)
    fails_closed(ctx, rule, runs)
    live = [r for r in runs if not r.rejected]
    if not live:
        raise P.AnalysisError(f"{rule}: SchedulingSolver.initialize has no normal path")
    return live


def sig_of(*iterables, guards=()):
    loops = []
    for pos, it in enumerate(iterables):
        loops.append(("loop", pos, "", norm(it(loops) if callable(it) else it)))
    return (tuple(loops), tuple(sorted((norm(g(loops) if callable(g) else g) for g in guards), key=show)))


def values_of(reg):
    return ("mcall", S(f"self.problem.{reg}"), "values", (), ())


def r_horizon(ctx, exact=False):
    """exact: the user horizon must bound the horizon variable and nothing more (C07: the makespan objective minimises that
    variable - pinned to the user's value it is a constant, nothing is optimised and the two optimisers return arbitrary models)"""
    where = "SchedulingSolver.initialize"
    for run in init_runs(ctx, "R-HORIZON"):
        groups = stream_groups(run)
        sig = sig_of(values_of("tasks"))
        task = elem(sig[0][0])
        want = le(A(task, "_end"), S("self.problem._horizon"))
        bodies = groups.get(sig, [])
        ok = False
        for b in bodies:
            r, _, _ = decide_equiv(ctx, b, want, mode="implies")
            ok = ok or r
        inst = f"{where} [{describe_config(run)}]"
        if ok:
            ctx.ok("R-HORIZON", inst, sample={"asserted for every task of the unfiltered registry": show(norm(want))})
        else:
            ctx.violation("R-HORIZON", where, "end <= horizon for every task",
                          f"on [{describe_config(run)}] no assertion `task._end <= problem._horizon` is made for every task of "
                          f"problem.tasks (found for that loop: {[show(b)[:120] for b in bodies]})",
                          "processscheduler/solver.py")
    # the user horizon bounds the horizon variable
    runs = runs_of(ctx, Entry("init", cls="SchedulingProblem"))
    fails_closed(ctx, "R-HORIZON", runs)
    seen = 0
    for run in runs:
        if run.rejected:
            continue
        v = leaf_value(run, "self.horizon")
        hz = run.heap.get((SELF, "_horizon"))
        # a horizon the constructor computes itself (from the calendar window, say) is what build_solution reports and what the
        # renderers count periods with: it must be the bound that is asserted, and an integer
        final = run.heap.get((SELF, "horizon"))
        if isinstance(final, tuple) and final != NONE and final != A(SELF, "horizon") and not (final[0] == "k"):
            seen += 1
            asserted = [e.term for e in run.emissions if e.owner == SELF and not e.loops]
            bound_ok = any(decide_equiv(ctx, t_, le(hz, final), mode="implies")[0] for t_ in asserted if is_app(t_))
            if not bound_ok:
                ctx.violation("R-HORIZON", "SchedulingProblem.__init__", "a computed horizon is asserted",
                              f"on [{describe_config(run)[:100]}] the constructor sets self.horizon = {show(norm(final))[:120]} but does not "
                              f"assert `_horizon <= ` that value (asserted: {[show(norm(t_))[:80] for t_ in asserted]}): the horizon "
                              f"reported with the solution can be earlier than task ends", first_line(ctx.project, "SchedulingProblem"))
            if any(is_app(s_, "/") for s_ in subterms(final)):
                ctx.violation("R-HORIZON", "SchedulingProblem.__init__", "a computed horizon is an integer",
                              f"on [{describe_config(run)[:100]}] self.horizon = {show(norm(final))[:120]} is a true division: a float "
                              f"horizon is reported (8.0) and `range(horizon + 1)` in the renderers raises TypeError",
                              first_line(ctx.project, "SchedulingProblem"))
            continue
        if v is not None and v[1] is None:
            continue
        seen += 1
        want = le(hz, S("self.horizon"))
        em = And(*[e.term for e in run.emissions if e.owner == SELF and not e.loops and not e.guards])
        ok, wit, _ = decide_equiv(ctx, em, want, mode="equiv" if exact else "implies")
        if not ok and exact and decide_equiv(ctx, em, want, mode="implies")[0]:
            ctx.violation("R-HORIZON", "SchedulingProblem.__init__", "_horizon is only bounded by the user horizon",
                          f"with a user horizon the problem asserts {show(norm(em))[:200]}, which is stronger than `_horizon <= horizon`: "
                          f"the horizon variable is what ObjectiveMinimizeMakespan minimises, it must stay free below the user's bound",
                          first_line(ctx.project, "SchedulingProblem"))
            continue
        if ok:
            ctx.ok("R-HORIZON", "SchedulingProblem.__init__ horizon given", sample={"asserted": show(norm(em))[:200]})
        else:
            ctx.violation("R-HORIZON", "SchedulingProblem.__init__", "_horizon <= horizon",
                          f"with a user horizon the problem does not assert _horizon <= horizon (asserts {show(norm(em))[:200]})",
                          first_line(ctx.project, "SchedulingProblem"))
    ctx.floor("R-HORIZON", "horizon-given configurations of SchedulingProblem.__init__", seen, 1)


DRAINS = [
    ("tasks", lambda: values_of("tasks"), ()),
    ("workers", lambda: values_of("workers"), ()),
    ("constraints", lambda: values_of("constraints"), ("not-created-from-assertion",)),
    ("indicators", lambda: values_of("indicators"), ()),
    ("buffers", lambda: S("self.problem.buffers"), ()),
]


def r_drain(ctx, only=None):
    """every owner of emitted assertions is drained, whole registry, into the solver"""
    where = "SchedulingSolver.initialize"
    n = 0
    for run in init_runs(ctx, "R-DRAIN"):
        groups = stream_groups(run)
        cfgs = describe_config(run)
        for name, itf, allowed in DRAINS:
            if only and name not in only:
                continue
            it = itf()
            found = None
            for sig in groups:
                loops, guards = sig
                if len(loops) == 2 and loops[0][3] == norm(it) and loops[1][3] == A(elem(loops[0]), "_z3_assertions") \
                        and groups[sig] == [elem(loops[1])]:
                    found = sig
                    break
            n += 1
            inst = f"{where} [{cfgs}] drain of problem.{name}"
            if found is None:
                ctx.violation("R-DRAIN", where, f"drain of problem.{name}",
                              f"on [{cfgs}] the assertions of the elements of problem.{name} are not all handed to the solver "
                              f"(no unconditional loop over the whole registry forwarding get_z3_assertions())",
                              "processscheduler/solver.py")
                continue
            guards = found[1]
            if guards:
                e0 = elem(found[0][0])
                permitted = [norm(app("not", A(e0, "_created_from_assertion")))] if allowed else []
                bad = [g for g in guards if g not in permitted]
                if bad:
                    ctx.violation("R-DRAIN", where, f"drain of problem.{name} is filtered",
                                  f"on [{cfgs}] the drain of problem.{name} is restricted by {[show(g) for g in bad]}",
                                  "processscheduler/solver.py")
                    continue
            elif allowed:
                ctx.violation("R-DRAIN", where, "constraints used inside a logical combination are enforced on their own",
                              f"on [{cfgs}] the constraint drain no longer skips constraints created from an assertion",
                              "processscheduler/solver.py", prop="C10" if ctx.prop == "C10" else None)
                continue
            ctx.ok("R-DRAIN", inst, nontrivial=True, sample={"loop": show_sig(found)[:200]})
        if not only or "problem" in only:
            sigp = sig_of(S("self.problem._z3_assertions"))
            n += 1
            if sigp in groups and groups[sigp] == [elem(sigp[0][0])]:
                ctx.ok("R-DRAIN", f"{where} [{cfgs}] drain of the problem's own assertions")
            else:
                ctx.violation("R-DRAIN", where, "drain of the problem's own assertions",
                              f"on [{cfgs}] problem.get_z3_assertions() (horizon bound) is not handed to the solver",
                              "processscheduler/solver.py")
    ctx.floor("R-DRAIN", "drain loops", n, 6)


RULES = [r_task_oblig, r_horizon, r_drain]


def r_base_store(ctx):
    """NamedUIDObject: the assertion list receives exactly what is appended, and is returned whole (the primitives every
    other rule rests on)"""
    proj = ctx.project
    where = "NamedUIDObject.append_z3_assertion"
    fn = proj.method("NamedUIDObject", "append_z3_assertion")[1]
    arg = S(fn.args.args[1].arg)
    for r in runs_of(ctx, Entry("method", cls="NamedUIDObject", name="append_z3_assertion")):
        apps = [ev for ev in r.events_of("mcall") if ev.data["name"] == "append" and ev.data["recv"] == A(SELF, "_z3_assertions")]
        ok = len(apps) == 1 and apps[0].data["args"] == (arg,) and not apps[0].loops
        # the only thing that may stop the append is the duplicate guard, and it must raise (never drop silently)
        gs = apps[0].guards if apps else ()
        raises = r.events_of("raise")
        silent_skip = [g for g in gs if not any(is_app(g, "not") and g[2] in ev.guards for ev in raises)]
        # a conditional return of this very method (returns of inlined helpers are values, not exits of the method)
        returns_early = [ev for ev in r.events_of("return") if ev.site.func.endswith("NamedUIDObject.append_z3_assertion") and ev.guards]
        # a return that follows the append under the append's own conditions leaves nothing out
        order = {id(ev): i for i, ev in enumerate(r.events)}
        returns_early = [ev for ev in returns_early
                         if not (apps and set(apps[0].guards) <= set(ev.guards) and order[id(ev)] > order[id(apps[0])])]
        if ok and not silent_skip and not returns_early:
            ctx.ok("R-BASE-STORE", f"{where}: the assertion is appended on every non-raising path")
        else:
            ctx.violation("R-BASE-STORE", where, "assertion stored unless an exception is raised",
                          f"appends: {[(show(a.data['args'][0])[:40], [show(g)[:60] for g in a.guards]) for a in apps]}; early returns: "
                          f"{len(returns_early)}: an assertion can be dropped silently", first_line(proj, "NamedUIDObject"))
    for r in runs_of(ctx, Entry("method", cls="NamedUIDObject", name="get_z3_assertions")):
        if r.retval == A(SELF, "_z3_assertions"):
            ctx.ok("R-BASE-STORE", "NamedUIDObject.get_z3_assertions returns the whole list")
        else:
            ctx.violation("R-BASE-STORE", "NamedUIDObject.get_z3_assertions", "whole assertion list returned",
                          f"returns {show(r.retval)[:120] if isinstance(r.retval, tuple) else r.retval}", first_line(proj, "NamedUIDObject"))
    fn = proj.method("NamedUIDObject", "append_z3_list_of_assertions")[1]
    lst = S(fn.args.args[1].arg)
    for r in runs_of(ctx, Entry("method", cls="NamedUIDObject", name="append_z3_list_of_assertions")):
        ok = len(r.emissions) == 1 and len(r.emissions[0].loops) == 1 and norm(r.emissions[0].loops[0][3]) == lst \
            and r.emissions[0].term == ("elem", r.emissions[0].loops[0]) and not r.emissions[0].guards and r.emissions[0].owner == SELF
        if ok:
            ctx.ok("R-BASE-STORE", "NamedUIDObject.append_z3_list_of_assertions forwards every element")
        else:
            ctx.violation("R-BASE-STORE", "NamedUIDObject.append_z3_list_of_assertions", "every element forwarded",
                          f"{[e.describe()[:120] for e in r.emissions]}", first_line(proj, "NamedUIDObject"))


def _declared_reaches_solver(ctx):
    from rules import resources as _r
    _r.r_declared_reaches_solver(ctx)


RULES = [r_task_oblig, r_horizon, r_drain, r_base_store, _declared_reaches_solver,
         lambda ctx: __import__("rules.validation", fromlist=["x"]).r_dup_name(ctx, only=('add_task',))]


# the lists the solver drains are the model's own: it must leave them as they are (R-ARG-READONLY)
RULES.append(lambda ctx: __import__("rules.driver", fromlist=["x"]).r_arg_readonly(ctx))
