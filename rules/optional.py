"""C06 - optional tasks: scheduled like mandatory ones, inert otherwise.

R-SCHED-GUARD : inertness (taint) analysis over the extracted IR.  Sources are the time leaves of
                possibly-unscheduled entities (task start/end/duration, busy interval bounds); every
                occurrence in an emitted term is classified by its guard context (M, G1..G3, T) or
                U:<context>.  Every U class must be listed in BENIGN (reason) or known_findings.json.
R-OPT-RULES   : truth tables of the rules that force / condition / couple / count optional tasks.
R-SET-ASSERTIONS (shared with C01): If(scheduled, rules, moved to the past).
"""
from __future__ import annotations

from typing import List

from sa import project as P
from sa.interp import Entry
from sa.lib import *
from sa.terms import subterms
from rules import tasks as task_rules
from rules.task_constraints import apply_config, kind_of

OPAQUE = ("sort_no_duplicates", "sort_duplicates", "get_minimum", "get_maximum")
TIME_ATTRS = {"_start": "task.start", "_end": "task.end", "_duration": "task.duration"}


def is_busy_tuple(t) -> bool:
    if not isinstance(t, tuple) or not t:
        return False
    if t[0] == "elem":
        it = show(t[1][3])
        if ".items()" in it:
            return False           # (task, interval) pairs
        return ("_busy_intervals" in it and ".values()" in it) or "get_busy_intervals" in it
    if t[0] == "idx":
        if isinstance(t[1], tuple) and t[1] and t[1][0] == "attr" and t[1][2] == "_busy_intervals":
            return True
        if t[2] == K(1) and isinstance(t[1], tuple) and t[1] and t[1][0] == "elem":
            it = show(t[1][1][3])
            return "_busy_intervals" in it and "items" in it
        if isinstance(t[1], tuple) and t[1] and t[1][0] in ("call", "mcall") and "_busy_intervals" in show(t[1]):
            return not is_const(t[2]) or True
    return False


def source_role(t):
    """role of a time leaf, or None"""
    if not isinstance(t, tuple) or not t:
        return None
    if t[0] == "attr" and t[2] in TIME_ATTRS and t[1] != S("self"):
        return TIME_ATTRS[t[2]]
    if t[0] == "idx" and is_const(t[2]) and t[2][1] in (0, 1) and is_busy_tuple(t[1]):
        return "busy.start" if t[2][1] == 0 else "busy.end"
    if t[0] == "idx" and isinstance(t[1], tuple) and t[1] and t[1][0] == "idx" and t[1][2] == K(0) and isinstance(t[1][1], tuple) \
            and t[1][1] and t[1][1][0] == "call" and "sort_" in str(t[1][1][1]):
        return "sorted.copy"
    if t[0] == "z3var" and t[1] == "Int" and "busy" in show(t[2]):
        return "busy.start" if show(t[2]).endswith("_start'") else "busy.end"
    return None


def owner_of(t):
    if source_role(t) == "sorted.copy":
        return t
    if t[0] == "attr":
        return t[1]
    if t[0] == "idx":
        return t[1]
    return t


class Occ:
    __slots__ = ("leaf", "role", "guards", "ctx", "test", "anc")

    def __init__(self, leaf, role, guards, ctx, test, anc=()):
        self.leaf, self.role, self.guards, self.ctx, self.test = leaf, role, list(guards), list(ctx), test
        self.anc = anc


_ANC: list = []


def occurrences(term, guards, out: List[Occ], ctx=(), test=False):
    if not isinstance(term, tuple) or not term:
        return
    role = source_role(term)
    if role is not None:
        out.append(Occ(term, role, guards, ctx, test, tuple(_ANC)))
        return
    _ANC.append(term)
    try:
        _occurrences(term, guards, out, ctx, test)
    finally:
        _ANC.pop()


def _occurrences(term, guards, out, ctx, test):
    if not isinstance(term[0], str):
        for c in term:
            if isinstance(c, tuple):
                occurrences(c, guards, out, ctx, test)
        return
    k = term[0]
    if k == "app":
        op = term[1]
        if op == "Implies" and len(term) == 4:
            occurrences(term[2], guards, out, ctx + ("Implies?",), True)
            occurrences(term[3], list(guards) + [term[2]], out, ctx + ("Implies",), test)
            return
        if op == "If" and len(term) == 5:
            occurrences(term[2], guards, out, ctx + ("If?",), True)
            occurrences(term[3], list(guards) + [term[2]], out, ctx + ("If",), test)
            occurrences(term[4], list(guards) + [app("Not", term[2])], out, ctx + ("If",), test)
            return
        for a in term[2:]:
            occurrences(a, guards, out, ctx + (op,), test)
        return
    if k == "phi" and len(term) == 4:
        occurrences(term[2], list(guards) + [term[1]], out, ctx, test)
        occurrences(term[3], list(guards) + [app("not", term[1])], out, ctx, test)
        return
    if k == "each":
        for l in term[1]:
            occurrences(l[3], guards, out, ctx + ("iter",), test)
        occurrences(term[3], list(guards) + list(term[2]), out, ctx, test)
        return
    if k in ("call", "mcall"):
        name = term[1] if k == "call" else term[2]
        args = term[2] if k == "call" else term[3]
        if k == "mcall":
            occurrences(term[1], guards, out, ctx + (f"call:{name}",), test)
        for a in args:
            occurrences(a, guards, out, ctx + (f"call:{str(name).split('.')[-1]}",), test)
        return
    if k in ("loop",):
        return
    for c in term[1:]:
        if isinstance(c, tuple):
            occurrences(c, guards, out, ctx, test)


def conjuncts(g):
    g = norm(g)
    if is_app(g, "And"):
        out = []
        for a in g[2:]:
            out.extend(conjuncts(a))
        return out
    if is_app(g, "and") or is_app(g, "and*"):
        out = []
        for a in g[2:]:
            out.extend(conjuncts(a))
        return out
    if is_app(g, "Or") and len(g) == 3 and g[2][0] == "each":
        # "for some element e: And(cs)": the conjuncts that do not mention e hold
        body = g[2][3]
        elems = [("elem", l) for l in g[2][1]]
        return [g] + [c for c in conjuncts(body) if not any(s_ in elems for s_ in subterms(c)) or True]
    return [g]


def is_nonneg_test(c, leaf) -> bool:
    """c is `leaf >= 0`, `leaf > -1`, `0 <= leaf` ..."""
    ca = None
    from sa.decide import canon_atom, Lin
    if is_app(c) and c[1] in ("<", "<=", ">", ">=") and len(c) == 4:
        ca = canon_atom(c)
    if ca is None or ca[0] != "le":
        return False
    l = ca[1]                      # l <= 0
    if len(l.coef) != 1:
        return False
    (t, coef), = l.coef.items()
    return t == norm(leaf) and coef == -1 and l.const <= 0 and l.const >= 0 - 0 if False else \
        (t == norm(leaf) and coef < 0 and l.const == 0)


def is_lower_bound_test(c, leaf) -> bool:
    """c is `leaf >= X` with X not a z3 unknown of the schedule (an interval bound, assumed non-negative)"""
    from sa.decide import canon_atom
    if not (is_app(c) and c[1] in ("<", "<=", ">", ">=") and len(c) == 4):
        return False
    ca = canon_atom(c)
    if ca is None or ca[0] != "le":
        return False
    coef = ca[1].coef.get(norm(leaf))
    if coef is None or coef >= 0:
        return False
    others = [t for t in ca[1].coef if t != norm(leaf)]
    return all(source_role(t) is None for t in others)


def classify(o: Occ, run, static_optional) -> str:
    owner = owner_of(o.leaf)
    # M: the configuration says the task is mandatory
    if o.role.startswith("task") and owner[0] == "attr":
        st = static_optional(owner)
        if st is False:
            return "M"
    flags = set()
    tests = []
    for g in o.guards:
        for c in conjuncts(g):
            flags.add(c)
            tests.append(c)
    if o.role.startswith("task"):
        if ("attr", owner, "_scheduled") in flags:
            return "G1"
        if norm(app("not", ("attr", owner, "optional"))) in flags or app("Not", ("attr", owner, "optional")) in flags:
            return "M"
        # product with the flag
        for i, op in enumerate(o.ctx):
            if op == "*":
                return "G2?"      # resolved by the caller with the actual product
    for c in tests:
        if is_nonneg_test(c, o.leaf):
            return "G3"
    if o.role == "sorted.copy":
        for c in tests:
            if is_lower_bound_test(c, o.leaf):
                return "G3"
    if o.test:
        # a test of the time against a constant is a test of "is it scheduled / selected": moved points are -1, -2, ...,
        # so the only thresholds that separate them from real times are `t >= 0` and its negation `t <= -1`
        from sa.decide import canon_atom
        for a in reversed(o.anc):
            if is_app(a) and a[1] in ("<", "<=", ">", ">=", "==", "!=") and len(a) == 4:
                ca = canon_atom(a)
                if ca is not None and ca[0] == "le" and len(ca[1].coef) == 1 and norm(o.leaf) in ca[1].coef:
                    coef, const = ca[1].coef[norm(o.leaf)], ca[1].const
                    if not ((coef < 0 and const == 0) or (coef > 0 and const == coef)):
                        return "U"
                break
        return "T"
    if same_interval_difference(o):
        return "G5"
    return "U"


def same_interval_difference(o: Occ) -> bool:
    """the occurrence sits in `B[1] - B[0]` of one busy interval B (zero for a moved point)"""
    for a in reversed(o.anc):
        if is_app(a, "-") and len(a) == 4:
            x, y = a[2], a[3]
            if source_role(x) == "busy.end" and source_role(y) == "busy.start" and owner_of(x) == owner_of(y):
                return True
            if source_role(x) == "task.end" and source_role(y) == "task.start" and owner_of(x) == owner_of(y):
                return True
            return False
        if is_app(a) and a[1] in ("+", "*", "/", "%", "Sum", "neg", "**"):
            return False
    return False


def bound_direction(o: Occ) -> str:
    """how the nearest comparison bounds the leaf: :lower / :upper / :eq (syntactic, polarity ignored)"""
    from sa.decide import canon_atom
    for a in reversed(o.anc):
        if is_app(a) and a[1] in ("<", "<=", ">", ">=", "==", "!=") and len(a) == 4:
            ca = canon_atom(a)
            if ca is None:
                return ""
            if ca[0] != "le":
                return ":eq"
            c = ca[1].coef.get(norm(o.leaf))
            if c is None:
                return ""
            return ":upper" if c > 0 else ":lower"
    return ""


def context_class(o: Occ) -> str:
    if same_interval_difference(o):
        return "own-length"
    ctx = [c for c in o.ctx if c not in ("And", "Or", "Not", "Xor", "Implies", "If", "Implies?", "If?")]
    if "%" in ctx:
        return "mod"
    calls = [c for c in ctx if c.startswith("call:")]
    if calls:
        return calls[-1].replace("call:", "arg-of-")
    arith = [c for c in ctx if c in ("+", "-", "*", "/", "Sum", "neg", "**")]
    cmpops = [c for c in ctx if c in ("<", "<=", ">", ">=", "==", "!=")]
    if arith:
        if arith == ["-"] or arith == ["Sum", "-"] or arith[-1] == "-" and "*" not in arith:
            return "difference" + ("-compared" if cmpops else "")
        return "arithmetic" + ("-compared" if cmpops else "")
    if cmpops:
        return "compared" + bound_direction(o)
    if "Store" in ctx or "apply" in ctx or "Select" in ctx:
        return "array-index"
    return "bare"


def product_has_flag(term, leaf, owner) -> bool:
    """leaf occurs in a product one factor of which is the owner's scheduled flag"""
    flag = ("attr", owner, "_scheduled")

    def factors(t):
        if is_app(t, "*") and len(t) == 4:
            return factors(t[2]) + factors(t[3])
        return [t]

    for s in subterms(term):
        if is_app(s, "*"):
            fs = factors(s)
            if flag in fs and any(leaf == f or any(x == leaf for x in subterms(f)) for f in fs):
                return True
    return False


# ---------------------------------------------------------------------------
# benign U classes: (where, role-family, context) -> reason            (confirmed by reading)
# ---------------------------------------------------------------------------
BENIGN = {}


def _b(where, role, context, reason):
    for c in ([context] if isinstance(context, str) else context):
        BENIGN[(where, role, c)] = reason


LU = ("compared:lower", "compared:upper")
LUE = ("compared:lower", "compared:upper", "compared:eq")


for _c in ("TasksContiguous", "ResourceNonDelay", "ResourceTasksDistance", "IndicatorResourceIdle"):
    for _r in ("task", "busy"):
        _b(f"{_c}.__init__", _r, "arg-of-sort_no_duplicates",
           "the times only feed a sorted copy; unscheduled/unselected points are distinct negative integers, so the copy "
           "exists, and every use of the copy is guarded by a >= 0 test on it (G3)")
NEG = ("an unscheduled task / unselected worker is a single negative point; the bounds it is compared with (interval "
       "bounds, start/end of the activity window, due dates) are assumed non-negative, so the comparison evaluates as for "
       "an interval lying entirely before them and the constraint is satisfied without binding anything")
_b("IndicatorNumberOfTardyTasks.__init__", "task", "arithmetic-compared", "end > due_date is false for a moved task whenever due_date >= 0")
_b("ObjectiveMinimizeGreatestStartTime.__init__", "task", "arg-of-get_maximum", "a maximum over start times: a negative (moved) start is never the maximum as soon as one task is scheduled")
_b("IndicatorResourceCost.__init__", "busy", "arg-of-cost", "the cost value is multiplied by the interval's own length, which is 0 for a moved point")
_b("ObjectiveMinimizeFlowtimeSingleResource.__init__", "task", LUE,
   "every use is either guarded by start >= lower_bound (>= 0) in the antecedent or sits in a disjunct of an Or the solver "
   "may leave false; reproduced: an unscheduled optional task does not change the optimum")
for _c in ("ResourceUnavailable", "ResourceInterrupted", "ResourcePeriodicallyUnavailable", "ResourcePeriodicallyInterrupted"):
    _b(f"{_c}.__init__", "busy", LU, NEG)
_b("ResourceInterrupted.__init__", "busy", "arithmetic-compared", "the busy times only select which overlap terms are added; for a moved point every overlap condition is false and the sum is 0")
_b("ResourceInterrupted.__init__", "task", "arithmetic-compared", "total overlap is 0 for a moved point and the min-duration bound is under the scheduled guard (G1); the max-duration bound holds for duration 0")
_b("ResourceInterrupted.__init__", "task", "compared:upper", "duration <= max_duration + overlap holds for the duration 0 of an unscheduled task")
_b("ResourcePeriodicallyInterrupted.__init__", "task", "compared:upper", "duration <= max_duration + overlap holds for the duration 0 of an unscheduled task")
_b("WorkLoad.__init__", "busy", "difference-compared", "the overlap definitions are conditional on the interval intersecting [lo, hi]; for a moved point only `dur == 0` is active")
_b("ScheduleNTasksInTimeIntervals.__init__", "task", LU, "the times only occur in the consequent of an implication by a fresh Boolean that is false-able (G4); for a moved task the consequent is false and the Boolean is 0")
_b("SchedulingSolver.initialize", "busy", LU, "pairwise non-overlap: a moved point has zero length and all moved points are distinct (R-NEG-POINT), so the disjunction holds")
_b("SchedulingSolver.initialize", "task", "compared:upper", "end <= horizon is an upper bound only; it holds for a negative end")
_b("Task.add_required_resource", "busy", LUE, "defining site of the busy interval: If(selected, equal to the task span, moved to a unique negative point)")
_b("Task.add_required_resource", "task", LUE, "defining site of the busy interval: the interval follows the task, also when the task is moved to the past")


def entries(ctx):
    proj = ctx.project
    out = []
    for base in ("Constraint", "Indicator", "Objective"):
        for c in proj.subclasses(base):
            out.append((f"{c.name}.__init__", Entry("init", cls=c.name, opaque=OPAQUE)))
    out.append(("Task.add_required_resource", Entry("method", cls="Task", name="add_required_resource", opaque=OPAQUE)))
    return out


BASE_INITS = {"Constraint.__init__", "NamedUIDObject.__init__", "BaseModelWithJson.__init__", "Indicator.__init__",
              "Objective.__init__", "TaskConstraint.__init__", "ResourceConstraint.__init__", "Task.__init__"}


def where_of(e, default):
    for s in [e.site] + list(reversed(e.stack)):
        if s.func.endswith(".__init__") and s.func not in BASE_INITS:
            return s.func
    return default


def r_sched_guard(ctx):
    found = {}     # (where, role-family, context) -> (example, location)
    counted = {"M": 0, "G1": 0, "G2": 0, "G3": 0, "G5": 0, "T": 0, "U": 0}
    n_occ = 0

    def analyse(where, run, items):
        nonlocal n_occ

        def static_optional(owner):
            d = run.doms.get(("attr", owner, "optional"))
            if d is None:
                return None
            s = d.singleton()
            return s[1] if s is not None else None

        for loops, guards, term, location, where in items:
            occs: List[Occ] = []
            occurrences(term, list(guards), occs)
            for l in loops:
                occurrences(l[3], list(guards), occs, ("iter",))
            for o in occs:
                n_occ += 1
                cl = classify(o, run, static_optional)
                if cl == "G2?":
                    cl = "G2" if product_has_flag(term, o.leaf, owner_of(o.leaf)) else ("T" if o.test else "U")
                counted[cl] = counted.get(cl, 0) + 1
                if cl == "U":
                    key = (where, o.role.split(".")[0], context_class(o))
                    if key not in found:
                        found[key] = (show(norm(term))[:260], location, describe_config(run))

    for where, entry in entries(ctx):
        runs = runs_of(ctx, entry)
        fails_closed(ctx, "R-SCHED-GUARD", runs)
        for run in runs:
            if run.rejected:
                continue
            items = [(e.loops, e.guards, e.term, loc(e), where_of(e, where)) for e in run.emissions]
            analyse(where, run, items)
    for run in task_rules.init_runs(ctx, "R-SCHED-GUARD"):
        items = [(l, g, t, f"processscheduler/solver.py:{(ev.stack[0] if ev.stack else ev.site).lineno}",
                  "SchedulingSolver.initialize") for l, g, t, ev in solver_stream(run)]
        analyse("SchedulingSolver.initialize", run, items)
    ctx.floor("R-SCHED-GUARD", "time-leaf occurrences in emitted terms", n_occ, 150)
    ctx.extra["sched_guard_occurrences"] = dict(counted)
    ctx.extra["sched_guard_total"] = n_occ
    for key, (example, location, cfgs) in sorted(found.items()):
        where, role, context = key
        if key in BENIGN:
            ctx.ok("R-SCHED-GUARD", f"{where} {role} {context} (benign: {BENIGN[key][:80]})", nontrivial=True)
            continue
        ctx.violation("R-SCHED-GUARD", where, f"unguarded {role} time, context: {context}",
                      f"a {role} time of a possibly unscheduled/unselected entity occurs without scheduled guard "
                      f"(context: {context}) in {example} on [{cfgs}]", location)
    # every guarded class counts as an obligation that held
    for cl in ("M", "G1", "G2", "G3", "G5", "T"):
        if counted.get(cl):
            ctx.ok("R-SCHED-GUARD", f"{counted[cl]} occurrences classified {cl}", nontrivial=True)


def r_opt_rules(ctx):
    """truth tables of the rules over scheduled flags"""
    T = lambda n: S(f"self.{n}")
    sched = lambda n: A(T(n), "_scheduled")
    specs = {
        "OptionalTaskForceSchedule": lambda run: eq(sched("task"), T("to_be_scheduled")),
        "OptionalTaskConditionSchedule": lambda run: eq(sched("task"), T("condition")),
        "OptionalTasksDependency": None,
    }
    from rules.task_constraints import mandatory_runs
    for cname, spec in specs.items():
        runs = runs_of(ctx, Entry("init", cls=cname, opaque=OPAQUE))
        fails_closed(ctx, "R-OPT-RULES", runs)
        where = f"{cname}.__init__"
        live = mandatory_runs(runs)
        if not live:
            raise P.AnalysisError(f"R-OPT-RULES: no accepting path through {where}")
        for run in live:
            own = [e for e in run.emissions if e.owner == S("self")]
            location = loc(own[0]) if own else first_line(ctx.project, cname)
            em = And(*[e.term for e in own]) if own else TRUE
            if cname == "OptionalTasksDependency":
                s1, s2 = sched("task_1"), sched("task_2")
                # the class docstring says "task_2 is scheduled if and only if task_1 is scheduled", the user guide
                # (docs/task_constraints.md) states one direction of it ("if task_1 is scheduled then task_2 is forced
                # to be scheduled as well"): the equivalence is the only relation that satisfies both texts, the bare
                # implication contradicts the docstring (seed C06-agent-9)
                ok, wit, _ = decide_equiv(ctx, em, eq(s1, s2))
            else:
                ok, wit, _ = decide_equiv(ctx, em, spec(run))
            inst = f"{where} [{describe_config(run)}]"
            if ok:
                ctx.ok("R-OPT-RULES", inst, sample={"emitted": show(norm(em))[:240]})
            else:
                ctx.violation("R-OPT-RULES", where, "relation over the scheduled flags",
                              f"emitted {show(norm(em))[:240]} is not the documented rule", location, witness=str(wit)[:300])
        # the mandatory-task rejection precedes everything (R-RAISE-OPTIONAL)
        need = "task_2" if cname == "OptionalTasksDependency" else "task"
        for run in runs:
            v = leaf_value(run, f"self.{need}.optional")
            if v is not None and v[1] is False and not run.rejected:
                ctx.violation("R-RAISE-OPTIONAL", where, "mandatory task accepted",
                              f"{cname} accepts a task that is not optional", first_line(ctx.project, cname))
            elif v is not None and v[1] is False:
                if run.emissions:
                    ctx.violation("R-RAISE-OPTIONAL", where, "assertion emitted before the rejection",
                                  "an assertion is emitted before the mandatory task is rejected", first_line(ctx.project, cname))
                else:
                    ctx.ok("R-RAISE-OPTIONAL", f"{where} rejects a mandatory task")
            elif v is None:
                ctx.violation("R-RAISE-OPTIONAL", where, "optional flag of the task never tested",
                              f"{cname} never checks that its task is optional", first_line(ctx.project, cname))
    # ForceScheduleNOptionalTasks: cardinality over the flags of the whole list
    cname = "ForceScheduleNOptionalTasks"
    runs = runs_of(ctx, Entry("init", cls=cname, opaque=OPAQUE))
    fails_closed(ctx, "R-PB-TABLE", runs)
    where = f"{cname}.__init__"
    L = loop("b0.0", T("list_of_optional_tasks"))
    seen = set()
    for run in mandatory_runs(runs):
        kind = kind_of(run)
        kinds = [kind]
        if kind is None:
            # the path never had to tell some kinds apart: it stands for each of the kinds still possible
            d_ = run.doms.get(T("kind"))
            kinds = sorted(d_.vals) if d_ is not None and d_.vals else []
            if not kinds:
                raise P.AnalysisError(f"R-PB-TABLE: {cname}: kind undetermined on a path")
        seen.update(kinds)
        own = [e for e in run.emissions if e.owner == S("self")]
        n_dom = run.doms.get(T("nb_tasks_to_schedule"))
        n_side = []
        if n_dom is not None and n_dom.is_int:
            if n_dom.lo is not None:
                n_side.append(ge(T("nb_tasks_to_schedule"), K(n_dom.lo)))
            if n_dom.hi is not None:
                n_side.append(le(T("nb_tasks_to_schedule"), K(n_dom.hi)))
        for kind in kinds:
            pb = {"min": "PbGe", "max": "PbLe", "exact": "PbEq"}.get(kind)
            location = loc(own[0]) if own else first_line(ctx.project, cname)
            want = norm(app(pb, ("list", (("each", (L,), (), ("tuple", (A(elem(L), "_scheduled"), TRUE))),)), T("nb_tasks_to_schedule")))
            got = [norm(e.term) for e in own]
            rel = {"min": ">=", "max": "<=", "exact": "=="}[kind]
            sem_ok, sem_detail = (False, "")
            if len(own) == 1 and not own[0].loops and not own[0].guards:
                sem_ok, sem_detail = decide_cardinality(own[0].term, ("each", (L,), (), A(elem(L), "_scheduled")), rel, T("nb_tasks_to_schedule"), side=n_side)
            if got == [want] or sem_ok:
                ctx.ok("R-PB-TABLE", f"{where} kind={kind}", sample={"emitted": show(got[0])[:240], "decided_by": sem_detail or "identical term"})
            else:
                ctx.violation("R-PB-TABLE", where, f"kind={kind}: cardinality over the scheduled flags",
                              f"expected {show(want)[:240]}, emitted {[show(g)[:240] for g in got]}" + (f" - {sem_detail}" if sem_detail else ""), location)
            if any(rejects_an_element(ev, T("list_of_optional_tasks"), "optional") for ev in run.events_of("raise")):
                ctx.ok("R-RAISE-OPTIONAL", f"{where} kind={kind} rejects a mandatory task in the list")
            else:
                ctx.violation("R-RAISE-OPTIONAL", where, "mandatory task in the list accepted",
                              f"{cname} does not reject a list element that is not optional", location)
    if seen != {"min", "max", "exact"}:
        raise P.AnalysisError(f"R-PB-TABLE: {cname}: kinds seen {seen}")


def r_flowtime_single_premise(ctx):
    """R-SCHED-GUARD exempts the task times of ObjectiveMinimizeFlowtimeSingleResource because 'every use is guarded by
    start >= lower_bound (>= 0) in the antecedent': that premise is decided here - every per-task implication of the constructor has
    `task._start >= <lower bound>` among the conjuncts of its antecedent (an unscheduled task sits at a negative point and so never
    fires it); otherwise the parked point of an unscheduled task pulls the minimum into the past"""
    cname = "ObjectiveMinimizeFlowtimeSingleResource"
    runs = runs_of(ctx, Entry("init", cls=cname, opaque=OPAQUE))
    fails_closed(ctx, "R-SCHED-GUARD", runs)
    where = f"{cname}.__init__"
    n = 0
    for run in runs:
        if run.rejected:
            continue
        for e in run.emissions:
            t = e.term
            if not (e.loops and is_app(t, "Implies") and len(t) == 4):
                continue
            task = ("elem", e.loops[-1])
            if not any(s_ in (A(task, "_start"), A(task, "_end")) for s_ in subterms(t[3])):
                continue
            n += 1
            ants = list(t[2][2:]) if is_app(t[2], "And") else [t[2]]
            ok = any(is_app(a, ">=") and len(a) == 4 and a[2] == A(task, "_start") for a in ants) or \
                any(is_app(a, "<=") and len(a) == 4 and a[3] == A(task, "_start") for a in ants)
            if ok:
                ctx.ok("R-SCHED-GUARD", f"{where}: per-task implication guarded by start >= lower bound", nontrivial=False)
            else:
                ctx.violation("R-SCHED-GUARD", where, f"per-task implication without `start >= lower bound`: {show(norm(t[3]))[:60]}",
                              f"on [{describe_config(run)[:80]}] {show(norm(t))[:260]} fires for an unscheduled optional task (parked at a "
                              f"negative point, end <= upper bound holds): the objective's min / max then include a task that is not "
                              f"scheduled", loc(e))
    ctx.floor("R-SCHED-GUARD", "per-task implications of ObjectiveMinimizeFlowtimeSingleResource", n, 2)


def r_work_amount_guard(ctx):
    """an unscheduled optional task has nothing to produce: the work-amount assertion of the solver is under the task's
    scheduled guard (the C02 rule R-WORK-AMOUNT decides the whole term, guard included)"""
    from rules import resources
    resources.r_work_amount(ctx)


RULES = [r_sched_guard, r_flowtime_single_premise, r_opt_rules, lambda ctx: task_rules.r_task_oblig(ctx, mode="implies", rule="R-SET-ASSERTIONS", obligations=False),
         r_work_amount_guard]
