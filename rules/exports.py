"""C16 - exports reproduce the data; C17 - the Gantt chart draws the reported assignments.

Only the arithmetic, the correspondence tables and the multiplicities inside the repository's own code are decided;
what pydantic / pandas / xlsxwriter / matplotlib / z3's printer do with correct arguments is library behaviour.
"""
from __future__ import annotations

import ast
import re

from sa import project as P
from sa.decide import canon, lin
from sa.interp import Entry
from sa.lib import *
from sa.terms import subterms

SELF = S("self")


# ---------------------------------------------------------------------------
# C16
# ---------------------------------------------------------------------------
DF_COLUMNS = {"Task name": None, "Allocated Resources": "assigned_resources", "Start": "start", "End": "end",
              "Duration": "duration", "Scheduled": "scheduled"}


def live_runs(ctx, entry, rule):
    runs = runs_of(ctx, entry)
    fails_closed(ctx, rule, runs)
    live = [r for r in runs if not r.rejected]
    if not live:
        raise P.AnalysisError(f"{rule}: no accepting path through {entry.label()}")
    return live


def r_df_columns(ctx):
    where = "SchedulingSolution.to_df"
    for run in live_runs(ctx, Entry("method", cls="SchedulingSolution", name="to_df"), "R-DF-COLUMNS"):
        calls = [ev for ev in run.events_of("call") if "DataFrame" in ev.data["name"]]
        if len(calls) != 1 or not calls[0].data["args"] or calls[0].data["args"][0][0] != "dict":
            ctx.violation("R-DF-COLUMNS", where, "one DataFrame built from a dict of columns", f"{len(calls)} DataFrame call(s)",
                          "processscheduler/solution.py")
            continue
        # what to_df returns is that data frame itself (a filtered or re-indexed frame drops or renumbers rows)
        made = ("call", calls[0].data["name"], calls[0].data["args"], calls[0].data["kwargs"])
        if not (isinstance(run.retval, tuple) and norm(run.retval) == norm(made)):
            ctx.violation("R-DF-COLUMNS", where, "returns the data frame it builds",
                          f"returns {show(run.retval)[:160] if isinstance(run.retval, tuple) else run.retval}, not the DataFrame built from "
                          f"the columns", "processscheduler/solution.py")
        cols = {}
        for ent in calls[0].data["args"][0][1]:
            if ent[0] == "tuple" and is_const(ent[1][0]):
                cols[ent[1][0][1]] = ent[1][1]
        for label, attr in DF_COLUMNS.items():
            col = cols.get(label)
            shape = col is not None and col[0] == "list" and len(col[1]) == 1 and col[1][0][0] == "each" and len(col[1][0][1]) == 1 \
                and not col[1][0][2]
            ok = False
            if attr is None and col is not None and norm_iter(norm(col)) == S("self.tasks") and col[0] == "call":
                ok = True       # list(self.tasks) / list(self.tasks.keys()): the keys of the task dict, one row per task
            elif shape and norm(col[1][0][1][0][3]) == S("self.tasks"):
                # one row per key of the task dict
                e = ("elem", col[1][0][1][0])
                want = e if attr is None else A(("idx", S("self.tasks"), e), attr)
                ok = col[1][0][3] == want
            elif shape and norm(col[1][0][1][0][3]) == norm(("mcall", S("self.tasks"), "values", (), ())):
                # one row per value of the task dict (its key is the task solution's name: add_task_solution)
                e = ("elem", col[1][0][1][0])
                ok = col[1][0][3] == A(e, "name" if attr is None else attr)
            if ok:
                ctx.ok("R-DF-COLUMNS", f"column {label!r} <- {'task name' if attr is None else attr}, one row per task", nontrivial=True)
            else:
                ctx.violation("R-DF-COLUMNS", where, f"column {label!r}",
                              f"column {label!r} is fed from {show(col)[:200] if col else None} instead of the "
                              f"{'task name' if attr is None else attr} of every task", "processscheduler/solution.py")
    where = "SchedulingSolution.to_csv"
    for run in live_runs(ctx, Entry("method", cls="SchedulingSolution", name="to_csv", opaque=("to_df",)), "R-DF-COLUMNS"):
        cs = [ev for ev in run.events_of("mcall") if ev.data["name"] == "to_csv"]
        ok = bool(cs) and all(ev.data["recv"] == ("mcall", SELF, "to_df", (), ()) for ev in cs)
        if ok:
            ctx.ok("R-DF-COLUMNS", f"{where}: writes exactly to_df()", nontrivial=False)
        else:
            ctx.violation("R-DF-COLUMNS", where, "csv = to_df().to_csv(...)", f"to_csv is called on {[show(e.data['recv'])[:80] for e in cs]}",
                          "processscheduler/solution.py")


def _sheet(ev):
    r = ev.data["recv"]
    for s in subterms(r):
        if s and s[0] == "mcall" and s[2] == "add_worksheet" and s[3] and is_const(s[3][0]):
            return s[3][0][1]
    return None


def r_excel_coord(ctx):
    where = "excel_io.export_solution_to_excel_file"
    LOCX = "processscheduler/excel_io.py"
    for run in live_runs(ctx, Entry("func", module="excel_io", name="export_solution_to_excel_file", nonstatic=("colors",)), "R-EXCEL-COORD"):
        sheets = {}
        for ev in run.events_of("mcall"):
            if ev.data["name"] in ("write", "merge_range"):
                sheets.setdefault(_sheet(ev), []).append(ev)
        names = [n for n in sheets if n]
        res = [n for n in names if "Resource" in n]
        tsk = [n for n in names if "Task" in n]
        ind = [n for n in names if "Indicator" in n]
        if not (res and tsk and ind):
            raise P.AnalysisError(f"R-EXCEL-COORD: worksheets found {names}")

        def check_items(sheet, iter_term, item_loops, start, end, text, extra_guard, what):
            evs = [e for e in sheets[sheet] if e.loops]
            pos = None
            rows = [e for e in evs if len(e.loops) == 1 and e.data["name"] == "write" and len(e.data["args"]) >= 3 and e.data["args"][1] == K(0)]
            ok_row = len(rows) == 1 and norm(rows[0].loops[0][3]) == norm(("call", "enumerate", (iter_term,), ()))
            if not ok_row:
                ctx.violation("R-EXCEL-COORD", where, f"{what}: one row per element, name in column 0",
                              f"row header writes: {[[show(a)[:60] for a in e.data['args'][:3]] for e in rows]}", LOCX)
                return
            L = rows[0].loops[0]
            pos = ("pos", L)
            key = ("idx", ("elem", L), K(1))
            row = add(pos, K(1))
            if canon(rows[0].data["args"][0]) != canon(row) or rows[0].data["args"][2] != key:
                ctx.violation("R-EXCEL-COORD", where, f"{what}: row = index + 1, column 0 = name",
                              f"writes ({show(rows[0].data['args'][0])}, 0, {show(rows[0].data['args'][2])})", LOCX)
                return
            s_, e_, txt, loops_extra = start(L, key), end(L, key), text(L, key), item_loops(L, key)
            merges = [e for e in evs if e.data["name"] == "merge_range"]
            writes = [e for e in evs if e.data["name"] == "write" and e not in rows]
            long_g = norm(gt(sub(e_, s_), K(1)))

            def guards_ok(ev, want_long):
                gs = [norm(g) for g in ev.guards]
                need = [long_g if want_long else norm(app("not", gt(sub(e_, s_), K(1))))] + [norm(g) for g in extra_guard(L, key)]
                rest = [g for g in gs if g not in need and canon(g) not in [canon(n) for n in need]]
                return all(any(canon(n) == canon(g) for g in gs) for n in need) and not rest
            ok = len(merges) == 1 and len(writes) == 1
            if ok:
                m, w = merges[0], writes[0]
                lp = tuple(loops_extra)
                ok = tuple(_l[3] for _l in m.loops[1:]) == tuple(_l[3] for _l in lp) and m.loops[0] == L and w.loops[0] == L
                # rename the item loop of the events onto the spec's
                mp = {}
                for a, b in zip(m.loops[1:], lp):
                    mp[a] = b
                ma = [substitute(x, mp) for x in m.data["args"]]
                mp2 = {}
                for a, b in zip(w.loops[1:], lp):
                    mp2[a] = b
                wa = [substitute(x, mp2) for x in w.data["args"]]
                m2 = type("E", (), {"guards": [substitute(g, mp) for g in m.guards]})
                w2 = type("E", (), {"guards": [substitute(g, mp2) for g in w.guards]})
                ok = ok and len(ma) >= 5 and canon(ma[0]) == canon(row) and canon(ma[2]) == canon(row) \
                    and canon(ma[1]) == canon(add(s_, K(1))) and canon(ma[3]) == canon(e_) and canon(ma[4]) == canon(txt) \
                    and len(wa) >= 3 and canon(wa[0]) == canon(row) and canon(wa[1]) == canon(add(s_, K(1))) and canon(wa[2]) == canon(txt) \
                    and guards_ok(m2, True) and guards_ok(w2, False)
            if ok:
                ctx.ok("R-EXCEL-COORD", f"{what}: row index+1, columns start+1 .. end, merged iff end - start > 1",
                       sample={"merge_range": [show(a)[:60] for a in merges[0].data["args"][:5]]})
            else:
                ctx.violation("R-EXCEL-COORD", where, f"{what}: item placed at row index+1, columns start+1..end",
                              f"merge_range {[[show(a)[:50] for a in e.data['args'][:5]] + [show(g)[:50] for g in e.guards] for e in merges]} ; "
                              f"write {[[show(a)[:50] for a in e.data['args'][:3]] + [show(g)[:50] for g in e.guards] for e in writes]}", LOCX)

        sol = S("solution")
        # resource view
        def r_loops(L, key):
            return (loop("x", A(("idx", A(sol, "resources"), key), "assignments")),)
        it = lambda L, key: ("elem", r_loops(L, key)[0])
        check_items(res[0], A(sol, "resources"), r_loops, lambda L, k: idx(it(L, k), 1), lambda L, k: idx(it(L, k), 2),
                    lambda L, k: idx(it(L, k), 0), lambda L, k: [], "resource view")
        # task view
        tk = lambda L, key: ("idx", A(sol, "tasks"), key)
        check_items(tsk[0], A(sol, "tasks"), lambda L, k: (), lambda L, k: A(tk(L, k), "start"), lambda L, k: A(tk(L, k), "end"),
                    lambda L, k: ("mcall", K(","), "join", (A(tk(L, k), "assigned_resources"),), ()),
                    lambda L, k: [app("not", app("not", A(tk(L, k), "scheduled")))], "task view (scheduled tasks only)")
        # indicators
        evs = [e for e in sheets[ind[0]] if e.loops]
        ok = len(evs) == 2 and all(len(e.loops) == 1 and norm(e.loops[0][3]) == norm(("call", "enumerate", (A(sol, "indicators"),), ())) and not e.guards for e in evs)
        if ok:
            by_col = {e.data["args"][1]: e for e in evs}
            L = evs[0].loops[0]
            key = ("idx", ("elem", L), K(1))
            row = add(("pos", L), K(1))
            e0, e1 = by_col.get(K(0)), by_col.get(K(1))
            ok = e0 is not None and e1 is not None and e0.loops[0] == e1.loops[0] == L and canon(e0.data["args"][0]) == canon(row) \
                and canon(e1.data["args"][0]) == canon(row) and e0.data["args"][2] == key and e1.data["args"][2] == ("idx", A(sol, "indicators"), key)
        if ok:
            ctx.ok("R-EXCEL-COORD", "indicators sheet: (name, value) in columns 0 / 1, one row per indicator")
        else:
            ctx.violation("R-EXCEL-COORD", where, "indicators sheet: one row per indicator, name | value",
                          f"writes {[[show(a)[:50] for a in e.data['args'][:3]] for e in evs]}", LOCX)


def r_smt_same_handle(ctx):
    where = "SchedulingSolver.export_to_smt2"
    LOC = "processscheduler/solver.py"
    runs = live_runs(ctx, Entry("method", cls="SchedulingSolver", name="export_to_smt2",
                                opaque=("initialize", "sort_no_duplicates", "sort_duplicates")), "R-SMT-SAME-HANDLE")
    try:
        import z3  # library surface only: which methods the handle classes declare
        surface = {"Optimize": set(dir(z3.Optimize)), "Solver": set(dir(z3.Solver))}
    except Exception:
        surface = None
        ctx.note("R-SMT-SAME-HANDLE: z3 not importable here; the library-surface clause was skipped")
    for run in runs:
        writes = [ev for ev in run.events_of("mcall") if ev.data["name"] == "write"]
        ser = [ev for ev in run.events_of("mcall") if ev.data["recv"] == A(SELF, "_solver") and ev.data["name"] not in SOLVER_ASSERT]
        other = [ev for ev in run.events_of("mcall") if is_solver_handle(ev.data["recv"]) and ev.data["recv"] != A(SELF, "_solver")
                 and ev.data["name"] in ("to_smt2", "sexpr")]
        for ev in other:
            ctx.violation("R-SMT-SAME-HANDLE", where, "serialises another solver object",
                          f"`{show(ev.data['recv'])[:60]}.{ev.data['name']}()` is written instead of the handle check() is called on",
                          f"{LOC}:{ev.site.lineno}")
        # the export only reads the handle: check() on a z3.Optimize in Pareto mode moves to the next point of the front, model()
        # / push() / pop() / reset() change what the next answering call sees
        for ev in [e_ for e_ in run.events_of("mcall") if is_solver_handle(e_.data["recv"]) and e_.data["name"] not in ("to_smt2", "sexpr")
                   and e_.site.func.endswith("export_to_smt2")]:
            ctx.violation("R-SMT-SAME-HANDLE", where, f"the export calls {ev.data['name']}() on the solver handle",
                          f"`{show(ev.data['recv'])[:40]}.{ev.data['name']}()` in export_to_smt2: exporting must leave the solver as it "
                          f"found it (a check() consumes a point of a Pareto front, and is a solve the user did not ask for)",
                          f"{LOC}:{ev.site.lineno}")
        ser = [e_ for e_ in ser if e_.data["name"] in ("to_smt2", "sexpr")]
        if not ser:
            ctx.violation("R-SMT-SAME-HANDLE", where, "serialises the solver handle that check() is called on",
                          "no serialisation method is called on self._solver", LOC)
            continue
        for ev in ser:
            opt_guard = [g for g in ev.guards if "isinstance" in show(g) and "Optimize" in show(g)]
            negated = any(is_app(g, "not") for g in opt_guard)
            classes = ["Optimize"] if (opt_guard and not negated) else ["Solver"] if opt_guard else ["Optimize", "Solver"]
            if surface is not None:
                missing = [c for c in classes if ev.data["name"] not in surface[c]]
                if missing:
                    ctx.violation("R-ATTR", where, f"{ev.data['name']}() on a z3.{missing[0]} handle",
                                  f"`{ev.data['name']}` is not a method of z3.{missing[0]}, which self._solver can hold on this path: "
                                  f"AttributeError when exporting a problem {'with an objective and optimizer=optimize' if missing[0] == 'Optimize' else ''}",
                                  f"{LOC}:{ev.site.lineno}")
                else:
                    ctx.ok("R-ATTR", f"{where}: {ev.data['name']}() exists on {classes}")
            # the text written IS the serialisation, not something computed from it (a filtered or truncated text is another system)
            def leaves(t):
                if isinstance(t, tuple) and t and t[0] == "phi" and len(t) == 4:
                    if "self.debug" in show(t[1]):
                        return leaves(t[3])      # the tracked (debug) configuration is R-SMT-TRACKED's matter: the plain one is decided here
                    return leaves(t[2]) + leaves(t[3])
                return [norm(t)]

            def is_ser(t):
                return isinstance(t, tuple) and len(t) == 5 and t[0] == "mcall" and t[1] == A(SELF, "_solver") and t[2] in ("to_smt2", "sexpr") \
                    and not t[3] and not t[4]
            if any("self.debug" in k_ and v_ is True for k_, v_ in run.decisions):
                continue             # the tracked (debug) configuration is R-SMT-TRACKED's matter
            this = norm(("mcall", ev.data["recv"], ev.data["name"], ev.data["args"], ev.data["kwargs"]))
            # (a conditional between the serialisations of the same handle - one per class it can hold - is still the serialisation)
            used = any(this in leaves(w.data["args"][0]) and all(is_ser(x) for x in leaves(w.data["args"][0]))
                       for w in writes if w.data["args"])
            if used:
                ctx.ok("R-SMT-SAME-HANDLE", f"{where} [{describe_config(run)[:60]}]: the text written is the serialisation of self._solver")
            else:
                ctx.violation("R-SMT-SAME-HANDLE", where, "the serialisation of self._solver is what is written",
                              f"written: {[show(w.data['args'][0])[:100] for w in writes if w.data['args']]}", LOC)
    # initialise first when needed
    from rules import driver
    fn = ctx.project.method("SchedulingSolver", "export_to_smt2")[1]
    if any(isinstance(n, ast.Call) and ast.unparse(n.func) == "self.initialize" for n in ast.walk(fn)):
        ctx.ok("R-SMT-SAME-HANDLE", "export_to_smt2 initialises the solver when needed (guard checked by C13's R-INIT-ONCE)", nontrivial=False)
    else:
        ctx.violation("R-SMT-SAME-HANDLE", where, "initialises before exporting", "export of an uninitialised solver writes an empty system", LOC)


def r_json_fields(ctx):
    proj = ctx.project
    # to_json excludes only `problem`
    fn = proj.method("BaseModelWithJson", "to_json")[1]
    calls = [n for n in ast.walk(fn) if isinstance(n, ast.Call) and ast.unparse(n.func) == "self.model_dump_json"]
    ok = len(calls) == 1
    if ok:
        kw = {k.arg: k.value for k in calls[0].keywords}
        ex = kw.get("exclude")
        ok = ex is None or (isinstance(ex, ast.Constant) and ex.value == "problem") or \
            (isinstance(ex, (ast.Set, ast.List, ast.Tuple)) and [ast.unparse(e) for e in ex.elts] == ["'problem'"])
        ok = ok and "include" not in kw
        # any other filter of the dump (exclude_defaults / exclude_unset / exclude_none, by_alias, round_trip ...) drops or
        # renames reported values: only the layout (`indent`) and the exclusion of `problem` are allowed
        dropping = [k for k in kw if k not in ("indent", "exclude")]
        if dropping:
            ok = False
    # ... and what to_json returns / to_json_file writes is that dump itself
    for run in runs_of(ctx, Entry("method", cls="BaseModelWithJson", name="to_json")):
        rv = run.retval
        if not (isinstance(rv, tuple) and rv[0] == "mcall" and rv[1] == SELF and rv[2] == "model_dump_json"):
            ok = False
            ctx.violation("R-JSON-FIELDS", "BaseModelWithJson.to_json", "returns the dump itself",
                          f"returns {show(rv)[:160] if isinstance(rv, tuple) else rv}: the document is computed from the dump, not the dump",
                          "processscheduler/base.py")
    for run in runs_of(ctx, Entry("method", cls="BaseModelWithJson", name="to_json_file", opaque=("to_json",))):
        ws = [ev for ev in run.events_of("mcall") if ev.data["name"] == "write"]
        good = len(ws) == 1 and ws[0].data["args"] and isinstance(ws[0].data["args"][0], tuple) and ws[0].data["args"][0][0] == "mcall" \
            and ws[0].data["args"][0][1] == SELF and ws[0].data["args"][0][2] == "to_json"
        if good:
            ctx.ok("R-JSON-FIELDS", "to_json_file writes exactly to_json()")
        else:
            ok = False
            ctx.violation("R-JSON-FIELDS", "BaseModelWithJson.to_json_file", "writes exactly to_json()",
                          f"writes {[show(w.data['args'][0])[:120] for w in ws if w.data['args']]}", "processscheduler/base.py")
    if ok:
        ctx.ok("R-JSON-FIELDS", "to_json dumps every field except `problem`")
    else:
        ctx.violation("R-JSON-FIELDS", "BaseModelWithJson.to_json", "only `problem` excluded from the dump",
                      f"model_dump_json is called as {[ast.unparse(c)[:120] for c in calls]}", "processscheduler/base.py")
    # the solution models declare no excluded field and no custom serializer
    n = 0
    for cname in ("TaskSolution", "ResourceSolution", "BufferSolution", "SchedulingSolution"):
        c = proj.cls(cname)
        n += 1
        bad = []
        for st in c.node.body:
            if isinstance(st, ast.AnnAssign) and isinstance(st.value, ast.Call):
                for k in st.value.keywords:
                    if k.arg in ("exclude", "repr") and not (isinstance(k.value, ast.Constant) and k.value.value in (False, None)):
                        bad.append(f"{st.target.id}: {k.arg}")
            if isinstance(st, ast.FunctionDef) and any("model_serializer" in ast.unparse(d) or "field_serializer" in ast.unparse(d) for d in st.decorator_list):
                bad.append(f"custom serializer {st.name}")
        if bad:
            ctx.violation("R-JSON-FIELDS", cname, "every reported field is dumped", f"{cname}: {bad}", first_line(proj, cname))
        else:
            ctx.ok("R-JSON-FIELDS", f"{cname}: no excluded field, no custom serializer")
    # 'task and cost function definitions survive a JSON round trip', writer side: what is dumped for them is pydantic's own
    # dump of the declared fields - no custom serializer anywhere in their MRO (a key it adds is refused on re-import by
    # extra='forbid', a key it drops takes its default), no excluded field
    m_rt = 0
    for base in ("Task", "Function"):
        for c in proj.subclasses(base, strict=False):
            m_rt += 1
            bad = []
            for k in c.mro:
                for st in k.node.body:
                    if isinstance(st, ast.FunctionDef) and any(
                            any(w in ast.unparse(d) for w in ("model_serializer", "field_serializer", "computed_field")) for d in st.decorator_list):
                        bad.append(f"{k.name}.{st.name} (@{ast.unparse(st.decorator_list[0])[:40]})")
                    if isinstance(st, ast.FunctionDef) and st.name in ("model_dump", "model_dump_json", "dict", "json"):
                        bad.append(f"{k.name}.{st.name} overridden")
                    if isinstance(st, ast.AnnAssign) and isinstance(st.value, ast.Call):
                        for kw_ in st.value.keywords:
                            if kw_.arg == "exclude" and not (isinstance(kw_.value, ast.Constant) and kw_.value.value in (False, None)):
                                bad.append(f"{k.name}.{ast.unparse(st.target)}: excluded from the dump")
            if bad:
                ctx.violation("R-JSON-FIELDS", c.name, "the dump of a task / cost function is the dump of its declared fields",
                              f"{c.name}: {sorted(set(bad))}: the exported document is no longer the declared fields, so it does not "
                              f"validate back (extra='forbid') or comes back with defaults", first_line(proj, c.name))
            else:
                ctx.ok("R-JSON-FIELDS", f"{c.name}: default dump of the declared fields (no serializer, no excluded field in its MRO)")
    ctx.floor("R-JSON-FIELDS", "task / cost function classes", m_rt, 8)
    # the object type registry maps each key to the class of that name and covers every task class
    m = proj.module("problem")
    reg = m.globals_assigned.get("_object_types")
    if not isinstance(reg, ast.Dict):
        raise P.AnalysisError("R-JSON-FIELDS: _object_types registry not found")
    pairs = {k.value: ast.unparse(v) for k, v in zip(reg.keys, reg.values) if isinstance(k, ast.Constant)}
    bad = {k: v for k, v in pairs.items() if k != v}
    missing = [c.name for c in proj.subclasses("Task") if c.name not in pairs]
    if bad or missing:
        ctx.violation("R-JSON-FIELDS", "problem._object_types", "type registry",
                      f"mismatched entries {bad}, task classes without entry {missing}", "processscheduler/problem.py")
    else:
        ctx.ok("R-JSON-FIELDS", f"_object_types maps {len(pairs)} names to the classes of those names, all task classes included")
    writers = [n_ for mm in proj.modules.values() for n_ in ast.walk(mm.tree)
               if isinstance(n_, ast.Subscript) and isinstance(n_.ctx, ast.Store) and ast.unparse(n_.value) == "_object_types"]
    if writers:
        ctx.violation("R-NO-MODULE-STATE", "problem._object_types", "registry written at run time", "", "processscheduler/problem.py")


def r_smt_stack_is_the_problem(ctx):
    """the SMT-LIB text is the solver handle's current assertion stack (R-SMT-SAME-HANDLE): it denotes the problem only if no
    earlier solve left anything on that stack - every scope pushed is popped on every exit (R-PUSH-POP) and answering
    methods assert only inside pushed scopes (R-SCOPED-ASSERT); both rules are shared with C13"""
    from rules import driver
    driver.r_push_pop(ctx)
    driver.r_scoped_assert(ctx)


def r_json_read(ctx):
    """'task and cost function definitions survive a JSON round trip', reader side: add_from_json hands the whole document,
    unchanged, to the validator of the class its "type" entry names - no entry is dropped, defaulted or rewritten on the way"""
    where = "SchedulingProblem.add_from_json"
    fn = ctx.project.method("SchedulingProblem", "add_from_json")[1]
    doc = S(fn.args.args[1].arg)
    parsed = [("call", "json.loads", (doc,), ())]
    runs = runs_of(ctx, Entry("method", cls="SchedulingProblem", name="add_from_json"))
    fails_closed(ctx, "R-JSON-READ", runs)
    n = 0
    for r in runs:
        if r.rejected:
            continue
        n += 1
        rv = r.retval
        ok = isinstance(rv, tuple) and rv[0] == "mcall" and len(rv[3]) == 1 and not rv[4]
        if ok:
            recv, meth, arg = rv[1], rv[2], rv[3][0]
            keys = [("idx", p_, K("type")) for p_ in parsed]
            ok_cls = recv[0] == "idx" and recv[2] in keys
            if not ok_cls and recv[0] == "phi":
                # the table read through .get(): a chain `Cls if key == "Cls" else ...` ending in None (R-JSON-FIELDS decides
                # that every name of the table maps to the class of that name)
                c_, ok_cls = recv, True
                while isinstance(c_, tuple) and c_ and c_[0] == "phi":
                    g_ = c_[1]
                    ok_cls = ok_cls and is_app(g_, "==") and len(g_) == 4 and g_[2] in keys and is_const(g_[3]) \
                        and c_[2] == ("class", g_[3][1])
                    c_ = c_[3]
                ok_cls = ok_cls and c_ == NONE
            ok_arg = (meth == "model_validate_json" and arg == doc) or (meth == "model_validate" and arg in parsed)
            ok = ok_cls and ok_arg
        if ok:
            ctx.ok("R-JSON-READ", f"{where}: the whole document goes to `{meth}` of the class named by its \"type\" entry")
        else:
            ctx.violation("R-JSON-READ", where, "the document is validated whole and unchanged",
                          (f"returns <class>.{rv[2]}({', '.join(show(a)[:200] for a in rv[3])})" if isinstance(rv, tuple) and rv[0] == "mcall" else f"returns {rv}") + (f": what reaches the validator is not the document "
                          f"that was exported (entries dropped or rewritten take their default on re-import)"),
                          f"processscheduler/problem.py:{fn.lineno}")
    ctx.floor("R-JSON-READ", "accepting paths of add_from_json", n, 1)


C16_RULES = [r_df_columns, r_excel_coord, r_smt_same_handle, r_json_fields, r_smt_stack_is_the_problem, r_json_read]


# ---------------------------------------------------------------------------
# C17
# ---------------------------------------------------------------------------
GANTT = Entry("func", module="plotter", name="render_gantt_matplotlib",
              nonstatic=("show_plot", "show_indicators", "fig_filename", "fig_size"), param_types={"solution": ("cls", "SchedulingSolution")})
LOCP = "processscheduler/plotter.py"


def mode_of(run):
    dec = dict(run.decisions)
    if dec.get("bool(solution.resources)") is False:
        return "Task"
    if dec.get("render_mode == 'Task'") is True:
        return "Task"
    if dec.get("render_mode == 'Resource'") is True:
        return "Resource"
    return None


def r_gantt(ctx):
    where = "plotter.render_gantt_matplotlib"
    sol = S("solution")
    seen = set()
    for run in live_runs(ctx, GANTT, "R-GANTT"):
        mode = mode_of(run)
        if mode is None:
            continue
        bars = [ev for ev in run.events_of("mcall") if ev.data["name"] == "broken_barh"]
        texts = [ev for ev in run.events_of("mcall") if ev.data["name"] == "text"]
        labels = [ev for ev in run.events_of("mcall") if ev.data["name"] == "set_yticklabels"]
        cfgs = describe_config(run)[:80]
        if len(bars) != 1 or len(texts) != 1 or len(labels) != 1:
            ctx.violation("R-GANTT-MULT", where, f"{mode} mode: one draw call site inside the loops",
                          f"on [{cfgs}] {len(bars)} broken_barh site(s), {len(texts)} text site(s)", LOCP)
            continue
        bar, txt = bars[0], texts[0]
        seen.add(mode)
        if mode == "Task":
            sched = None
            want_loops = 1
        else:
            want_loops = 2
        if len(bar.loops) != want_loops or bar.guards or bar.loops != txt.loops:
            ctx.violation("R-GANTT-MULT", where, f"{mode} mode: one bar per item, unconditionally",
                          f"on [{cfgs}] the bar is drawn inside {len(bar.loops)} loop(s) under {[show(g)[:60] for g in bar.guards]}", LOCP)
            continue
        L0 = bar.loops[0]
        it0 = L0[3]
        if not (it0[0] == "call" and it0[1] == "enumerate"):
            ctx.violation("R-GANTT-ROW", where, f"{mode} mode: rows enumerated", f"outer loop over {show(it0)[:100]}", LOCP)
            continue
        rows_src = it0[2][0]
        key = ("idx", ("elem", L0), K(1))
        pos = ("pos", L0)
        # rows may be enumerated through the dict itself (keys) or through its values: same order, same rows
        by_value = isinstance(rows_src, tuple) and rows_src and rows_src[0] == "mcall" and rows_src[2] == "values" and not rows_src[3]
        if by_value:
            rows_src = rows_src[1]
        if mode == "Task":
            # rows = the scheduled tasks only
            is_sched = rows_src[0] == "dict" and len(rows_src[1]) == 1 and rows_src[1][0][0] == "each" \
                and norm(rows_src[1][0][1][0][3]) == A(sol, "tasks") \
                and [norm(g) for g in rows_src[1][0][2]] == [norm(A(("idx", A(sol, "tasks"), ("elem", rows_src[1][0][1][0])), "scheduled"))]
            if is_sched:
                ctx.ok("R-GANTT-MULT", f"Task mode [{cfgs}]: one bar per scheduled task, none for the others")
            else:
                ctx.violation("R-GANTT-MULT", where, "Task mode: bars for scheduled tasks only",
                              f"rows come from {show(rows_src)[:200]}", LOCP)
            ts = ("idx", A(sol, "tasks"), key)
            start, length = A(ts, "start"), A(ts, "duration")
        else:
            res_of_row = key if by_value else ("idx", A(sol, "resources"), key)
            ok = norm(rows_src) == A(sol, "resources") and norm(bar.loops[1][3]) == norm(A(res_of_row, "assignments"))
            if ok:
                ctx.ok("R-GANTT-MULT", f"Resource mode [{cfgs}]: one bar per assignment of every resource")
            else:
                ctx.violation("R-GANTT-MULT", where, "Resource mode: one bar per reported assignment",
                              f"loops over {show(rows_src)[:80]} / {show(bar.loops[1][3])[:120]}", LOCP)
            a = ("elem", bar.loops[1])
            start, length = idx(a, 1), sub(idx(a, 2), idx(a, 1))
        # extent
        dims = bar.data["args"][0] if bar.data["args"] else None
        ok = dims is not None and dims[0] == "list" and len(dims[1]) == 1
        if ok:
            d = dims[1][0]
            ok = d[0] == "phi" and canon(d[1]) == canon(eq(length, K(0))) and d[3][0] == "tuple" and canon(d[3][1][0]) == canon(start) \
                and canon(d[3][1][1]) == canon(length) and d[2][0] == "tuple"
            if ok:
                x0, w = d[2][1]
                ok = is_const(w) and isinstance(w[1], (int, float)) and w[1] > 0 and lin(x0) == lin(sub(start, K(w[1] / 2)))
        if ok:
            ctx.ok("R-GANTT-EXTENT", f"{mode} mode [{cfgs}]: bar spans (start, length); zero length -> centred marker",
                   sample={"bar": show(dims)[:200]})
        else:
            ctx.violation("R-GANTT-EXTENT", where, f"{mode} mode: bar extent (start, end - start), centred marker for zero length",
                          f"on [{cfgs}] x-extent {show(dims)[:260] if dims else None}", LOCP)
        row = bar.data["args"][1] if len(bar.data["args"]) > 1 else None
        kw = dict(txt.data["kwargs"])
        ok = row is not None and row[0] == "tuple" and canon(row[1][0]) == canon(mul(pos, K(2))) and row[1][1] == K(2) \
            and canon(kw.get("y", K(None))) == canon(add(mul(pos, K(2)), K(1))) \
            and lin(kw.get("x", K(0))) == lin(add(start, app("/", length, K(2))))
        lab = labels[0].data["args"][0] if labels[0].data["args"] else None
        same_rows = lab is not None and (canon(lab) == canon(("call", "list", (("mcall", rows_src, "keys", (), ()),), ()))
                                         or canon(lab) == canon(("call", "list", (rows_src,), ())))
        if ok and same_rows:
            ctx.ok("R-GANTT-ROW", f"{mode} mode [{cfgs}]: row (2i, 2), label at 2i+1, tick labels = keys of the same dict")
        else:
            ctx.violation("R-GANTT-ROW", where, f"{mode} mode: bar on the row of its element, label centred",
                          f"on [{cfgs}] row {show(row)[:80] if row else None}, text at x={show(kw.get('x', K(None)))[:80]} "
                          f"y={show(kw.get('y', K(None)))[:60]}, tick labels {show(lab)[:100] if lab else None} (same dict: {same_rows})", LOCP)
    if seen != {"Task", "Resource"}:
        raise P.AnalysisError(f"R-GANTT: render modes reached: {seen}")


def r_gantt_buffer(ctx):
    """buffer step plot: segment k spans all_x[k] .. all_x[k+1] at level[k], all_x = [0] + change times + [horizon]"""
    where = "plotter.render_gantt_matplotlib"
    sol = S("solution")
    n = 0
    for run in live_runs(ctx, GANTT, "R-GANTT-BUFFER"):
        if dict(run.decisions).get("bool(solution.buffers)") is not True:
            continue
        plots = [ev for ev in run.events if ev.kind in ("call", "mcall") and str(ev.data["name"]).endswith("plot") and ev.loops
                 and "buffers" in show(ev.loops[0][3]) and len(ev.data["args"]) >= 2]
        n += 1
        if len(plots) != 1:
            ctx.violation("R-GANTT-BUFFER", where, "one step plot per buffer", f"{len(plots)} plot call(s) inside the buffer loop", LOCP)
            continue
        ev = plots[0]
        b = ("elem", ev.loops[0])
        X, Y = ev.data["args"][0], ev.data["args"][1]
        ok = X[0] == "list" and Y[0] == "list" and len(X[1]) == 3 and len(Y[1]) == 3 and all(i[0] == "each" and len(i[1]) == 1 and not i[2] for i in X[1] + Y[1])
        why = "X / Y are not built from three items per level"
        if ok:
            L = X[1][0][1][0]
            enum = norm(L[3]) == norm(("call", "enumerate", (A(b, "level"),), ()))
            ok = all(i[1][0] == L for i in X[1] + Y[1]) and (norm(L[3]) == norm(A(b, "level")) or enum)
            why = "the segments do not range over buffer.level"
        if ok:
            y = ("idx", ("elem", L), K(1)) if enum else ("elem", L)
            x0, x1 = X[1][0][3], X[1][1][3]
            ok = Y[1][0][3] == y and Y[1][1][3] == y and x0[0] == "idx" and x1[0] == "idx" and x0[1] == x1[1]
            why = "a segment is not (x[k], x[k+1]) at level[k]"
        if ok:
            k0, k1, allx = x0[2], x1[2], x0[1]
            is_counter = k0[0] == "carried" and k0[3] == K(0) and lin(k1) == lin(add(k0, K(1)))
            if is_counter:
                # the counter advances by one per level
                after = [v for kk, v in run.env.items() if kk == k0[1]]
                is_counter = any(isinstance(v, tuple) and v[0] == "loopout" and lin(v[4]) == lin(add(k0, K(1))) for v in after) or \
                    any(s_ and s_[0] == "loopout" and s_[1] == k0[1] for v in run.env.values() if isinstance(v, tuple) for s_ in subterms(v))
            is_pos = k0 == ("pos", L) and lin(k1) == lin(add(k0, K(1)))
            ok = is_counter or is_pos
            why = "the segment index does not advance by one per level from 0"
        if ok:
            want = ("list", (K(0), None, A(sol, "horizon")))
            items = allx[1] if allx[0] == "list" else ()
            ok = len(items) == 3 and items[0] == K(0) and items[2] == A(sol, "horizon") and items[1][0] == "each" \
                and norm(items[1][1][0][3]) == norm(A(b, "level_change_times")) and items[1][3] == ("elem", items[1][1][0])
            why = "x is not [0] + level_change_times + [horizon]"
        if ok:
            ctx.ok("R-GANTT-BUFFER", f"[{describe_config(run)[:60]}] step plot: x = [0] + change times + [horizon], segment k at level[k]")
        else:
            ctx.violation("R-GANTT-BUFFER", where, "buffer levels plotted as the reported step function",
                          f"{why}: X = {show(X)[:200]}, Y = {show(Y)[:120]}", LOCP)
    ctx.floor("R-GANTT-BUFFER", "configurations with buffers", n, 4)


def r_bar_is_start_to_end(ctx):
    """task view draws (start, duration): the bar ends at the reported end only if duration == end - start in the solution
    object - how build_solution extracts start / end / duration is decided by R-EXTRACT (shared with C11)"""
    from rules import solution
    solution.r_extract(ctx)


def r_presence_test(ctx):
    """'rendering succeeds for every valid solution': the renderers reject their argument with `if not solution: raise`.
    That is a presence test (solve() hands back False when there is no schedule) only as long as a solution object is always
    true: no class the parameter can hold defines __bool__ or __len__ (python's truth protocol), else a valid solution for
    which that method gives False / 0 is refused"""
    proj = ctx.project
    n = 0
    for m in proj.modules.values():
        for fn in [x for x in ast.walk(m.tree) if isinstance(x, ast.FunctionDef)]:
            typed = {}
            for a in fn.args.args + fn.args.kwonlyargs:
                if a.annotation is None:
                    continue
                for cname in P.type_classes(P.parse_type(a.annotation)):
                    if cname in proj.classes:
                        typed.setdefault(a.arg, []).append(cname)
            if not typed:
                continue
            for node in ast.walk(fn):
                tests = []
                if isinstance(node, (ast.If, ast.While, ast.IfExp, ast.Assert)):
                    tests.append(node.test)
                for t in tests:
                    parts = [t]
                    while parts:
                        q = parts.pop()
                        if isinstance(q, ast.UnaryOp) and isinstance(q.op, ast.Not):
                            parts.append(q.operand)
                        elif isinstance(q, ast.BoolOp):
                            parts.extend(q.values)
                        elif isinstance(q, ast.Name) and q.id in typed:
                            n += 1
                            bad = []
                            for cname in typed[q.id]:
                                for k in [proj.cls(cname)] + proj.subclasses(cname):
                                    for dunder in ("__bool__", "__len__"):
                                        owner, _fn = k.find_method(dunder)
                                        if owner is not None:
                                            bad.append(f"{k.name}.{dunder}")
                            if bad:
                                ctx.violation("R-PRESENCE-TEST", f"{m.short}.{fn.name}", f"truth test of `{q.id}` is a presence test",
                                              f"`{ast.unparse(t)}` tests an argument declared {typed[q.id]} for truth, and {sorted(set(bad))} "
                                              f"make a valid object false (empty / zero): it is treated as absent",
                                              f"{proj.relpath(m.path)}:{t.lineno}")
                            else:
                                ctx.ok("R-PRESENCE-TEST", f"{m.short}.{fn.name}: `{ast.unparse(t)}` - {typed[q.id]} objects are always true")
    ctx.floor("R-PRESENCE-TEST", "truth tests of arguments declared with a model class", n, 2)


C17_RULES = [r_gantt, r_gantt_buffer, r_bar_is_start_to_end, r_presence_test]


def r_names_resolve(ctx, modules=None, rule="R-NAMES-RESOLVE"):
    """a function can only succeed if every free name it reads is bound: a parameter or local, a name of an enclosing function, a
    name bound at module level (import, def, class, assignment - in any branch), or a builtin.  Decided with the compiler's own
    symbol tables (`symtable`), per function, for the modules given (all when None)."""
    import builtins
    import symtable
    proj = ctx.project
    n = 0
    unbound = 0
    for m in proj.modules.values():
        if modules is not None and m.short not in modules:
            continue
        src = open(m.path).read()
        top = symtable.symtable(src, m.path, "exec")
        star = [st for st in m.tree.body if isinstance(st, ast.ImportFrom) and any(a.name == "*" for a in st.names)]
        if star:
            ctx.note(f"{rule}: {m.short}: `from ... import *` at module level, free names not decided for this module")
            continue
        bound = {s.get_name() for s in top.get_symbols() if s.is_assigned() or s.is_imported() or s.is_namespace()}
        # names bound by `global x` + assignment inside functions
        def walk(tab, path):
            nonlocal n
            for child in tab.get_children():
                walk(child, path + [child.get_name()])
            if tab.get_type() != "function":
                return
            for s in tab.get_symbols():
                if s.is_global() and s.is_assigned():
                    bound.add(s.get_name())
        walk(top, [])

        def check(tab, path):
            nonlocal n, unbound
            for child in tab.get_children():
                check(child, path + [child.get_name()])
            if tab.get_type() not in ("function", "class"):
                return
            for s in tab.get_symbols():
                if not s.is_referenced() or not s.is_global() or s.is_assigned():
                    continue
                n += 1
                nm = s.get_name()
                if nm in bound or hasattr(builtins, nm):
                    continue
                lines = [x.lineno for x in ast.walk(m.tree) if isinstance(x, ast.Name) and x.id == nm and isinstance(x.ctx, ast.Load)]
                unbound += 1
                ctx.violation(rule, f"{m.short}.{'.'.join(path)}", f"free name `{nm}` is bound nowhere",
                              f"`{nm}` is read in {'.'.join(path)} but no import, definition or assignment binds it in "
                              f"{m.short}.py: the first call that reaches it raises NameError", f"{proj.relpath(m.path)}:{lines[0] if lines else tab.get_lineno()}")
        check(top, [])
    ctx.floor(rule, "free (module-level or builtin) names read inside functions", n, 20)
    if not unbound:
        ctx.ok(rule, f"{n} free names read inside functions are bound at module level or builtin")


C17_RULES.append(lambda ctx: r_names_resolve(ctx, modules=("plotter", "solution")))
# the renderers count periods with `range(solution.horizon + 1)`: the reported horizon is an asserted integer (R-HORIZON, shared)
C17_RULES.append(lambda ctx: __import__("rules.tasks", fromlist=["x"]).r_horizon(ctx))
C16_RULES.append(lambda ctx: r_names_resolve(ctx, modules=("excel_io", "solution", "base", "problem")))
# 'the SMT-LIB export parses': distinct constants of the problem have distinct symbols (R-NAME-INJECTIVE, shared with C14)
C16_RULES.append(lambda ctx: __import__("rules.naming", fromlist=["x"]).r_name_injective(ctx))


def _roots(t, depth=0):
    """the symbols an object term is reached from: through attributes, items, loop elements and the views / copies-by-reference that
    hand out the same objects (values(), items(), get(), enumerate / zip / reversed / sorted of a container of objects).  A local
    container filled in a loop (`carried:<name>`) is its own root."""
    if not isinstance(t, tuple) or not t or depth > 12:
        return set()
    k = t[0]
    if k == "sym":
        return {t}
    if k in ("attr", "idx"):
        return _roots(t[1], depth + 1)
    if k == "elem":
        return _roots(t[1][3], depth + 1)
    if k == "mcall":
        return _roots(t[1], depth + 1)
    if k == "call" and t[1].split(".")[-1] in ("enumerate", "zip", "reversed", "sorted", "list", "tuple", "iter"):
        out = set()
        for a in t[2]:
            out |= _roots(a, depth + 1)
        return out
    if k == "phi" and len(t) == 4:
        return _roots(t[2], depth + 1) | _roots(t[3], depth + 1)
    return set()


def r_report_readonly(ctx):
    """the renderers and exporters only read the solution they are given: an in-place change of anything reachable from the
    `solution` argument (a list method that modifies, an item or attribute store - also through a local alias) changes what the
    user reads from the solution afterwards, e.g. a prepended instant in a buffer's change times after a Gantt rendering"""
    MUT = ("insert", "append", "extend", "pop", "remove", "clear", "sort", "reverse", "update", "setdefault", "popitem", "add", "discard",
           "__setitem__", "__delitem__")
    sol = S("solution")
    n = 0
    for entry, where in ((GANTT, "plotter.render_gantt_matplotlib"),
                         (Entry("func", module="excel_io", name="export_solution_to_excel_file"), "excel_io.export_solution_to_excel_file")):
        for run in live_runs(ctx, entry, "R-REPORT-READONLY"):
            n += 1
            bad = []
            for ev in run.events:
                target = None
                if ev.kind == "mcall" and ev.data["name"] in MUT:
                    target, what = ev.data["recv"], f".{ev.data['name']}()"
                elif ev.kind == "store":
                    target, what = ev.data["container"], "[...] = ..."
                elif ev.kind == "setattr":
                    target, what = ev.data["obj"], f".{ev.data['attr']} = ..."
                if isinstance(target, tuple) and sol in _roots(target):
                    bad.append((show(target)[:100], what, ev.site.lineno))
            for tgt, what, line in sorted(set(bad)):
                ctx.violation("R-REPORT-READONLY", where, f"modifies {tgt[:60]}",
                              f"`{tgt}{what}` changes an object of the solution it was given (line {line}): the solution read after the call is "
                              f"not the one the solver reported", f"processscheduler/{where.split('.')[0]}.py:{line}")
            if not bad:
                ctx.ok("R-REPORT-READONLY", f"{where} [{describe_config(run)[:60]}]: the solution is only read", nontrivial=False)
    ctx.floor("R-REPORT-READONLY", "renderer / exporter paths", n, 4)


C17_RULES.append(r_report_readonly)
C16_RULES.append(r_report_readonly)


def r_smt_tracked(ctx):
    """'the SMT-LIB export denotes the same constraint system the solver checks ... satisfiable exactly when the problem is': in
    debug mode append_z3_assertion hands every assertion to the handle through assert_and_track(formula, label).  z3 serialises a
    tracked assertion as `(=> label formula)` with the label a free Boolean constant (library fact, reproduced in
    design_notes/witness_40_debug_smt_export.py), while check() assumes the labels: the exported text is then satisfiable for every
    problem.  Decided structurally: if some configuration asserts through assert_and_track, export_to_smt2 must treat that
    configuration apart (branch on self.debug / on the tracked state) - it does not today: recorded finding."""
    where = "SchedulingSolver.export_to_smt2"
    tracked_sites = []
    for run in runs_of(ctx, Entry("method", cls="SchedulingSolver", name="append_z3_assertion")):
        for ev in run.events_of("mcall"):
            if ev.data["name"] == "assert_and_track" and is_solver_handle(ev.data["recv"]):
                tracked_sites.append((describe_config(run)[:60], ev.site.lineno))
    ctx.floor("R-SMT-TRACKED", "paths of append_z3_assertion examined", len(runs_of(ctx, Entry("method", cls="SchedulingSolver", name="append_z3_assertion"))), 2)
    if not tracked_sites:
        ctx.ok("R-SMT-TRACKED", "no configuration asserts through assert_and_track: the serialisation is the asserted system")
        return
    runs = live_runs(ctx, Entry("method", cls="SchedulingSolver", name="export_to_smt2",
                                opaque=("initialize", "sort_no_duplicates", "sort_duplicates")), "R-SMT-TRACKED")
    aware = any("debug" in k or "_map_boolrefs_to_constraints" in k for run in runs for k, _v in run.decisions)
    if aware:
        ctx.ok("R-SMT-TRACKED", f"{where} distinguishes the tracked (debug) configuration")
    else:
        ctx.violation("R-SMT-TRACKED", where, "tracked assertions are exported with their labels left free",
                      f"with debug=True assertions reach the handle through assert_and_track (append_z3_assertion, line "
                      f"{tracked_sites[0][1]}) and export_to_smt2 writes the plain serialisation on every path: each assertion is "
                      f"printed as `(=> label formula)` with a free label, so the exported system is satisfiable whatever the problem "
                      f"(an infeasible problem exports a satisfiable text)", "processscheduler/solver.py")


C16_RULES.append(r_smt_tracked)


def r_ticks_on_the_gantt_axes(ctx):
    """'bars are drawn at the right place, with and without calendar times': the calendar tick labels belong to the axes the bars are
    drawn on.  matplotlib's `plt.xticks` / `plt.xlabel` ... act on pyplot's *current* axes (trusted library fact): after
    `plt.subplots(2, 1)` that is the last one created - the buffer chart - so with a buffer in the solution the Gantt axis keeps bare
    integers and the times label the buffer plot.  Decided on the IR of the renderer: on the paths with a buffer sub-plot, the
    tick labels are set through the Gantt axes object, not through the pyplot state machine."""
    where = "plotter.render_gantt_matplotlib"
    n = 0
    bad = {}
    for run in live_runs(ctx, GANTT, "R-GANTT-TICKS"):
        dec = dict(run.decisions)
        with_buffers = any("solution.buffers" in k and v is True for k, v in run.decisions)
        calendar = any("delta_time is None" in k and v is False for k, v in run.decisions)
        if not (with_buffers and calendar):
            continue
        n += 1
        for ev in run.events_of("call"):
            nm = ev.data["name"]
            if nm.split(".")[-1] in ("xticks", "xlabel", "xlim") and "pyplot" in nm or nm in ("plt.xticks", "plt.xlabel", "plt.xlim"):
                bad.setdefault(nm, ev.site.lineno)
    for nm, line in sorted(bad.items()):
        ctx.violation("R-GANTT-TICKS", where, f"calendar ticks set through {nm.split('.')[-1]} of the pyplot state machine",
                      f"`{nm}(...)` acts on pyplot's current axes; with a buffer in the solution the figure was created by "
                      f"plt.subplots(2, 1) and the current axes is the buffer chart: the calendar labels land on the buffer plot and the "
                      f"Gantt axis shows bare integers", f"processscheduler/plotter.py:{line}")
    ctx.floor("R-GANTT-TICKS", "renderer paths with buffers and calendar times", n, 1)
    if not bad:
        ctx.ok("R-GANTT-TICKS", f"{where}: with buffers, the calendar ticks are set on the Gantt axes object")


C17_RULES.append(r_ticks_on_the_gantt_axes)


def _six_digits(value, format_spec=None):
    """the value always renders as six characters: a zero-filled width of 6 (format spec, zfill, rjust/ljust with a fill
    digit), or six characters cut out of a hexdigest (always 32+ hex digits)"""
    if format_spec is not None:
        spec = "".join(str(c.value) for c in format_spec.values if isinstance(c, ast.Constant))
        if re.fullmatch(r"(0[<>]|0)6[xXdb]?", spec):
            return True
    v = value
    if isinstance(v, ast.Call) and isinstance(v.func, ast.Attribute) and v.args and isinstance(v.args[0], ast.Constant) and v.args[0].value == 6:
        if v.func.attr == "zfill" or (v.func.attr in ("rjust", "ljust") and len(v.args) == 2 and isinstance(v.args[1], ast.Constant)
                                      and str(v.args[1].value) in "0123456789abcdefABCDEF" and len(str(v.args[1].value)) == 1):
            return True
    if isinstance(v, ast.Subscript) and isinstance(v.slice, ast.Slice) and v.slice.step is None:
        src = v.value
        if isinstance(src, ast.Call) and isinstance(src.func, ast.Attribute) and src.func.attr == "hexdigest":
            lo = v.slice.lower.value if isinstance(v.slice.lower, ast.Constant) else (0 if v.slice.lower is None else None)
            hi = v.slice.upper.value if isinstance(v.slice.upper, ast.Constant) else None
            return isinstance(lo, int) and isinstance(hi, int) and lo >= 0 and hi - lo == 6 and hi <= 32
    return False


def _string_parts(e, single):
    """the pieces a string expression is put together from, left to right: f-string parts, `+` operands; a local name assigned
    once stands for its value"""
    if isinstance(e, ast.JoinedStr):
        return [q for p_ in e.values for q in _string_parts(p_, single)]
    if isinstance(e, ast.BinOp) and isinstance(e.op, ast.Add):
        return _string_parts(e.left, single) + _string_parts(e.right, single)
    if isinstance(e, ast.Name) and e.id in single:
        return _string_parts(single[e.id], {k: v for k, v in single.items() if k != e.id})
    return [e]


def r_excel_color(ctx):
    """'exporting to an Excel workbook succeeds for every valid solution': with colours on, a cell colour is derived from the text
    of the cell.  xlsxwriter accepts `#RRGGBB` only (trusted library fact): the colour string must have six hex digits for EVERY
    text - a slice of a decimal rendering has fewer for small numbers (crc32('') is 0: the colour of a task without resource was
    '#').  Decided on the helper: every returned string is a `#RRGGBB` literal or '#' + one value rendered at a fixed width of 6."""
    fn = ctx.project.function("excel_io", "_get_color_from_string")
    assigned = {}
    for n_ in ast.walk(fn):
        if isinstance(n_, ast.Assign) and len(n_.targets) == 1 and isinstance(n_.targets[0], ast.Name):
            assigned.setdefault(n_.targets[0].id, []).append(n_.value)
    single = {k: v[0] for k, v in assigned.items() if len(v) == 1}
    n = 0
    for r in [x for x in ast.walk(fn) if isinstance(x, ast.Return) and x.value is not None]:
        parts = _string_parts(r.value, single)
        if all(isinstance(p_, ast.Constant) and isinstance(p_.value, str) for p_ in parts):
            text = "".join(p_.value for p_ in parts)
            if re.fullmatch(r"#[0-9A-Fa-f]{6}", text):
                ctx.ok("R-EXCEL-COLOR", f"excel_io._get_color_from_string: the literal {text}")
            else:
                ctx.violation("R-EXCEL-COLOR", "excel_io._get_color_from_string", "colour literal", f"'{text}' is not #RRGGBB",
                              f"processscheduler/excel_io.py:{r.lineno}")
            continue
        n += 1
        head = parts[0] if parts else None
        dyn = parts[1:]
        fixed = isinstance(head, ast.Constant) and head.value == "#" and len(dyn) == 1 and (
            _six_digits(dyn[0].value, dyn[0].format_spec) if isinstance(dyn[0], ast.FormattedValue) else _six_digits(dyn[0]))
        if fixed:
            ctx.ok("R-EXCEL-COLOR", "excel_io._get_color_from_string: '#' + a value rendered with exactly 6 digits")
        else:
            ctx.violation("R-EXCEL-COLOR", "excel_io._get_color_from_string", "colour string of variable length",
                          f"`{ast.unparse(r.value)[:80]}`: what follows '#' is not rendered at a fixed width of six - a slice of a decimal "
                          f"string has fewer digits for a small hash (the text '' - a task without resource - gave '#') and xlsxwriter "
                          f"raises 'Invalid color value'", f"processscheduler/excel_io.py:{r.lineno}")
    ctx.floor("R-EXCEL-COLOR", "colour strings built from a hash", n, 1)


C16_RULES.append(r_excel_color)


def r_csv_write(ctx):
    """'the CSV export reproduces the solution' with the separator the caller asked for, to a file and as a string alike: the one
    pandas writer call of SchedulingSolution.to_csv gets the data frame of to_df, `sep=` the caller's separator, no index column,
    the caller's file name in the file branch and nothing else (a writer option - header, columns, float format, quoting -
    changes what a reader with the documented defaults gets back)."""
    where = "SchedulingSolution.to_csv"
    fn = ctx.project.method("SchedulingSolution", "to_csv")[1]
    params = [a.arg for a in fn.args.args[1:]]
    if len(params) < 2:
        raise P.AnalysisError("R-CSV-WRITE: to_csv(csv_filename, separator) expected")
    fname, sepn = S(params[0]), S(params[1])
    runs = runs_of(ctx, Entry("method", cls="SchedulingSolution", name="to_csv"))
    fails_closed(ctx, "R-CSV-WRITE", runs)
    n = 0
    for run in runs:
        if run.rejected:
            continue
        n += 1
        cfg = describe_config(run)[-60:]
        to_file = dict(run.decisions).get(f"{params[0]} is None") is False
        calls = [ev for ev in run.events_of("mcall") if ev.data["name"] == "to_csv"]
        if len(calls) != 1 or calls[0].loops or calls[0].guards:
            ctx.violation("R-CSV-WRITE", where, "one unconditional writer call per branch", f"on [{cfg}] {len(calls)} call(s) of .to_csv", "processscheduler/solution.py")
            continue
        ev = calls[0]
        kw = dict(ev.data["kwargs"])
        pos = list(ev.data["args"])
        if pos:
            kw.setdefault("path_or_buf", pos[0])
        if len(pos) > 1:
            kw.setdefault("sep", pos[1])
        recv_ok = isinstance(ev.data["recv"], tuple) and ev.data["recv"][:2] == ("call", "pandas.DataFrame")
        problems = []
        if not recv_ok:
            problems.append(f"the writer is called on {show(ev.data['recv'])[:60]}, not on the data frame of to_df()")
        if kw.get("sep") != sepn:
            problems.append(f"sep is {show(kw['sep']) if 'sep' in kw else 'left to the default (comma)'}, not the caller's `{params[1]}`")
        if kw.get("index") != K(False):
            problems.append("the index column is written")
        if to_file and kw.get("path_or_buf") != fname:
            problems.append(f"the file written is {show(kw.get('path_or_buf')) if 'path_or_buf' in kw else 'none'}, not `{params[0]}`")
        if not to_file and ("path_or_buf" in kw or run.retval != ("mcall", ev.data["recv"], "to_csv", ev.data["args"], ev.data["kwargs"])):
            problems.append("the text of the writer is not what is returned")
        extra = sorted(set(kw) - {"sep", "index", "path_or_buf"}) + (["positional"] if len(pos) > 2 else [])
        if extra:
            problems.append(f"further writer options {extra}")
        if problems:
            ctx.violation("R-CSV-WRITE", where, "to_file" if to_file else "as_string", f"on [{cfg}] " + "; ".join(problems), "processscheduler/solution.py")
        else:
            ctx.ok("R-CSV-WRITE", f"{where} [{'file' if to_file else 'string'}]: to_df().to_csv(sep=separator, index=False{', file' if to_file else ''})")
    ctx.floor("R-CSV-WRITE", "writer branches", n, 2)


C16_RULES.append(r_csv_write)

# the curve is drawn from the reported levels and change times: they must stay paired (R-CLEAN-PAIRED)
C17_RULES.append(lambda ctx: __import__("rules.buffers", fromlist=["x"]).r_clean_paired(ctx))
