"""C18 - ill-formed elements are rejected at creation, well-formed ones accepted.

R-FIELD-TABLE  the declared constraint of each field named by the property equals the specification row, both directions
R-DUP-NAME     each registry method tests membership of the key it stores under and raises before storing
R-REGISTER     each self-registering class registers on every accepting path, under its final name
R-RAISE-*      explicit checks (no active problem, optional-only rules, unassigned resource, buffer levels, indicator bounds,
               required resources) present and ahead of the effects they protect
R-ATTR         whole-program attribute resolution (a well-formed input must not die with AttributeError)
Oracle: the property statement, docs/task.md, docs/resource.md, docs/resource_assignment.md.
"""
from __future__ import annotations

import ast

from sa import project as P
from sa.interp import Entry
from sa.lib import *
from sa.terms import subterms
from rules import resource_constraints, optional as optional_rules, logic as logic_rules, resources as resource_rules

SELF = S("self")
OPAQUE = ("sort_no_duplicates", "sort_duplicates", "get_minimum", "get_maximum")
INF = None

# field -> expected constraint.  ('int', lo, hi, none_allowed) | ('minlen', n) | ('literal', set) | ('strictbool',) | ('required',)
FIELD_SPEC = {
    ("FixedDurationTask", "duration"): ("int", 1, INF, False, "docs/task.md: duration is a positive integer"),
    ("Task", "work_amount"): ("int", 0, INF, False, "property statement: negative work amount rejected"),
    ("Task", "priority"): ("int", 0, INF, False, "property statement: negative priority rejected"),
    ("VariableDurationTask", "min_duration"): ("int", 0, INF, False, "property statement: negative minimum duration rejected"),
    ("VariableDurationTask", "max_duration"): ("int", 1, INF, True, "docs/task.md: max_duration positive or None"),
    ("Worker", "productivity"): ("int", 0, INF, False, "docs/resource.md: productivity >= 0"),
    ("CumulativeWorker", "size"): ("int", 2, INF, False, "property statement: cumulative size below two rejected"),
    ("CumulativeWorker", "productivity"): ("int", 1, INF, False, "resource.py: PositiveInt"),
    ("SelectWorkers", "nb_workers_to_select"): ("int", 1, INF, False, "docs/resource_assignment.md"),
    ("SelectWorkers", "list_of_workers"): ("minlen", 2, "property statement: selection from fewer than two rejected"),
    ("TaskPrecedence", "offset"): ("int", 0, INF, False, "docs/task_constraints.md: offset >= 0"),
    ("ForceScheduleNOptionalTasks", "nb_tasks_to_schedule"): ("int", 1, INF, False, "0 < n <= m"),
    ("ForceApplyNOptionalConstraints", "nb_constraints_to_apply"): ("int", 1, INF, False, "0 < n <= m"),
    ("Task", "optional"): ("strictbool", "optional is a strict boolean"),
    ("Task", "due_date_is_deadline"): ("strictbool", "strict boolean"),
    ("TaskPrecedence", "kind"): ("literal", {"lax", "strict", "tight"}, "docs/task_constraints.md"),
    ("OrderedTaskGroup", "kind"): ("literal", {"lax", "strict", "tight"}, "docs/task_constraints.md"),
    ("TaskStartAfter", "kind"): ("literal", {"lax", "strict"}, "docs/task_constraints.md"),
    ("TaskEndBefore", "kind"): ("literal", {"lax", "strict"}, "docs/task_constraints.md"),
    ("SelectWorkers", "kind"): ("literal", {"exact", "min", "max"}, "docs/resource_assignment.md"),
    ("ForceScheduleNOptionalTasks", "kind"): ("literal", {"exact", "min", "max"}, "docs"),
    ("ForceApplyNOptionalConstraints", "kind"): ("literal", {"exact", "min", "max"}, "docs"),
    ("ScheduleNTasksInTimeIntervals", "kind"): ("literal", {"exact", "min", "max"}, "docs"),
    ("WorkLoad", "kind"): ("literal", {"exact", "min", "max"}, "docs/resource_constraints.md"),
    ("ResourceTasksDistance", "mode"): ("literal", {"exact", "min", "max"}, "docs/resource_constraints.md"),
    ("Objective", "kind"): ("literal", {"minimize", "maximize"}, "docs/objectives.md"),
    ("SchedulingSolver", "optimizer"): ("literal", {"incremental", "optimize"}, "docs/solving.md"),
    ("SchedulingSolver", "optimize_priority"): ("literal", {"pareto", "lex", "box", "weight"}, "docs/solving.md"),
    ("ZeroDurationTask", "duration"): ("literal", {0}, "a zero duration task has duration 0"),
    ("SchedulingProblem", "horizon"): ("posint-or-none", "docs/scheduling_problem.md: horizon is a positive integer when given"),
}


def r_field_table(ctx):
    proj = ctx.project
    n = 0
    for (cname, fname), spec in FIELD_SPEC.items():
        c = proj.cls(cname)
        f = c.all_fields().get(fname)
        where = f"{cname}.{fname}"
        n += 1
        if f is None:
            ctx.violation("R-FIELD-TABLE", where, "field vanished", f"{cname} no longer declares `{fname}`", first_line(proj, cname))
            continue
        location = f"{proj.relpath(proj.cls(f.owner).module.path)}:{f.lineno}"
        kind = spec[0]
        if kind == "int":
            lo, hi, none_ok = spec[1], spec[2], spec[3]
            iv = f.int_interval()
            alts = P.type_alternatives(f.type)
            other = [a for a in alts if a[0] not in ("int",) and a != ("none",)]
            ok = iv is not None and iv == (lo, hi) and not other and (P.type_allows_none(f.type) == none_ok or (none_ok and f.default is None))
            if ok:
                ctx.ok("R-FIELD-TABLE", f"{where}: integer in [{lo}, {'inf' if hi is None else hi}]{' or None' if none_ok else ''}",
                       sample={"declared": f.ann_src, "constraints": f.constraints})
            else:
                looser = iv is None or (iv[0] is None or (lo is not None and iv[0] < lo)) or other
                ctx.violation("R-FIELD-TABLE", where, f"accepted values must be the integers >= {lo}{' or None' if none_ok else ''}",
                              f"`{fname}: {f.ann_src}` {f.constraints or ''} accepts {('integers in ' + str(iv)) if iv else 'any value'}"
                              f"{' and ' + str([P.show_type(a) for a in other]) if other else ''}: "
                              f"{'ill-formed values are silently accepted' if looser else 'well-formed values are rejected'}", location)
        elif kind == "minlen":
            ml = f.constraints.get("min_length")
            if ml == spec[1] and f.type[0] == "list":
                ctx.ok("R-FIELD-TABLE", f"{where}: list of at least {spec[1]}")
            else:
                ctx.violation("R-FIELD-TABLE", where, f"list of at least {spec[1]} elements",
                              f"`{fname}: {f.ann_src}` min_length={ml}", location)
        elif kind == "literal":
            alts = [a for a in P.type_alternatives(f.type) if a != ("none",)]
            vals = set(v for a in alts if a[0] == "literal" for v in a[1])
            ok = alts and all(a[0] == "literal" for a in alts) and vals == spec[1]
            if ok:
                ctx.ok("R-FIELD-TABLE", f"{where}: one of {sorted(map(str, spec[1]))}")
            else:
                ctx.violation("R-FIELD-TABLE", where, f"value set {sorted(map(str, spec[1]))}",
                              f"`{fname}: {f.ann_src}` admits {sorted(map(str, vals)) if vals else 'any value'}", location)
        elif kind == "strictbool":
            if f.type == ("prim", "strictbool"):
                ctx.ok("R-FIELD-TABLE", f"{where}: strict boolean")
            else:
                ctx.violation("R-FIELD-TABLE", where, "strict boolean", f"`{fname}: {f.ann_src}` coerces non-boolean values", location)
        elif kind == "posint-or-none":
            alts = P.type_alternatives(f.type)
            ok = ("int", 1, None) in alts and f.default is None
            if ok:
                ctx.ok("R-FIELD-TABLE", f"{where}: positive integer (or a z3 term), None by default")
            else:
                ctx.violation("R-FIELD-TABLE", where, "positive integer or None", f"`{fname}: {f.ann_src}`", location)
    ctx.floor("R-FIELD-TABLE", "field rows", n, 28)
    # allowed_durations: list of positive integers
    f = proj.cls("VariableDurationTask").all_fields().get("allowed_durations")
    ok = f is not None and any(a[0] == "list" and a[1] == ("int", 1, None) for a in P.type_alternatives(f.type))
    if ok:
        ctx.ok("R-FIELD-TABLE", "VariableDurationTask.allowed_durations: list of positive integers or None")
    else:
        ctx.violation("R-FIELD-TABLE", "VariableDurationTask.allowed_durations", "list of positive integers",
                      f"declared {f.ann_src if f else None}", first_line(proj, "VariableDurationTask"))
    # extra = forbid everywhere
    loose = []
    for c in proj.classes.values():
        if not c.is_subclass_of("BaseModelWithJson"):
            continue
        v = c.config_value("extra")
        if v != "forbid":
            loose.append((c.name, v))
    if loose:
        for cname, v in loose:
            ctx.violation("R-FIELD-TABLE", cname, "unknown keyword arguments rejected (extra='forbid')",
                          f"{cname} has model_config extra={v!r}: a misspelt parameter is silently ignored", first_line(proj, cname))
    else:
        ctx.ok("R-FIELD-TABLE", "every model class forbids unknown keyword arguments")


REGISTRIES = {
    "add_task": ("tasks", "task"), "add_resource_worker": ("workers", "worker"), "add_resource_select_workers": ("select_workers", "select_workers"),
    "add_resource_cumulative_worker": ("cumulative_workers", "cumulative_worker"), "add_constraint": ("constraints", "constraint"),
    "add_indicator": ("indicators", "indicator"), "add_objective": ("objectives", "objective"),
}


def _some_element_has_the_name(ev, coll, name) -> bool:
    """the event happens exactly when some element of `coll` has the name `name`, in any of the spellings
    `name in [e.name for e in coll]`, `any(e.name == name for e in coll)`, `for e in coll: if e.name == name: <event>`"""
    def same_name(t, L):
        t = norm(t)
        return is_app(t, "==") and len(t) == 4 and {t[2], t[3]} == {A(elem(L), "name"), name}

    def one_each(lst):
        if isinstance(lst, tuple) and lst and lst[0] in ("list", "tuple") and len(lst[1]) == 1 and lst[1][0] and lst[1][0][0] == "each":
            e = lst[1][0]
            if len(e[1]) == 1 and not e[2] and norm(e[1][0][3]) == norm(coll):
                return e
        return None
    if ev.loops:
        L = ev.loops[-1]
        return len(ev.loops) == 1 and norm(L[3]) == norm(coll) and len(ev.guards) == 1 and same_name(ev.guards[0], L)
    if len(ev.guards) != 1:
        return False
    g = ev.guards[0]
    if is_app(g, "in") and len(g) == 4 and g[2] == name:
        e = one_each(g[3])
        return e is not None and e[3] == A(elem(e[1][0]), "name")
    if isinstance(g, tuple) and g and g[0] == "call" and g[1] == "any" and len(g[2]) == 1:
        e = one_each(g[2][0])
        return e is not None and same_name(e[3], e[1][0])
    return False


def r_dup_name(ctx, only=None):
    """`only`: the registry methods to look at (the per-kind properties share the rule for the registry of their own kind: an
    element that is silently replaced under its name is never asserted)"""
    proj = ctx.project
    for meth, (reg, param) in REGISTRIES.items():
        if only is not None and meth not in only:
            continue
        runs = runs_of(ctx, Entry("method", cls="SchedulingProblem", name=meth))
        fails_closed(ctx, "R-DUP-NAME", runs)
        where = f"SchedulingProblem.{meth}"
        for r in runs:
            fn = proj.method("SchedulingProblem", meth)[1]
            pname = fn.args.args[1].arg
            key = A(S(pname), "name")
            rs = [ev for ev in r.events_of("raise") if any(norm(g) == norm(app("in", key, A(SELF, reg))) for g in ev.guards)]
            st = [ev for ev in r.events_of("store") if ev.data["container"] == A(SELF, reg)]
            ok = len(rs) == 1 and len(st) == 1 and st[0].data["key"] == key and st[0].data["value"] == S(pname)
            if ok:
                # the store happens on new names only: it is under `not (name in registry)`, or the raise comes first in
                # execution order and ends every path on which the name is known
                taken = norm(app("in", key, A(SELF, reg)))
                guarded = any(norm(g) == norm(app("not", taken)) for g in st[0].guards)
                evs = list(r.events)
                first = evs.index(rs[0]) < evs.index(st[0]) and [norm(g) for g in rs[0].guards] == [taken]
                ok = guarded or first
            if ok:
                ctx.ok("R-DUP-NAME", f"{where}: duplicate name rejected before insertion under the same key")
            else:
                ctx.violation("R-DUP-NAME", where, "duplicate name rejected before insertion",
                              f"raise on `{show(key)} in self.{reg}`: {len(rs)}; stores: "
                              f"{[(show(e.data['key'])[:40], show(e.data['value'])[:30]) for e in st]}", first_line(proj, "SchedulingProblem"))
    if only is not None and "add_buffer" not in only:
        return
    runs = runs_of(ctx, Entry("method", cls="SchedulingProblem", name="add_buffer"))
    fails_closed(ctx, "R-DUP-NAME", runs)
    for r in runs:
        fn = proj.method("SchedulingProblem", "add_buffer")[1]
        new_name = A(S(fn.args.args[1].arg), "name")
        rs = [ev for ev in r.events_of("raise") if _some_element_has_the_name(ev, A(SELF, "buffers"), new_name)]
        ap = [ev for ev in r.events_of("mcall") if ev.data["name"] == "append" and ev.data["recv"] == A(SELF, "buffers")]
        evs = list(r.events)
        if len(rs) == 1 and len(ap) == 1 and evs.index(rs[0]) < evs.index(ap[0]) and not ap[0].loops:
            ctx.ok("R-DUP-NAME", "SchedulingProblem.add_buffer: duplicate buffer name rejected before insertion")
        else:
            ctx.violation("R-DUP-NAME", "SchedulingProblem.add_buffer", "duplicate buffer name rejected",
                          f"raises: {len(rs)}, appends: {len(ap)}", first_line(proj, "SchedulingProblem"))


ELEMENT_REG = [("Task", "tasks"), ("Worker", "workers"), ("CumulativeWorker", "cumulative_workers"), ("SelectWorkers", "select_workers"),
               ("Constraint", "constraints"), ("Indicator", "indicators"), ("Objective", "objectives")]
AP = ("glob", "processscheduler.base.active_problem")


def r_register(ctx):
    proj = ctx.project
    n = 0
    for base, reg in ELEMENT_REG:
        for c in proj.subclasses(base, strict=False):
            if c.name in ("Task", "Constraint", "ResourceConstraint", "TaskConstraint", "IndicatorConstraint", "TaskGroup"):
                continue
            runs = runs_of(ctx, Entry("init", cls=c.name, opaque=OPAQUE))
            where = f"{c.name}.__init__"
            for r in runs:
                if r.rejected or dict(r.decisions).get("processscheduler.base.active_problem is None") is True:
                    continue
                st = [ev for ev in r.events_of("store") if ev.data["container"] == A(AP, reg) and ev.data["value"] == SELF]
                n += 1
                if len(st) != 1 or st[0].loops:
                    ctx.violation("R-REGISTER", where, f"registered once in problem.{reg}",
                                  f"on [{describe_config(r)[:80]}] the element is registered {len(st)} time(s)", first_line(proj, c.name))
                    continue
                key = st[0].data["key"]
                final = r.heap.get((SELF, "name"), A(SELF, "name"))
                final = final if isinstance(final, tuple) else A(SELF, "name")
                # an objective created with an explicit name= keyword registers under that name
                if key == final or (key == A(SELF, "name") and final == A(SELF, "name")):
                    ctx.ok("R-REGISTER", f"{where} [{describe_config(r)[:60]}]: registered under its final name", nontrivial=False)
                else:
                    ctx.violation("R-REGISTER", where, "renamed after registration",
                                  f"the element is registered under {show(key)[:60]} and then renames itself {show(final)[:80]}: the registry "
                                  f"key differs from the name, and two such elements with the same final name are both accepted",
                                  first_line(proj, c.name))
    ctx.floor("R-REGISTER", "accepting constructor paths", n, 150)


def r_single_element_sort(ctx):
    """util.sort_no_duplicates returns, besides the membership assertions, one conjunction over the n - 1 adjacent pairs: for a
    list of one element (or none) that conjunction is the empty `And()`.  A constructor that sorts two lists (starts and ends) and
    appends both assertion lists to itself then appends the same `And()` twice, and NamedUIDObject.append_z3_assertion refuses the
    repeat with 'assertion And already added': a well-formed element over a single task / a worker with a single task is
    rejected.  Decided per constructor: two sorted copies whose assertion lists are both appended, and no rejection of lists
    shorter than 2 before them."""
    proj = ctx.project
    n = 0
    # does the sorter return a conjunction over the adjacent pairs on a path where there may be no pair at all?
    empty_and_possible = False
    for r in runs_of(ctx, Entry("func", module="util", name="sort_no_duplicates")):
        if r.rejected or not (isinstance(r.retval, tuple) and r.retval[0] == "tuple" and len(r.retval[1]) == 2):
            continue
        cs = r.retval[1][1]
        has_chain = cs[0] == "list" and any(is_app(x, "And") for x in cs[1])
        at_least_two = any("len(" in k_ and ((">= 2" in k_ or "> 1" in k_) and v_ is True or ("< 2" in k_ or "<= 1" in k_) and v_ is False)
                           for k_, v_ in r.decisions)
        if has_chain and not at_least_two:
            empty_and_possible = True
    if not empty_and_possible:
        ctx.ok("R-SINGLE-SORT", "util.sort_no_duplicates returns no conjunction over the pairs when there is no pair (fewer than 2 values)")
    for base in ("Constraint", "Indicator"):
        for c in proj.subclasses(base):
            runs = [r for r in runs_of(ctx, Entry("init", cls=c.name, opaque=OPAQUE)) if not r.rejected]
            hit = None
            if not empty_and_possible:
                n += 1 if runs else 0
                continue
            for r in runs:
                lists = set()
                for e in r.emissions:
                    if e.owner != SELF or not e.loops:
                        continue
                    for s_ in subterms(e.loops[-1][3]):
                        if isinstance(s_, tuple) and s_ and s_[0] == "call" and s_[1].split(".")[-1] == "sort_no_duplicates":
                            lists.add(show(norm(s_))[:120])
                if len(lists) >= 2:
                    short_rejected = any("at least 2" in ev.data.get("src", "") or "len(" in show(And(*ev.guards)) and "2" in show(And(*ev.guards))
                                         for ev in r.events_of("raise") if ev.guards)
                    if not short_rejected:
                        hit = sorted(lists)
            if not runs:
                continue
            n += 1
            if hit:
                ctx.violation("R-SINGLE-SORT", f"{c.name}.__init__", "two sorted copies, single element",
                              f"{c.name} appends the assertion lists of two sorted copies ({hit[0][:60]} ...): over a single element both "
                              f"end with the same empty conjunction `And()` and the second append raises 'assertion And already added' - a "
                              f"well-formed {c.name} over one task (a worker with one task) is rejected", first_line(proj, c.name))
    ctx.floor("R-SINGLE-SORT", "constraint / indicator classes", n, 40)


def r_register_atomic(ctx):
    """'an ill-formed element is rejected' has to mean that nothing of it stays behind: a constructor that puts the element into
    the problem's registry and raises afterwards leaves a half-built element registered - its name is taken (the corrected,
    well-formed call is then refused as a duplicate) and the solver drains whatever it asserted before failing.  Decided per
    self-registering class: on no constructor path does a raise come, in execution order, after the registry store."""
    proj = ctx.project
    n = 0
    found = {}
    for base, reg in ELEMENT_REG:
        for c in proj.subclasses(base, strict=False):
            if c.name in ("Task", "Constraint", "ResourceConstraint", "TaskConstraint", "IndicatorConstraint", "TaskGroup"):
                continue
            runs = runs_of(ctx, Entry("init", cls=c.name, opaque=OPAQUE))
            for r in runs:
                n += 1
                evs = list(r.events)
                st = [i for i, ev in enumerate(evs) if ev.kind == "store" and ev.data["container"] == A(AP, reg) and ev.data["value"] == SELF]
                if not st:
                    continue
                # (a raise on the complementary branch of the store's own test - `if new: store ... else: raise` - is not "after" it)
                sg = {show(norm(g_)) for g_ in evs[st[0]].guards}
                def excluded(ev):
                    return any(show(norm(app("not", g_))) in sg or (is_app(norm(g_), "not") and show(norm(g_)[2]) in sg) for g_ in ev.guards)
                later = [ev for ev in evs[st[0] + 1:] if ev.kind == "raise" and not excluded(ev)]
                sites = [(ev.site.func, ev.data.get("src", "")[:70]) for ev in later]
                if r.rejected and r.reject_info is not None:
                    sites.append((str(r.reject_info.get("site", "")), str(r.reject_info.get("src", ""))[:70]))
                if sites:
                    found.setdefault(c.name, sites[0])
    for cname, (fn_, src) in sorted(found.items()):
        ctx.violation("R-REGISTER-ATOMIC", f"{cname}.__init__", "registered before a rejection",
                      f"{cname} is put into the problem's registry before `{src}` can raise ({fn_}): the rejected element keeps its name "
                      f"(the corrected call is refused with 'already exists') and what it asserted before failing is drained by the solver",
                      first_line(proj, cname))
    ctx.floor("R-REGISTER-ATOMIC", "constructor paths", n, 150)
    if not found:
        ctx.ok("R-REGISTER-ATOMIC", "no constructor raises after registering the element")


def r_raise(ctx):
    proj = ctx.project
    # (e) no active problem: every element constructor tests or dereferences the global before it returns
    for base in ("Task", "Resource", "Constraint", "Indicator", "Objective", "Buffer"):
        for c in proj.subclasses(base, strict=False):
            if c.name in ("Resource",):
                continue
            runs = runs_of(ctx, Entry("init", cls=c.name, opaque=OPAQUE))
            where = f"{c.name}.__init__"
            bad = 0
            for r in runs:
                none = dict(r.decisions).get("processscheduler.base.active_problem is None")
                if none is True and not r.rejected:
                    # only inside nested construction (unit workers): accepted if a raise event exists
                    if not any("active_problem" in show(And(*ev.guards)) or "No context" in ev.data.get("src", "") or "No active" in ev.data.get("src", "")
                               for ev in r.events_of("raise")):
                        bad += 1
                if none is None and not r.rejected:
                    uses = any(ev.kind in ("store", "mcall") and "active_problem" in show(ev.data.get("container", ev.data.get("recv", ())))
                               for ev in r.events)
                    if not uses:
                        bad += 1
            if bad:
                ctx.violation("R-RAISE-NO-PROBLEM", where, "created without an active problem",
                              f"{c.name} can be constructed on {bad} path(s) without ever touching the active problem: creation before "
                              f"any SchedulingProblem exists is silently accepted", first_line(proj, c.name))
            else:
                ctx.ok("R-RAISE-NO-PROBLEM", f"{where}: fails without an active problem", nontrivial=False)
    # (f) buffer without initial and final level
    runs = runs_of(ctx, Entry("init", cls="Buffer"))
    both_none = [r for r in runs if leaf_value(r, "self.initial_level") == ("ok", None) and leaf_value(r, "self.final_level") == ("ok", None)]
    if both_none and all(r.rejected for r in both_none):
        ctx.ok("R-RAISE-BUFFER", "Buffer: neither initial nor final level -> rejected")
    else:
        ctx.violation("R-RAISE-BUFFER", "Buffer.__init__", "initial_level and final_level both None accepted",
                      f"{len([r for r in both_none if not r.rejected])} accepting path(s) with both levels None", first_line(proj, "Buffer"))
    others = [r for r in runs if r not in both_none and dict(r.decisions).get("processscheduler.base.active_problem is None") is False]
    if others and all(not r.rejected for r in others):
        ctx.ok("R-RAISE-BUFFER", "Buffer: a buffer with at least one level is accepted")
    else:
        ctx.violation("R-RAISE-BUFFER", "Buffer.__init__", "well-formed buffer rejected", "", first_line(proj, "Buffer"))
    # (g) IndicatorBounds
    runs = runs_of(ctx, Entry("init", cls="IndicatorBounds"))
    bn = [r for r in runs if leaf_value(r, "self.lower_bound") == ("ok", None) and leaf_value(r, "self.upper_bound") == ("ok", None)]
    if bn and all(r.rejected for r in bn) and all(not r.rejected for r in runs if r not in bn):
        ctx.ok("R-RAISE-BOUNDS", "IndicatorBounds: both bounds None rejected, anything else accepted")
    else:
        ctx.violation("R-RAISE-BOUNDS", "IndicatorBounds.__init__", "both bounds None <=> rejected",
                      f"both-None paths rejected: {[r.rejected for r in bn]}", first_line(proj, "IndicatorBounds"))
    # (h) add_required_resource: not a Resource / already required
    runs = runs_of(ctx, Entry("method", cls="Task", name="add_required_resource", opaque=OPAQUE, param_types={"resource": ("prim", "any")}))
    nores = [r for r in runs if any(k.startswith("isinstance(resource, Resource") and v is False for k, v in r.decisions)]
    if nores and all(r.rejected for r in nores):
        ctx.ok("R-RAISE-RESOURCE", "add_required_resource: a non-Resource argument is rejected")
    else:
        ctx.violation("R-RAISE-RESOURCE", "Task.add_required_resource", "non-Resource accepted",
                      f"paths with a non-Resource argument: {len(nores)}, rejected: {[r.rejected for r in nores]}", "processscheduler/task.py")
    runs = runs_of(ctx, Entry("method", cls="Task", name="add_required_resource", opaque=OPAQUE))
    dup_ok = all(any(norm(g) == norm(app("in", S("resource"), A(SELF, "_required_resources"))) for ev in r.events_of("raise") for g in ev.guards)
                 for r in runs if not r.rejected)
    if dup_ok:
        ctx.ok("R-RAISE-RESOURCE", "add_required_resource: a resource already required is rejected")
    else:
        ctx.violation("R-RAISE-RESOURCE", "Task.add_required_resource", "duplicate required resource accepted", "", "processscheduler/task.py")
    # (d) resource constraints reject a resource without busy interval - sibling agreement
    UNASSIGNED_EXEMPT = {
        "ResourceNonDelay": "no explicit check, but construction on an unassigned resource does fail at run time: both sorted copies "
                            "are empty, their two `And([])` constraints are equal and the duplicate-assertion guard of "
                            "append_z3_assertion raises AssertionError (reproduced, design_notes/witnesses_round1.py ND). The behaviour "
                            "the property asks for holds; the mechanism is outside what this rule can see.",
    }
    for c in proj.subclasses("ResourceConstraint"):
        if "resource" not in c.all_fields():
            continue
        if c.name in UNASSIGNED_EXEMPT:
            ctx.note(f"R-RAISE-UNASSIGNED: {c.name} exempt: {UNASSIGNED_EXEMPT[c.name][:120]}")
            continue
        runs = runs_of(ctx, Entry("init", cls=c.name, opaque=OPAQUE))
        where = f"{c.name}.__init__"
        ok = all(any("resource_assigned" in show(And(*ev.guards)) or "not assigned" in ev.data.get("src", "") or "at least 2" in ev.data.get("src", "")
                     for ev in r.events_of("raise")) for r in runs if not r.rejected)
        if ok:
            ctx.ok("R-RAISE-UNASSIGNED", f"{where}: a resource that is not assigned to any task is rejected")
        else:
            ctx.violation("R-RAISE-UNASSIGNED", where, "unassigned resource accepted",
                          f"{c.name} does not reject a resource without any busy interval, as its siblings do: the constraint is silently "
                          f"empty", first_line(proj, c.name))
    # sibling agreement of the two generic objectives on the optional `weight`
    for cname in ("ObjectiveMaximizeIndicator", "ObjectiveMinimizeIndicator"):
        runs = runs_of(ctx, Entry("init", cls=cname, opaque=OPAQUE))
        bad = False
        for r in runs:
            w = r.heap.get((SELF, "weight"))
            if isinstance(w, tuple) and w == ("idx", S("data"), K("weight")):
                bad = True
        if bad:
            ctx.violation("R-SIBLING", f"{cname}.__init__", "weight is required",
                          f"{cname} reads data['weight'] unconditionally (KeyError when omitted) while its sibling defaults it to 1",
                          first_line(proj, cname))
        else:
            ctx.ok("R-SIBLING", f"{cname}: weight is optional")


RULES = [r_field_table, r_dup_name, r_register, r_register_atomic, r_single_element_sort, r_raise,
         lambda ctx: resource_constraints.r_attr(ctx, modules=None),
         optional_rules.r_opt_rules, logic_rules.r_force_apply, resource_rules.r_select_workers,
         resource_constraints.r_union_exh_raise]
