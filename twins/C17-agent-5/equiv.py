"""Equivalence script for the refactoring of util.sort_duplicates / util.sort_no_duplicates.

Run from the worktree:  cd /tmp/t6_C17 && /venv/bin/python _twin/equiv.py
Prints a canonical description of each scenario (sorted solver assertions, solution
values, the bars and the buffer curves actually drawn by render_gantt_matplotlib).
"""
import os
import re
import sys
import io
import contextlib

sys.path.insert(0, os.getcwd())

import matplotlib

matplotlib.use("Agg")
import matplotlib.pyplot as plt
import z3

import processscheduler as ps
from processscheduler.util import sort_duplicates, sort_no_duplicates

assert os.path.dirname(ps.__file__).startswith(os.getcwd()), ps.__file__

HEX = re.compile(r"[0-9a-f]{8,}")


def mask(s):
    return HEX.sub("<uid>", s)


def show_assertions(solver):
    lines = sorted(mask(str(a)).replace("\n", " ") for a in solver._solver.assertions())
    print("  %d assertions" % len(lines))
    for line in lines:
        print("   |", re.sub(r"\s+", " ", line))


def show_solution(solution):
    if not solution:
        print("  no solution:", solution)
        return
    print("  horizon", solution.horizon)
    for name, t in solution.tasks.items():
        print("  task", name, t.start, t.end, t.duration, t.scheduled, t.assigned_resources)
    for name, r in solution.resources.items():
        print("  resource", name, r.assignments)
    for name, b in solution.buffers.items():
        print("  buffer", name, b.level_change_times, b.level)
    print("  indicators", dict(solution.indicators))


def show_gantt(solution, render_mode):
    plt.close("all")
    try:
        ps.render_gantt_matplotlib(solution, show_plot=False, render_mode=render_mode)
    except Exception as exc:  # pylint: disable=broad-except
        print("  gantt", render_mode, "raised", type(exc).__name__, exc)
        return
    fig = plt.gcf()
    for n_ax, ax in enumerate(fig.axes):
        print("  gantt", render_mode, "axes", n_ax, repr(ax.get_title()),
              [t.get_text() for t in ax.get_yticklabels()])
        for coll in ax.collections:
            for path in coll.get_paths():
                xs = [round(float(v[0]), 4) for v in path.vertices]
                ys = [round(float(v[1]), 4) for v in path.vertices]
                print("    bar x", min(xs), max(xs), "y", min(ys), max(ys))
        for txt in ax.texts:
            print("    text", txt.get_position(), repr(txt.get_text()))
        for line in ax.get_lines():
            print("    line", repr(line.get_label()),
                  [str(v) for v in line.get_xdata()], [str(v) for v in line.get_ydata()])
    plt.close("all")


def run(title, build, modes=("Resource", "Task")):
    print("=" * 70)
    print(title)
    try:
        with contextlib.redirect_stdout(io.StringIO()):
            pb, kwargs = build()
            solver = ps.SchedulingSolver(problem=pb, **kwargs)
            solver.initialize()
        show_assertions(solver)
        with contextlib.redirect_stdout(io.StringIO()):
            solution = solver.solve()
        show_solution(solution)
        if solution:
            for mode in modes:
                show_gantt(solution, mode)
    except Exception as exc:  # pylint: disable=broad-except
        print("  raised", type(exc).__name__, mask(str(exc)))


# ---------------------------------------------------------------- scenarios
def s1():
    pb = ps.SchedulingProblem(name="S1OneUnload")
    t1 = ps.FixedDurationTask(name="t1", duration=3)
    w = ps.Worker(name="w1")
    t1.add_required_resource(w)
    b = ps.NonConcurrentBuffer(name="B1", initial_level=10)
    ps.TaskStartAt(task=t1, value=5)
    ps.TaskUnloadBuffer(task=t1, buffer=b, quantity=3)
    return pb, {}


def s2():
    pb = ps.SchedulingProblem(name="S2NonConcurrentMixed", horizon=12)
    t1 = ps.FixedDurationTask(name="t1", duration=3)
    t2 = ps.FixedDurationTask(name="t2", duration=2)
    z = ps.ZeroDurationTask(name="z0")
    w1 = ps.Worker(name="w1")
    w2 = ps.Worker(name="w2")
    t1.add_required_resource(w1)
    t2.add_required_resources([w1, w2])
    z.add_required_resource(w2)
    b = ps.NonConcurrentBuffer(name="B1", initial_level=0, lower_bound=0, upper_bound=9)
    ps.TaskStartAt(task=t1, value=0)
    ps.TaskStartAt(task=t2, value=6)
    ps.TaskStartAt(task=z, value=4)
    ps.TaskLoadBuffer(task=t1, buffer=b, quantity=5)
    ps.TaskLoadBuffer(task=z, buffer=b, quantity=2)
    ps.TaskUnloadBuffer(task=t2, buffer=b, quantity=7)
    return pb, {}


def s3():
    pb = ps.SchedulingProblem(name="S3ConcurrentSameTime")
    ts = [ps.FixedDurationTask(name=f"t{i}", duration=3 + i) for i in range(3)]
    b = ps.ConcurrentBuffer(name="B1", initial_level=100)
    for t, q in zip(ts, (23, 39, 17)):
        ps.TaskStartAt(task=t, value=7)
        ps.TaskUnloadBuffer(task=t, buffer=b, quantity=q)
    return pb, {}


def s4():
    pb = ps.SchedulingProblem(name="S4ConcurrentLoadUnload", horizon=14)
    t1 = ps.FixedDurationTask(name="t1", duration=3)
    t2 = ps.FixedDurationTask(name="t2", duration=4)
    t3 = ps.VariableDurationTask(name="t3", min_duration=1, max_duration=2)
    w = ps.SelectWorkers(list_of_workers=[ps.Worker(name="wa"), ps.Worker(name="wb")], nb_workers_to_select=1)
    t1.add_required_resource(w)
    t3.add_required_resource(ps.Worker(name="wc"))
    b = ps.ConcurrentBuffer(name="B1", initial_level=20, final_level=16)
    ps.TaskStartAt(task=t1, value=2)
    ps.TaskStartAt(task=t2, value=5)
    ps.TaskEndAt(task=t3, value=9)
    ps.TaskUnloadBuffer(task=t1, buffer=b, quantity=6)
    ps.TaskUnloadBuffer(task=t2, buffer=b, quantity=3)
    ps.TaskLoadBuffer(task=t3, buffer=b, quantity=5)
    return pb, {}


def s5():
    pb = ps.SchedulingProblem(name="S5TwoBuffersOptional", horizon=15)
    t1 = ps.FixedDurationTask(name="t1", duration=3)
    t2 = ps.FixedDurationTask(name="t2", duration=2, optional=True)
    w = ps.Worker(name="w1")
    t1.add_required_resource(w)
    t2.add_required_resource(w)
    b1 = ps.NonConcurrentBuffer(name="B1", initial_level=10)
    b2 = ps.NonConcurrentBuffer(name="B2", initial_level=0)
    ps.TaskStartAt(task=t1, value=5)
    ps.TaskUnloadBuffer(task=t1, buffer=b1, quantity=3)
    ps.TaskLoadBuffer(task=t1, buffer=b2, quantity=2)
    ps.TaskUnloadBuffer(task=t2, buffer=b1, quantity=1)
    ps.OptionalTaskForceSchedule(task=t2, to_be_scheduled=False)
    return pb, {}


def s6():
    pb = ps.SchedulingProblem(name="S6ContiguousNonDelayIdle", horizon=12)
    ts = [
        ps.FixedDurationTask(name="t0", duration=2),
        ps.FixedDurationTask(name="t1", duration=1),
        ps.FixedDurationTask(name="t2", duration=3),
    ]
    w = ps.Worker(name="w1")
    for t in ts:
        t.add_required_resource(w)
    z = ps.ZeroDurationTask(name="marker")
    z.add_required_resource(ps.Worker(name="w2"))
    ps.TaskStartAt(task=z, value=0)
    ps.TasksContiguous(list_of_tasks=ts)
    ps.ResourceNonDelay(resource=w)
    ps.IndicatorResourceIdle(resource=w)
    ps.TaskStartAt(task=ts[0], value=1)
    return pb, {}


def s7():
    pb = ps.SchedulingProblem(name="S7SingleTaskSorts", horizon=6)
    t = ps.FixedDurationTask(name="only", duration=2)
    w = ps.Worker(name="w1")
    t.add_required_resource(w)
    ps.TasksContiguous(list_of_tasks=[t])
    ps.ResourceNonDelay(resource=w)
    ps.IndicatorResourceIdle(resource=w)
    return pb, {}


def s9():
    pb = ps.SchedulingProblem(name="S9TasksDistance", horizon=10)
    t1 = ps.FixedDurationTask(name="t1", duration=2)
    t2 = ps.FixedDurationTask(name="t2", duration=3, optional=True)
    w = ps.Worker(name="w1")
    t1.add_required_resource(w)
    t2.add_required_resource(w)
    ps.ResourceTasksDistance(resource=w, distance=2, mode="exact")
    b = ps.ConcurrentBuffer(name="Bc", initial_level=3)
    ps.TaskLoadBuffer(task=t1, buffer=b, quantity=1)
    ps.TaskLoadBuffer(task=t2, buffer=b, quantity=1)
    ps.OptionalTaskForceSchedule(task=t2, to_be_scheduled=True)
    return pb, {}


def s8():
    pb = ps.SchedulingProblem(name="S8EmptyBufferDebug", horizon=6)
    t = ps.FixedDurationTask(name="t1", duration=2)
    ps.NonConcurrentBuffer(name="Bn", initial_level=4)
    ps.ConcurrentBuffer(name="Bc", initial_level=0)
    ps.TaskStartAt(task=t, value=0)
    return pb, {"debug": True}


for title, build in [
    ("S1 non concurrent buffer, one unloading task, one worker", s1),
    ("S2 non concurrent buffer, loads/unload, zero duration task, bounds", s2),
    ("S3 concurrent buffer, three tasks unload at the same instant", s3),
    ("S4 concurrent buffer, load + unload, select workers, variable duration", s4),
    ("S5 two buffers, optional unscheduled task", s5),
    ("S6 contiguous tasks + non delay + idle indicator (sort_no_duplicates), zero length marker at 0", s6),
    ("S7 single task: sorts of one value", s7),
    ("S8 buffers without any task (sorts of zero values), debug mode", s8),
    ("S9 resource tasks distance + concurrent buffer loaded by an optional task", s9),
]:
    run(title, build)

# ---------------------------------------------------------------- direct calls
print("=" * 70)
print("direct calls")


def describe(result):
    values, assertions = result
    return ([str(v) for v in values], [re.sub(r"\s+", " ", str(a)) for a in assertions])


for n in range(0, 5):
    variables = [z3.Int(f"v{i}") for i in range(n)]
    for fn in (sort_no_duplicates, sort_duplicates):
        print(" ", fn.__name__, n, describe(fn(variables)))
        print("    input untouched:", [str(v) for v in variables])

# check the sorts really sort (model values)
for fn, vals in ((sort_no_duplicates, [5, 1, 3]), (sort_duplicates, [4, 4, 0, 2])):
    variables = [z3.Int(f"m{i}") for i in range(len(vals))]
    out, assertions = fn(variables)
    s = z3.Solver()
    s.add(assertions)
    s.add([v == k for v, k in zip(variables, vals)])
    print(" ", fn.__name__, vals, s.check(), [s.model()[o].as_long() for o in out])

for fn in (sort_no_duplicates, sort_duplicates):
    for bad in (None, 3, (z3.Int("a"), z3.Int("b")), {z3.Int("a")}, "ab", [1, 2], [z3.Int("a"), "s"]):
        try:
            print(" ", fn.__name__, repr(bad), "->", describe(fn(bad)))
        except Exception as exc:  # pylint: disable=broad-except
            print(" ", fn.__name__, repr(bad), "raised", type(exc).__name__, exc)
