"""Equivalence script for the C16 twin (round 4).

Exercises util.clean_buffer_levels, BaseModelWithJson.to_json / to_json_file and
SchedulingProblem.add_from_json / add_from_json_file, directly and through the
solver (buffer levels of solutions, JSON / CSV exports), and prints a canonical
description of every outcome.  uuid-derived name parts are masked.
"""
import os
import sys

sys.path.insert(0, os.getcwd())

import copy
import json
import re
import tempfile
import warnings

warnings.filterwarnings("ignore")

import processscheduler as ps
from processscheduler.util import clean_buffer_levels

assert ps.__file__.startswith(os.getcwd()), ps.__file__

TMP = tempfile.mkdtemp(prefix="c16_equiv_")


def mask(text):
    text = re.sub(r"_[0-9]{20,}", "_<UUID>", str(text))  # full uuid4().int
    text = re.sub(r"_[0-9a-f]{8}\b", "_<UID>", text)
    text = re.sub(r"[0-9]+\.[0-9]+s\b", "<T>s", text)  # timings printed by the solver
    text = text.replace(TMP, "<TMP>")
    return text


class MaskedStdout:
    """masks the random / timing parts of everything printed (solver included)"""

    def __init__(self, stream):
        self._stream = stream
        self._pending = ""

    def write(self, text):
        self._pending += text
        while "\n" in self._pending:
            line, self._pending = self._pending.split("\n", 1)
            self._stream.write(mask(line) + "\n")
        return len(text)

    def flush(self):
        if self._pending:
            self._stream.write(mask(self._pending))
            self._pending = ""
        self._stream.flush()


sys.stdout = MaskedStdout(sys.stdout)


def outcome(label, func):
    try:
        res = func()
        print(mask(f"[{label}] OK {res!r}"))
    except BaseException as exc:  # noqa
        print(
            mask(
                f"[{label}] ERR {type(exc).__name__}: {exc} "
                f"| context={type(exc.__context__).__name__} cause={type(exc.__cause__).__name__}"
            )
        )


def section(title):
    print("=" * 10, title)


# ----------------------------------------------------------------------------
section("1. clean_buffer_levels, direct calls (result + state of the inputs)")


def call_clean(levels, times):
    levels_in = copy.deepcopy(levels)
    times_in = copy.deepcopy(times)
    res = clean_buffer_levels(levels_in, times_in)
    return (
        res,
        "levels_after",
        levels_in,
        "times_after",
        times_in,
        "types",
        type(res).__name__,
        [type(r).__name__ for r in res],
    )


CLEAN_CASES = [
    ([100, 21, 21, 21], [7, 7, 7]),
    ([10], []),
    ([0, 0], [0]),
    ([10, 7, 5], [5, 10]),
    ([10, 7, 5, 4], [5, 10, 5]),
    ([10, 7, 5, 4, 3], [5, 5, 0, 0]),
    ([0, 1, 2, 3, 4, 5], [3, 2, 3, 2, 1]),
    ([5, -3, -3, 8], [0, 0, 2]),
    ([1.5, 2.5, 3.5], [1, 1.0]),
    ([1, 2, 3], [True, 1]),
    ([1, 2, 3], [float("nan"), float("nan")]),
    (["a", "b", "c"], ["x", "x"]),
    ([1, 2, 3], [[1], [1]]),
    ([1, 2, 3], (4, 4)),
    # errors
    ([1, 2, 3], [1, 2, 3]),
    ([], []),
    ([1], [1]),
    ([1, 2, 3], []),
    ((1, 2, 3), [1, 2]),
    ([1, 2], None),
    (None, [1]),
    ([1, 2, 3], "ab"),
]
for i, (lv, tm) in enumerate(CLEAN_CASES):
    outcome(f"clean {i} {lv!r} {tm!r}", lambda: call_clean(lv, tm))

# the same nan object twice (identity shortcut of `in` / count)
NAN = float("nan")
outcome("clean same-nan", lambda: clean_buffer_levels([1, 2, 3], [NAN, NAN]))


# ----------------------------------------------------------------------------
section("2. add_from_json: known types, unknown types, malformed input")
pb = ps.SchedulingProblem(name="AddFromJson")


def add_json(js):
    obj = pb.add_from_json(js)
    return type(obj).__name__, obj.to_json(compact=True)


JSON_CASES = [
    '{"name": "W2", "type": "Worker", "productivity": 1}',
    '{"name": "W0", "type": "Worker", "productivity": 0}',
    '{"name": "FT", "type": "FixedDurationTask", "duration": 3}',
    '{"name": "FT0", "type": "FixedDurationTask", "duration": 0}',
    '{"name": "FTo", "type": "FixedDurationTask", "duration": 2, "optional": true, "priority": 4}',
    '{"name": "ZT", "type": "ZeroDurationTask"}',
    '{"name": "VT", "type": "VariableDurationTask", "min_duration": 0, "max_duration": 5}',
    '{"name": "CW", "type": "CumulativeWorker", "size": 3}',
    '{"name": "CW1", "type": "CumulativeWorker", "size": 1}',
    # duplicate name
    '{"name": "FT", "type": "FixedDurationTask", "duration": 3}',
    # invalid field / missing field
    '{"name": "FTx", "type": "FixedDurationTask"}',
    '{"name": "FTy", "type": "FixedDurationTask", "duration": 3, "foo": 1}',
    '{"name": "FTz", "type": "FixedDurationTask", "duration": -1}',
    # unknown types
    '{"name": "W2", "type": "ClassThatDoesNotExist", "productivity": 1}',
    '{"name": "x", "type": "worker"}',
    '{"name": "x", "type": ""}',
    '{"name": "x", "type": null}',
    '{"name": "x", "type": 0}',
    '{"name": "x", "type": 1.5}',
    '{"name": "x", "type": false}',
    '{"name": "x", "type": "SchedulingProblem"}',
    '{"name": "x", "type": "NonConcurrentBuffer"}',
    # unhashable type value
    '{"name": "x", "type": ["Worker"]}',
    '{"name": "x", "type": {"a": 1}}',
    # no type key / not a dict / not json
    '{"name": "x"}',
    "[]",
    '["type"]',
    '"type"',
    "12",
    "null",
    "",
    "{not json",
]
for i, js in enumerate(JSON_CASES):
    outcome(f"add_from_json {i} {js}", lambda: add_json(js))
outcome("add_from_json None", lambda: add_json(None))
outcome("add_from_json bytes", lambda: add_json(b'{"name": "Wb", "type": "Worker"}'))
outcome("add_from_json dict", lambda: add_json({"name": "Wb", "type": "Worker"}))
print("problem tasks", sorted(pb.tasks), "workers", sorted(pb.workers), "cumulative", sorted(pb.cumulative_workers))


# ----------------------------------------------------------------------------
section("3. to_json / to_json_file / add_from_json_file round trips")
pb3 = ps.SchedulingProblem(name="RoundTrip", horizon=20)
objs = [
    ps.FixedDurationTask(name="rt_fixed", duration=3, priority=2, work_amount=0),
    ps.FixedDurationTask(name="rt_fixed_opt", duration=1, optional=True, due_date=7),
    ps.ZeroDurationTask(name="rt_zero"),
    ps.VariableDurationTask(name="rt_var", min_duration=0, max_duration=4, allowed_durations=[2, 4]),
    ps.Worker(name="rt_worker", productivity=0),
    ps.Worker(name="rt_worker_cost", productivity=2, cost=ps.LinearFunction(slope=2, intercept=0)),
    ps.Worker(name="rt_worker_poly", cost=ps.PolynomialFunction(coefficients=[1, 0, 3])),
    ps.CumulativeWorker(name="rt_cumul", size=2),
    ps.ConstantFunction(name="rt_const", value=0),
    ps.LinearFunction(name="rt_lin", slope=0, intercept=5),
    ps.PolynomialFunction(name="rt_poly", coefficients=[2, 0, 1]),
]
for obj in objs:
    for compact in (False, True, 0, 1, None, "", "yes", []):
        outcome(f"to_json {obj.name} compact={compact!r}", lambda: obj.to_json(compact))
    outcome(f"to_json {obj.name} default", lambda: obj.to_json())
    outcome(f"to_json {obj.name} kw", lambda: obj.to_json(compact=True))

    def to_file(compact, tag):
        fn = os.path.join(TMP, f"{obj.name}_{tag}.json")
        ret = obj.to_json_file(fn, compact) if compact is not None else obj.to_json_file(fn)
        with open(fn) as f:
            content = f.read()
        return ret, type(ret).__name__, content

    outcome(f"to_json_file {obj.name} default", lambda: to_file(None, "d"))
    outcome(f"to_json_file {obj.name} compact", lambda: to_file(True, "c"))
    outcome(f"to_json_file {obj.name} kwcompact", lambda: obj.to_json_file(filename=os.path.join(TMP, "kw.json"), compact=True))

# files read back into a fresh problem (names must be free)
for tag in ("d", "c"):
    pb_back = ps.SchedulingProblem(name="ReadBack" + tag)
    for obj in objs:
        fn = os.path.join(TMP, f"{obj.name}_{tag}.json")

        def read_back():
            o = pb_back.add_from_json_file(fn)
            return type(o).__name__, o.to_json(True)

        outcome(f"add_from_json_file {obj.name} {tag}", read_back)
    print("read back tasks", sorted(pb_back.tasks), "workers", sorted(pb_back.workers))

pb_err = ps.SchedulingProblem(name="FileErrors")
outcome("add_from_json_file missing", lambda: pb_err.add_from_json_file(os.path.join(TMP, "nope.json")))
outcome("add_from_json_file dir", lambda: pb_err.add_from_json_file(TMP))
outcome("add_from_json_file None", lambda: pb_err.add_from_json_file(None))
with open(os.path.join(TMP, "empty.json"), "w") as f:
    pass
outcome("add_from_json_file empty", lambda: pb_err.add_from_json_file(os.path.join(TMP, "empty.json")))
with open(os.path.join(TMP, "unknown.json"), "w") as f:
    f.write('{"name": "u", "type": "Unknown"}')
outcome("add_from_json_file unknown", lambda: pb_err.add_from_json_file(os.path.join(TMP, "unknown.json")))
t_err = ps.FixedDurationTask(name="t_err", duration=1)
outcome("to_json_file bad dir", lambda: t_err.to_json_file(os.path.join(TMP, "no_dir", "x.json")))
outcome("to_json_file dir", lambda: t_err.to_json_file(TMP))
outcome("to_json_file None", lambda: t_err.to_json_file(None))


# a to_json that fails: the file is opened (created, empty) before the failure
class Boom(ps.FixedDurationTask):
    def to_json(self, compact=False):
        raise RuntimeError(f"boom compact={compact!r}")


boom = Boom(name="boom", duration=1)
boom_fn = os.path.join(TMP, "boom.json")
outcome("to_json_file failing to_json", lambda: boom.to_json_file(boom_fn, True))
print("boom file exists", os.path.isfile(boom_fn), "size", os.path.getsize(boom_fn) if os.path.isfile(boom_fn) else None)


# a to_json override receiving the flag positionally
class Spy(ps.FixedDurationTask):
    def to_json(self, *args, **kwargs):
        return f"args={args!r} kwargs={kwargs!r}"


spy = Spy(name="spy", duration=1)
spy_fn = os.path.join(TMP, "spy.json")
outcome("to_json_file spy", lambda: (spy.to_json_file(spy_fn, "flag"), open(spy_fn).read()))
outcome("to_json_file spy default", lambda: (spy.to_json_file(spy_fn), open(spy_fn).read()))


# ----------------------------------------------------------------------------
def describe_solution(solution, tag):
    if not solution:
        print(f"[{tag}] no solution: {solution!r}")
        return
    for name in sorted(solution.tasks):
        t = solution.tasks[name]
        print(
            f"[{tag}] task {name} start={t.start} end={t.end} dur={t.duration} "
            f"sched={t.scheduled} res={sorted(t.assigned_resources)}"
        )
    for name in sorted(solution.resources):
        print(f"[{tag}] resource {name} {sorted(solution.resources[name].assignments)}")
    for name in sorted(solution.buffers):
        b = solution.buffers[name]
        print(f"[{tag}] buffer {name} level={b.level} times={b.level_change_times}")
    for name in sorted(solution.indicators):
        print(f"[{tag}] indicator {name} = {solution.indicators[name]}")
    js = solution.to_json()
    print(mask(f"[{tag}] solution json: {js}"))
    print(mask(f"[{tag}] solution json compact: {solution.to_json(compact=True)}"))
    fn = os.path.join(TMP, f"{tag}_solution.json")
    print(f"[{tag}] solution to_json_file ->", solution.to_json_file(fn))
    with open(fn) as f:
        print(f"[{tag}] file == to_json():", f.read() == js)
    print(f"[{tag}] json parses, tasks:", sorted(json.loads(js)["tasks"]))
    print(mask(f"[{tag}] csv: {solution.to_csv()!r}"))


def describe_problem(pb, solver, tag):
    outcome(f"{tag} problem json compact", lambda: pb.to_json(compact=True))
    fn = os.path.join(TMP, f"{tag}_problem.json")
    outcome(f"{tag} problem to_json_file", lambda: pb.to_json_file(fn))

    def file_matches():
        with open(fn) as f:
            content = f.read()
        return len(content), content == pb.to_json()

    outcome(f"{tag} problem file == to_json()", file_matches)
    assertions = sorted(mask(" ".join(str(a).split())) for a in solver._solver.assertions())
    print(f"[{tag}] {len(assertions)} solver assertions")
    for a in assertions:
        print(f"[{tag}]   {a}")


def solve_and_describe(pb, tag, **solver_kw):
    solver = ps.SchedulingSolver(problem=pb, random_values=False, **solver_kw)
    solution = solver.solve()
    describe_problem(pb, solver, tag)
    describe_solution(solution, tag)


section("4. one buffer, one unloading task (start 5)")
pb = ps.SchedulingProblem(name="P4")
t1 = ps.FixedDurationTask(name="task1", duration=3)
buf = ps.NonConcurrentBuffer(name="Buffer1", initial_level=10)
ps.TaskStartAt(task=t1, value=5)
ps.TaskUnloadBuffer(task=t1, buffer=buf, quantity=3)
solve_and_describe(pb, "P4")

section("5. concurrent buffer, three tasks unloading at the same instant 0 (duplicates)")
pb = ps.SchedulingProblem(name="P5", horizon=6)
buf = ps.ConcurrentBuffer(name="BufferC", initial_level=0, lower_bound=-20)
tasks = [ps.FixedDurationTask(name=f"task{i}", duration=2) for i in range(3)]
for i, t in enumerate(tasks):
    ps.TaskStartAt(task=t, value=0)
    ps.TaskUnloadBuffer(task=t, buffer=buf, quantity=i + 1)
solve_and_describe(pb, "P5")

section("6. concurrent buffer: two loads at time 4 (same end), one unload at 1, final level")
pb = ps.SchedulingProblem(name="P6", horizon=10)
buf = ps.ConcurrentBuffer(name="BufferC", initial_level=5)
ta = ps.FixedDurationTask(name="ta", duration=4)
tb = ps.FixedDurationTask(name="tb", duration=2)
tc = ps.FixedDurationTask(name="tc", duration=1)
ps.TaskStartAt(task=ta, value=0)
ps.TaskStartAt(task=tb, value=2)
ps.TaskStartAt(task=tc, value=1)
ps.TaskLoadBuffer(task=ta, buffer=buf, quantity=3)
ps.TaskLoadBuffer(task=tb, buffer=buf, quantity=2)
ps.TaskUnloadBuffer(task=tc, buffer=buf, quantity=5)
solve_and_describe(pb, "P6")

section("7. two buffers fed by the same tasks, workers, optional task, indicators")
pb = ps.SchedulingProblem(name="P7", horizon=12)
b1 = ps.NonConcurrentBuffer(name="Buffer1", initial_level=10)
b2 = ps.NonConcurrentBuffer(name="Buffer2", initial_level=0)
w1 = ps.Worker(name="W1", cost=ps.ConstantFunction(value=3))
w2 = ps.Worker(name="W2", productivity=0)
t1 = ps.FixedDurationTask(name="t1", duration=3)
t2 = ps.FixedDurationTask(name="t2", duration=2)
t3 = ps.FixedDurationTask(name="t3", duration=2, optional=True)
tz = ps.ZeroDurationTask(name="tz")
t1.add_required_resource(w1)
t2.add_required_resources([w1, w2])
t3.add_required_resource(w2)
ps.TaskStartAt(task=t1, value=0)
ps.TaskStartAt(task=t2, value=4)
ps.TaskStartAt(task=tz, value=0)
ps.OptionalTaskConditionSchedule(task=t3, condition=t1._start > 100)
ps.TaskUnloadBuffer(task=t1, buffer=b1, quantity=3)
ps.TaskLoadBuffer(task=t1, buffer=b2, quantity=2)
ps.TaskUnloadBuffer(task=t2, buffer=b1, quantity=0)
ps.TaskLoadBuffer(task=t2, buffer=b2, quantity=7)
ps.IndicatorResourceCost(list_of_resources=[w1])
ps.IndicatorResourceUtilization(resource=w1)
solve_and_describe(pb, "P7")

section("8. select workers, variable duration, cumulative worker, no buffer")
pb = ps.SchedulingProblem(name="P8", horizon=9)
wa = ps.Worker(name="WA", productivity=2, cost=ps.LinearFunction(slope=1, intercept=0))
wb = ps.Worker(name="WB", productivity=1)
cw = ps.CumulativeWorker(name="CW", size=2)
v1 = ps.VariableDurationTask(name="v1", work_amount=6)
f1 = ps.FixedDurationTask(name="f1", duration=3)
f2 = ps.FixedDurationTask(name="f2", duration=3)
v1.add_required_resource(ps.SelectWorkers(list_of_workers=[wa, wb], nb_workers_to_select=1, kind="exact"))
f1.add_required_resource(cw)
f2.add_required_resource(cw)
ps.TaskStartAt(task=v1, value=0)
ps.TaskStartAt(task=f1, value=1)
ps.TaskStartAt(task=f2, value=2)
ps.TaskEndAt(task=v1, value=3)
solve_and_describe(pb, "P8")

section("9. unsatisfiable buffer problem (lower bound violated)")
pb = ps.SchedulingProblem(name="P9", horizon=5)
buf = ps.NonConcurrentBuffer(name="Buffer1", initial_level=2, lower_bound=0)
t1 = ps.FixedDurationTask(name="t1", duration=1)
ps.TaskUnloadBuffer(task=t1, buffer=buf, quantity=3)
solve_and_describe(pb, "P9")

section("10. buffer defined by its final level only, unload at time 0")
pb = ps.SchedulingProblem(name="P10", horizon=6)
buf = ps.NonConcurrentBuffer(name="BufferF", final_level=0)
t1 = ps.FixedDurationTask(name="t1", duration=2)
t2 = ps.FixedDurationTask(name="t2", duration=2)
ps.TaskStartAt(task=t1, value=0)
ps.TaskStartAt(task=t2, value=3)
ps.TaskUnloadBuffer(task=t1, buffer=buf, quantity=4)
ps.TaskUnloadBuffer(task=t2, buffer=buf, quantity=1)
solve_and_describe(pb, "P10")

sys.stdout.flush()
