"""Equivalence script for the refactoring of Task.set_assertions, TaskStartAt and
ForceScheduleNOptionalTasks. Prints a canonical description of each case."""
import os
import re
import sys

sys.path.insert(0, os.getcwd())

import z3

import processscheduler as ps


class _MaskTimings:
    """The solver prints elapsed times: they are masked (the only noisy part)."""

    def __init__(self, stream):
        self._stream = stream

    def write(self, text):
        return self._stream.write(re.sub(r"\d+\.\d+\s?s\b", "<TIME>s", text))

    def flush(self):
        self._stream.flush()


sys.stdout = _MaskTimings(sys.stdout)
import processscheduler.base


def mask(text):
    # uuids / long integers in names
    return re.sub(r"\d{12,}", "<ID>", text)


def describe_object(obj):
    return sorted(mask(str(a)) for a in obj.get_z3_assertions())


def describe_solution(solution):
    if not solution:
        return "NO SOLUTION"
    out = []
    for name in sorted(solution.tasks):
        t = solution.tasks[name]
        out.append(f"{name}: scheduled={t.scheduled} start={t.start} end={t.end}")
    return out


def solver_assertions(pb, **kw):
    solver = ps.SchedulingSolver(problem=pb, **kw)
    solver.initialize()
    return sorted(mask(str(a)) for a in solver._solver.assertions())


def show(title, value):
    print(f"--- {title}")
    if isinstance(value, (list, tuple)):
        for v in value:
            print("   ", v)
    else:
        print("   ", value)


def case(fn):
    print(f"===== {fn.__name__}")
    try:
        fn()
    except Exception as exc:  # the error is part of the canonical description
        print(f"    ERROR {type(exc).__name__}: {mask(str(exc))}")
    return fn


# 1. mandatory tasks of the three kinds, release/due dates incl. 0
@case
def mandatory_tasks():
    pb = ps.SchedulingProblem(name="c1", horizon=20)
    t1 = ps.FixedDurationTask(name="f1", duration=3, release_date=0, due_date=10)
    t2 = ps.ZeroDurationTask(name="z1", release_date=2)
    t3 = ps.VariableDurationTask(
        name="v1", min_duration=0, max_duration=5, allowed_durations=[1, 4], due_date=9
    )
    t4 = ps.FixedDurationTask(
        name="f2", duration=1, due_date=4, due_date_is_deadline=False
    )
    for t in (t1, t2, t3, t4):
        show(t.name + " scheduled flag", repr(t._scheduled))
        show(t.name, describe_object(t))
    show("counter", pb._unique_integer)
    ps.TaskStartAt(task=t1, value=0)
    ps.TaskStartAt(task=t3, value=5)
    show("solver assertions", solver_assertions(pb))
    show("solution", describe_solution(ps.SchedulingSolver(problem=pb).solve()))


# 2. optional tasks of the three kinds: parking points from the shared counter
@case
def optional_tasks():
    pb = ps.SchedulingProblem(name="c2", horizon=20)
    w1 = ps.Worker(name="w1")
    w2 = ps.Worker(name="w2")
    t1 = ps.FixedDurationTask(name="f1", duration=3, optional=True, release_date=1)
    sel = ps.SelectWorkers(list_of_workers=[w1, w2], nb_workers_to_select=1)
    t1.add_required_resource(sel)
    t2 = ps.ZeroDurationTask(name="z1", optional=True, due_date=0)
    t3 = ps.VariableDurationTask(
        name="v1", optional=True, min_duration=2, allowed_durations=[2, 3]
    )
    t4 = ps.VariableDurationTask(name="v2", optional=True)
    for t in (t1, t2, t3, t4):
        show(t.name + " scheduled flag", repr(t._scheduled))
        show(t.name, describe_object(t))
    show("counter", pb._unique_integer)
    show("solver assertions", solver_assertions(pb))


# 3. TaskStartAt on mandatory / optional task, int 0, z3 expression, optional constraint
@case
def task_start_at_variants():
    pb = ps.SchedulingProblem(name="c3", horizon=15)
    t1 = ps.FixedDurationTask(name="m1", duration=2)
    t2 = ps.FixedDurationTask(name="o1", duration=2, optional=True)
    t3 = ps.VariableDurationTask(name="v1", min_duration=1)
    c1 = ps.TaskStartAt(task=t1, value=0)
    c2 = ps.TaskStartAt(task=t2, value=7)
    c3 = ps.TaskStartAt(task=t3, value=t1._end + 1)
    c4 = ps.TaskStartAt(task=t2, value=3, optional=True)
    c5 = ps.TaskStartAt(task=t1, value=4, optional=True)
    for c in (c1, c2, c3, c4, c5):
        show(type(c).__name__, describe_object(c))
    ps.OptionalTaskForceSchedule(task=t2, to_be_scheduled=True)
    ps.ForceApplyNOptionalConstraints(
        list_of_optional_constraints=[c4, c5], nb_constraints_to_apply=0 + 1, kind="max"
    )
    show("solver assertions", solver_assertions(pb))
    show("solution", describe_solution(ps.SchedulingSolver(problem=pb).solve()))


# 4. TaskStartAt that cannot hold: unsat, and optional task left unscheduled
@case
def task_start_at_conflicts():
    pb = ps.SchedulingProblem(name="c4", horizon=5)
    t1 = ps.FixedDurationTask(name="m1", duration=2)
    ps.TaskStartAt(task=t1, value=4)
    show("solution", describe_solution(ps.SchedulingSolver(problem=pb).solve()))

    pb = ps.SchedulingProblem(name="c4b", horizon=5)
    t1 = ps.FixedDurationTask(name="o1", duration=2, optional=True)
    t2 = ps.VariableDurationTask(name="ov", optional=True, min_duration=1)
    ps.TaskStartAt(task=t1, value=4)
    ps.TaskStartAt(task=t2, value=0)
    ps.OptionalTaskForceSchedule(task=t2, to_be_scheduled=True)
    show("solution", describe_solution(ps.SchedulingSolver(problem=pb).solve()))

    # the same assertion twice in one constraint object is refused
    pb = ps.SchedulingProblem(name="c4c", horizon=5)
    t1 = ps.FixedDurationTask(name="m1", duration=2)
    c = ps.TaskStartAt(task=t1, value=1)
    c.set_z3_assertions(t1._start == 1)


# 5. ForceScheduleNOptionalTasks: the three kinds, default values, solutions
@case
def force_schedule_n_kinds():
    for kind, n in (("min", 2), ("max", 1), ("exact", 2), (None, None)):
        pb = ps.SchedulingProblem(name=f"c5_{kind}", horizon=10)
        tasks = [
            ps.FixedDurationTask(name=f"o{i}", duration=i + 1, optional=True)
            for i in range(3)
        ]
        tasks.append(ps.VariableDurationTask(name="ov", optional=True, min_duration=1))
        if kind is None:
            c = ps.ForceScheduleNOptionalTasks(list_of_optional_tasks=tasks)
        else:
            c = ps.ForceScheduleNOptionalTasks(
                list_of_optional_tasks=tasks, nb_tasks_to_schedule=n, kind=kind
            )
        show(f"kind={kind} n={n}", describe_object(c))
        ps.TaskStartAt(task=tasks[0], value=0)
        ps.TaskStartAt(task=tasks[3], value=2)
        show("solver assertions", solver_assertions(pb))
        sol = ps.SchedulingSolver(problem=pb).solve()
        show("solution", describe_solution(sol))
        if sol:
            show(
                "nb scheduled",
                sum(1 for t in sol.tasks.values() if t.scheduled),
            )


# 6. ForceScheduleNOptionalTasks: optional constraint, empty list, single task
@case
def force_schedule_n_edges():
    pb = ps.SchedulingProblem(name="c6", horizon=10)
    t1 = ps.FixedDurationTask(name="o1", duration=1, optional=True)
    t2 = ps.ZeroDurationTask(name="o2", optional=True)
    c1 = ps.ForceScheduleNOptionalTasks(
        list_of_optional_tasks=[t1, t2], nb_tasks_to_schedule=2, kind="min", optional=True
    )
    show("optional constraint", describe_object(c1))
    c2 = ps.ForceScheduleNOptionalTasks(list_of_optional_tasks=[t1], kind="max")
    show("single task", describe_object(c2))
    c3 = ps.ForceScheduleNOptionalTasks(list_of_optional_tasks=[], kind="min")
    show("empty list", describe_object(c3))


# 7. ForceScheduleNOptionalTasks errors
def _err(label, fn):
    try:
        fn()
        print(f"--- {label}\n    no error")
    except Exception as exc:
        first = mask(str(exc)).splitlines()
        print(f"--- {label}\n    ERROR {type(exc).__name__}: {first[0] if first else ''}")
        for line in first[1:4]:
            print("      ", line)


@case
def force_schedule_n_errors():
    pb = ps.SchedulingProblem(name="c7", horizon=10)
    o1 = ps.FixedDurationTask(name="o1", duration=1, optional=True)
    m1 = ps.FixedDurationTask(name="m1", duration=1)
    m2 = ps.FixedDurationTask(name="m2", duration=1)
    nb_before = len(pb.constraints)
    _err(
        "mandatory last",
        lambda: ps.ForceScheduleNOptionalTasks(list_of_optional_tasks=[o1, m1]),
    )
    _err(
        "mandatory first",
        lambda: ps.ForceScheduleNOptionalTasks(
            list_of_optional_tasks=[m2, o1, m1], kind="max"
        ),
    )
    _err(
        "n = 0",
        lambda: ps.ForceScheduleNOptionalTasks(
            list_of_optional_tasks=[o1], nb_tasks_to_schedule=0
        ),
    )
    _err(
        "wrong kind",
        lambda: ps.ForceScheduleNOptionalTasks(
            list_of_optional_tasks=[o1], kind="foo"
        ),
    )
    show("constraints registered by failed constructors", len(pb.constraints) - nb_before)
    for c in list(pb.constraints.values())[nb_before:]:
        show(type(c).__name__, describe_object(c))


# 8. task errors: no active problem, duplicate assertion in a mandatory task
@case
def task_errors():
    saved = processscheduler.base.active_problem
    processscheduler.base.active_problem = None
    _err("no problem", lambda: ps.FixedDurationTask(name="x", duration=1))
    processscheduler.base.active_problem = saved

    pb = ps.SchedulingProblem(name="c8", horizon=10)
    t = ps.FixedDurationTask(name="m1", duration=1)
    _err("duplicate, mandatory", lambda: t.set_assertions([t._start >= 0]))
    show("after duplicate", describe_object(t))
    a, b = t._start <= 8, t._start <= 9
    _err("partial append", lambda: t.set_assertions([a, b, a]))
    show("after partial", describe_object(t))
    o = ps.FixedDurationTask(name="o1", duration=1, optional=True)
    before = pb._unique_integer
    _err("second call, optional", lambda: o.set_assertions([o._start >= 1]))
    show("after second call", describe_object(o))
    show("counter moved by", pb._unique_integer - before)
    show("return value", repr(o.set_assertions([o._start >= 2])))
    show("return value mandatory", repr(t.set_assertions([t._start <= 7])))


# 9. a mixed problem solved to the end, with an objective
@case
def mixed_problem():
    pb = ps.SchedulingProblem(name="c9", horizon=12)
    w = ps.Worker(name="w")
    tasks = [
        ps.FixedDurationTask(name=f"t{i}", duration=2, optional=(i % 2 == 0))
        for i in range(4)
    ]
    for t in tasks:
        t.add_required_resource(w)
    ps.TaskStartAt(task=tasks[1], value=0)
    ps.TaskStartAt(task=tasks[0], value=6)
    ps.TaskStartAt(task=tasks[2], value=6)
    ps.ForceScheduleNOptionalTasks(
        list_of_optional_tasks=[tasks[0], tasks[2]], nb_tasks_to_schedule=1, kind="min"
    )
    ps.ObjectiveMinimizeMakespan()
    show("solver assertions", solver_assertions(pb))
    show("solution", describe_solution(ps.SchedulingSolver(problem=pb).solve()))
