"""Equivalence script for the C18 twin: exercises SchedulingProblem.add_* (duplicate
name rejection, storage order, return values) and resource._distribute_p_over_n /
CumulativeWorker creation. Prints a canonical description of every outcome."""
import contextlib
import io
import os
import re
import sys

sys.path.insert(0, os.getcwd())

import z3  # noqa: E402
import processscheduler as ps  # noqa: E402
import processscheduler.base as psbase  # noqa: E402
from processscheduler.resource import _distribute_p_over_n  # noqa: E402
from processscheduler.function import ConstantFunction  # noqa: E402

assert ps.__file__.startswith(os.getcwd()), ps.__file__

_UID = re.compile(r"\d{8,}")
_HEX = re.compile(r"0x[0-9a-f]+")


def mask(text):
    return _HEX.sub("<HEX>", _UID.sub("<UID>", str(text)))


def attempt(label, func):
    try:
        res = func()
        print(f"  {label}: OK -> {mask(describe(res))}")
        return res
    except BaseException as exc:  # noqa
        msg = mask(exc).splitlines()
        # pydantic messages end with a url line depending on the version only
        print(f"  {label}: {type(exc).__name__}: {' | '.join(msg)}")
        return None


def describe(obj):
    if obj is None or isinstance(obj, (int, float, bool, str, list, tuple)):
        return repr(obj)
    return f"{type(obj).__name__}({getattr(obj, 'name', '?')})"


def dump_problem(pb):
    print("  tasks:", [mask(k) for k in pb.tasks], [type(t).__name__ for t in pb.tasks.values()])
    print("  workers:", [mask(k) for k in pb.workers])
    print("  select_workers:", [mask(k) for k in pb.select_workers])
    print("  cumulative_workers:", list(pb.cumulative_workers))
    print("  constraints:", [mask(k) for k in pb.constraints])
    print("  indicators:", [mask(k) for k in pb.indicators])
    print("  objectives:", [mask(k) for k in pb.objectives])
    print("  buffers:", [b.name for b in pb.buffers])
    for k, v in pb.tasks.items():
        assert v.name == k
    for k, v in pb.workers.items():
        assert v.name == k


def solve_and_dump(pb, **kw):
    with contextlib.redirect_stdout(io.StringIO()):
        solver = ps.SchedulingSolver(problem=pb, **kw)
        solver.initialize()
    assts = sorted(mask(a) for a in solver._solver.assertions())
    print(f"  {len(assts)} solver assertions")
    for a in assts:
        print("    " + " ".join(a.split()))
    with contextlib.redirect_stdout(io.StringIO()):  # timings are printed
        sol = solver.solve()
    if not sol:
        print("  solution: NONE")
        return
    print("  horizon:", sol.horizon)
    for name in sorted(sol.tasks):
        t = sol.tasks[name]
        print(
            f"   task {mask(name)}: scheduled={t.scheduled} start={t.start} end={t.end} "
            f"res={sorted(t.assigned_resources)}"
        )
    for name in sorted(sol.indicators):
        print(f"   indicator {mask(name)}: {sol.indicators[name]}")


def section(title):
    print()
    print("=" * 8, title)


# ---------------------------------------------------------------- 0
section("P0 elements created before any problem")
psbase.active_problem = None
attempt("task/no problem", lambda: ps.FixedDurationTask(name="t", duration=1))
attempt("zero task/no problem", lambda: ps.ZeroDurationTask(name="t"))
attempt("var task/no problem", lambda: ps.VariableDurationTask(name="t"))
attempt("worker/no problem", lambda: ps.Worker(name="w"))
attempt("cumulative/no problem", lambda: ps.CumulativeWorker(name="cw", size=2))
attempt("buffer/no problem", lambda: ps.NonConcurrentBuffer(name="b", initial_level=1))

# ---------------------------------------------------------------- 1
section("P1 duplicate names for every kind of element")
pb = ps.SchedulingProblem(name="P1", horizon=10)
t1 = attempt("task T1", lambda: ps.FixedDurationTask(name="T1", duration=2))
attempt("task T1 again (fixed)", lambda: ps.FixedDurationTask(name="T1", duration=3))
attempt("task T1 again (zero)", lambda: ps.ZeroDurationTask(name="T1"))
attempt("task T1 again (variable)", lambda: ps.VariableDurationTask(name="T1"))
t2 = attempt("task T2 optional", lambda: ps.FixedDurationTask(name="T2", duration=1, optional=True))
attempt("add_task return", lambda: pb.add_task(ps.FixedDurationTask.model_construct(name="raw")))
attempt("add_task return dup", lambda: pb.add_task(ps.FixedDurationTask.model_construct(name="raw")))
w1 = attempt("worker W1", lambda: ps.Worker(name="W1"))
attempt("worker W1 again", lambda: ps.Worker(name="W1", productivity=3))
w2 = attempt("worker W2", lambda: ps.Worker(name="W2", productivity=0))
attempt("worker named like a task", lambda: ps.Worker(name="T1"))
attempt("add_resource_worker return", lambda: pb.add_resource_worker(ps.Worker.model_construct(name="rawW")))
sw = attempt("select SW", lambda: ps.SelectWorkers(name="SW", list_of_workers=[w1, w2]))
attempt("select SW again", lambda: ps.SelectWorkers(name="SW", list_of_workers=[w1, w2], kind="min"))
attempt("select named W1", lambda: ps.SelectWorkers(name="W1", list_of_workers=[w1, w2], kind="max"))
attempt("select too many", lambda: ps.SelectWorkers(name="SW3", list_of_workers=[w1, w2], nb_workers_to_select=3))
attempt("select one worker", lambda: ps.SelectWorkers(name="SW4", list_of_workers=[w1]))
cw = attempt("cumulative CW", lambda: ps.CumulativeWorker(name="CW", size=2))
attempt("cumulative CW again", lambda: ps.CumulativeWorker(name="CW", size=3))
attempt("cumulative named W1", lambda: ps.CumulativeWorker(name="W1", size=2))
attempt("cumulative size 1", lambda: ps.CumulativeWorker(name="CW1", size=1))
attempt("cumulative size 0", lambda: ps.CumulativeWorker(name="CW0", size=0))
c1 = attempt("constraint C1", lambda: ps.TaskStartAt(name="C1", task=t1, value=0))
attempt("constraint C1 again", lambda: ps.TaskEndAt(name="C1", task=t1, value=5))
attempt("constraint C1 again (resource)", lambda: ps.SameWorkers(name="C1", select_workers_1=sw, select_workers_2=sw))
attempt("constraint named T1", lambda: ps.TaskEndBefore(name="T1", task=t1, value=9))
attempt("force schedule mandatory", lambda: ps.OptionalTaskForceSchedule(name="OF", task=t1, to_be_scheduled=True))
attempt("force schedule optional", lambda: ps.OptionalTaskForceSchedule(name="OF2", task=t2, to_be_scheduled=True))
attempt("force schedule mandatory, name reused OF", lambda: ps.OptionalTaskForceSchedule(name="OF", task=t2, to_be_scheduled=True))
i1 = attempt("indicator I1", lambda: ps.IndicatorFromMathExpression(name="I1", expression=t1._end))
attempt("indicator I1 again", lambda: ps.IndicatorFromMathExpression(name="I1", expression=t1._start))
attempt("add_indicator return", lambda: pb.add_indicator(i1))
o1 = attempt("objective O1", lambda: ps.ObjectiveMinimizeIndicator(name="O1", target=i1, weight=1))
attempt("objective O1 again", lambda: ps.ObjectiveMaximizeIndicator(name="O1", target=i1, weight=2))
attempt("objective makespan", lambda: ps.ObjectiveMinimizeMakespan())
attempt("objective makespan again", lambda: ps.ObjectiveMinimizeMakespan())
b1 = attempt("buffer B1", lambda: ps.NonConcurrentBuffer(name="B1", initial_level=3))
attempt("buffer B1 again", lambda: ps.ConcurrentBuffer(name="B1", final_level=0))
attempt("buffer no level", lambda: ps.NonConcurrentBuffer(name="B2"))
attempt("buffer B3", lambda: ps.ConcurrentBuffer(name="B3", final_level=0))
dump_problem(pb)

# ---------------------------------------------------------------- 2
section("P2 a second problem accepts the names used by the first one")
pb2 = ps.SchedulingProblem(name="P2", horizon=8)
a = attempt("task T1", lambda: ps.FixedDurationTask(name="T1", duration=2))
b = attempt("task T2", lambda: ps.VariableDurationTask(name="T2", min_duration=0, max_duration=3, work_amount=2))
w = attempt("worker W1", lambda: ps.Worker(name="W1", productivity=1))
a.add_required_resource(w)
b.add_required_resource(w)
attempt("constraint C1", lambda: ps.TaskPrecedence(name="C1", task_before=a, task_after=b))
attempt("constraint C1 dup", lambda: ps.TaskPrecedence(name="C1", task_before=b, task_after=a))
attempt("distance", lambda: ps.ResourceTasksDistance(name="D", resource=w, distance=1, mode="min"))
attempt("objective makespan", lambda: ps.ObjectiveMinimizeMakespan())
dump_problem(pb2)
solve_and_dump(pb2)

# ---------------------------------------------------------------- 3
section("P3 _distribute_p_over_n")
for p in [None, 0, 1, 2, 5, 7, 10, -1, -7, True, False, 2.5, "3", [1]]:
    for n in [2, 3, 4, 1, 7]:
        attempt(f"p={p!r} n={n}", lambda p=p, n=n: _distribute_p_over_n(p, n))
pb3 = ps.SchedulingProblem(name="P3")
for v in [0, 1, 7, 9, 2.5, 7.0, -3]:
    for n in [2, 3, 5]:
        attempt(
            f"ConstantFunction({v}) n={n}",
            lambda v=v, n=n: _distribute_p_over_n(ConstantFunction(value=v), n),
        )
attempt("n=0 int", lambda: _distribute_p_over_n(3, 0))
attempt("n=0 None", lambda: _distribute_p_over_n(None, 0))
attempt("n=-1 int", lambda: _distribute_p_over_n(3, -1))
attempt("n=-1 None", lambda: _distribute_p_over_n(None, -1))
attempt("linear function", lambda: _distribute_p_over_n(ps.LinearFunction(slope=1, intercept=2), 2))

# ---------------------------------------------------------------- 4
section("P4 cumulative workers: productivities and costs of the elementary workers")
pb4 = ps.SchedulingProblem(name="P4", horizon=12)


def show_cumulative(cw):
    if cw is None:
        return
    for ew in cw._cumulative_workers:
        print(f"    {ew.name}: productivity={ew.productivity} cost={ew.cost.value if ew.cost is not None else None}")


show_cumulative(attempt("CA size2 default", lambda: ps.CumulativeWorker(name="CA", size=2)))
show_cumulative(attempt("CB size3 prod7", lambda: ps.CumulativeWorker(name="CB", size=3, productivity=7)))
show_cumulative(attempt("CC size4 prod2 cost10", lambda: ps.CumulativeWorker(name="CC", size=4, productivity=2, cost=ConstantFunction(value=10))))
show_cumulative(attempt("CD size3 cost 2.5", lambda: ps.CumulativeWorker(name="CD", size=3, cost=ConstantFunction(value=2.5))))
attempt("CE linear cost", lambda: ps.CumulativeWorker(name="CE", size=2, cost=ps.LinearFunction(slope=1, intercept=1)))
attempt("CF prod 0", lambda: ps.CumulativeWorker(name="CF", size=2, productivity=0))
attempt("CB again", lambda: ps.CumulativeWorker(name="CB", size=2))
attempt("worker clashing with elementary name", lambda: ps.Worker(name="CA_CumulativeWorker_1"))
ps.Worker(name="CG_CumulativeWorker_2")
attempt("cumulative whose elementary name is taken", lambda: ps.CumulativeWorker(name="CG", size=2))
dump_problem(pb4)

# ---------------------------------------------------------------- 5
section("P5 solve with cumulative worker, optional task, work amount")
pb5 = ps.SchedulingProblem(name="P5", horizon=10)
cw5 = ps.CumulativeWorker(name="M", size=2, productivity=3, cost=ConstantFunction(value=5))
ta = ps.FixedDurationTask(name="A", duration=3)
tb = ps.FixedDurationTask(name="B", duration=2, optional=True, priority=0)
tc = ps.VariableDurationTask(name="C", work_amount=4, min_duration=0)
for t in (ta, tb, tc):
    t.add_required_resource(cw5)
attempt("dup task", lambda: ps.FixedDurationTask(name="A", duration=1))
attempt("neg work amount", lambda: ps.FixedDurationTask(name="NW", duration=1, work_amount=-1))
attempt("zero duration fixed", lambda: ps.FixedDurationTask(name="ZD", duration=0))
attempt("neg priority", lambda: ps.FixedDurationTask(name="NP", duration=1, priority=-1))
attempt("neg min duration", lambda: ps.VariableDurationTask(name="NM", min_duration=-1))
ps.OptionalTaskForceSchedule(task=tb, to_be_scheduled=True, name="forceB")
ps.TaskStartAt(task=ta, value=0, name="A0")
ps.IndicatorResourceCost(list_of_resources=[cw5], name="costM")
ps.ObjectiveMinimizeMakespan()
dump_problem(pb5)
solve_and_dump(pb5)

# ---------------------------------------------------------------- 6
section("P6 optional constraints, force apply, resource constraint on unassigned resource")
pb6 = ps.SchedulingProblem(name="P6", horizon=6)
x = ps.FixedDurationTask(name="X", duration=2)
y = ps.FixedDurationTask(name="Y", duration=2, optional=True)
wk = ps.Worker(name="K")
attempt("unavailable on unassigned worker", lambda: ps.ResourceUnavailable(name="U", resource=wk, list_of_time_intervals=[(0, 1)]))
attempt("distance on unassigned worker", lambda: ps.ResourceTasksDistance(name="RD", resource=wk, distance=1))
x.add_required_resource(wk)
y.add_required_resource(wk)
attempt("unavailable name reused after failure", lambda: ps.ResourceUnavailable(name="U", resource=wk, list_of_time_intervals=[(0, 1)]))
attempt("unavailable fresh name", lambda: ps.ResourceUnavailable(name="U2", resource=wk, list_of_time_intervals=[(0, 1)]))
oc1 = ps.TaskStartAt(name="oc1", task=x, value=1, optional=True)
oc2 = ps.TaskStartAt(name="oc2", task=x, value=3, optional=True)
mc = ps.TaskEndBefore(name="mc", task=x, value=6)
attempt("force apply over mandatory", lambda: ps.ForceApplyNOptionalConstraints(name="FA", list_of_optional_constraints=[oc1, mc]))
attempt("force apply ok", lambda: ps.ForceApplyNOptionalConstraints(name="FA2", list_of_optional_constraints=[oc1, oc2], nb_constraints_to_apply=1))
attempt("force apply dup name", lambda: ps.ForceApplyNOptionalConstraints(name="FA2", list_of_optional_constraints=[oc1, oc2]))
attempt("force schedule N over mandatory", lambda: ps.ForceScheduleNOptionalTasks(name="FS", list_of_optional_tasks=[x, y]))
attempt("force schedule N ok", lambda: ps.ForceScheduleNOptionalTasks(name="FS2", list_of_optional_tasks=[y], nb_tasks_to_schedule=1))
attempt("condition on mandatory", lambda: ps.OptionalTaskConditionSchedule(name="OC", task=x, condition=x._start > 1))
attempt("dependency on mandatory", lambda: ps.OptionalTasksDependency(name="OD", task_1=y, task_2=x))
attempt("dependency ok", lambda: ps.OptionalTasksDependency(name="OD2", task_1=x, task_2=y))
dump_problem(pb6)
solve_and_dump(pb6)

# ---------------------------------------------------------------- 7
section("P7 auto-generated names and json round trip")
pb7 = ps.SchedulingProblem(name="P7", horizon=5)
n1 = ps.FixedDurationTask(duration=1)
n2 = ps.FixedDurationTask(duration=1)
print("  distinct auto names:", n1.name != n2.name, mask(n1.name))
wj = ps.Worker(name="WJ", productivity=2)
attempt("from json new", lambda: pb7.add_from_json('{"name": "WJ2", "type": "Worker", "productivity": 1}'))
attempt("from json unknown type", lambda: pb7.add_from_json('{"name": "Z", "type": "Nope"}'))
dump_problem(pb7)
solve_and_dump(pb7)
