"""Equivalence script for the C13 twin (create_objective / _solve_optimize_incremental).

Run from the worktree:  cd /tmp/t4_C13 && /venv/bin/python _twin/equiv.py
Prints, for a collection of small problems and sequences of solver calls, a
canonical description of every outcome (solution values, sorted assertions,
declared z3 objectives, number of open scopes, console output, warnings,
errors).  Timings and uuids are masked.
"""
import contextlib
import io
import os
import re
import sys
import tempfile
import warnings

sys.path.insert(0, os.getcwd())

import z3  # noqa: E402
import processscheduler as ps  # noqa: E402

assert os.path.abspath(ps.__file__).startswith(os.getcwd()), ps.__file__


def mask(text):
    text = re.sub(r"\d+\.\d+s", "<T>s", text)
    text = re.sub(r"asst_[0-9a-f]{8}", "asst_<ID>", text)
    return text


def normalise_console(lines):
    """debug mode only: the z3 statistics (memory, allocations: process wide
    counters) are dropped and the model dump, the order of which depends on
    the random uuid names of the tracked assertions, is sorted"""
    out, section, model_lines = [], None, []
    for line in lines:
        if line.startswith("Solver statistics:"):
            section = "stats"
            out.append(line + " <dropped>")
        elif line.startswith("Solution:"):
            section = "model"
            out.append(line + " <sorted>")
        elif section == "stats" and line[:1] in ("\t", " "):
            continue
        elif section == "model" and line.strip().startswith("-> "):
            model_lines.append(line)
        else:
            if model_lines:
                out.extend(sorted(model_lines))
                model_lines = []
            section = None
            out.append(line)
    out.extend(sorted(model_lines))
    return out


def describe_solution(sol):
    if not sol:
        return repr(sol)
    parts = [f"horizon={sol.horizon}"]
    for name in sorted(sol.tasks):
        t = sol.tasks[name]
        parts.append(
            f"{name}:[{t.start},{t.end}] sched={t.scheduled} res={sorted(t.assigned_resources)}"
        )
    for name in sorted(sol.indicators):
        parts.append(f"{name}={sol.indicators[name]}")
    for name in sorted(sol.buffers):
        b = sol.buffers[name]
        parts.append(f"{name}: level={b.level} times={b.level_change_times}")
    return "; ".join(parts)


def describe_state(solver):
    s = solver._solver
    if s is None:
        return "solver not created"
    out = []
    assts = sorted(mask(str(a)) for a in s.assertions())
    out.append(f"  n_assertions={len(assts)}")
    for a in assts:
        out.append("    | " + a.replace("\n", " "))
    if isinstance(s, z3.Optimize):
        out.append("  z3 objectives: " + str([str(o) for o in s.objectives()]))
    else:
        out.append(f"  num_scopes={s.num_scopes()}")
    out.append(
        "  _objective="
        + (
            "None"
            if solver._objective is None
            else f"{solver._objective.name}/{solver._objective.kind}/{solver._objective._target}/{solver._objective._bounds}"
        )
    )
    out.append(f"  problem objectives={sorted(solver.problem.objectives)}")
    out.append(f"  problem indicators={sorted(solver.problem.indicators)}")
    return "\n".join(out)


def call(label, fn, *args, full_state=None, **kwargs):
    """run fn, print the outcome, the console output and the warnings"""
    buf = io.StringIO()
    with warnings.catch_warnings(record=True) as caught:
        warnings.simplefilter("always")
        with contextlib.redirect_stdout(buf):
            try:
                res = fn(*args, **kwargs)
                outcome = (
                    describe_solution(res)
                    if not isinstance(res, (tuple, dict, str, type(None)))
                    else repr(res)[:300]
                )
            except Exception as exc:  # pylint: disable=broad-except
                outcome = f"ERROR {type(exc).__name__}: {exc}"
    print(f"* {label} -> {outcome}")
    for line in normalise_console(mask(buf.getvalue()).splitlines()):
        print("    > " + line)
    for w in caught:
        print("    ! " + " ".join(str(w.message).split()))
    if full_state is not None:
        print(describe_state(full_state))


def header(title):
    print()
    print("=" * 70)
    print(title)
    print("=" * 70)


# ---------------------------------------------------------------------------
def two_tasks_problem(name, horizon=20):
    pb = ps.SchedulingProblem(name=name, horizon=horizon)
    t1 = ps.FixedDurationTask(name="task1", duration=3)
    t2 = ps.FixedDurationTask(name="task2", duration=3)
    ps.ConstraintFromExpression(expression=t1._end == horizon - t2._start)
    i1 = ps.IndicatorFromMathExpression(name="Task1End", expression=t1._end)
    i2 = ps.IndicatorFromMathExpression(name="Task2Start", expression=t2._start)
    return pb, t1, t2, i1, i2


def scenario_no_objective():
    header("S1 no objective, mandatory tasks, tiny horizon: solve x2, another x5")
    pb = ps.SchedulingProblem(name="S1", horizon=4)
    a = ps.FixedDurationTask(name="A", duration=2)
    b = ps.FixedDurationTask(name="B", duration=2)
    w = ps.Worker(name="W")
    a.add_required_resource(w)
    b.add_required_resource(w)
    solver = ps.SchedulingSolver(problem=pb)
    call("initialize", solver.initialize, full_state=solver)
    call("solve", solver.solve)
    call("solve again", solver.solve, full_state=solver)
    for k in range(4):
        call(f"find_another_solution {k}", solver.find_another_solution)
    call("solve after exhaustion", solver.solve, full_state=solver)


def scenario_single_incremental_min():
    header("S2 single objective, incremental, minimize makespan, optional task")
    pb = ps.SchedulingProblem(name="S2")
    a = ps.FixedDurationTask(name="A", duration=2)
    b = ps.FixedDurationTask(name="B", duration=3)
    c = ps.FixedDurationTask(name="C", duration=1, optional=True)
    w = ps.Worker(name="W")
    for t in (a, b, c):
        t.add_required_resource(w)
    ps.TaskPrecedence(task_before=a, task_after=b)
    ps.ObjectiveMinimizeMakespan()
    solver = ps.SchedulingSolver(problem=pb)
    call("solve", solver.solve, full_state=solver)
    call("solve again", solver.solve, full_state=solver)
    call("find_another_solution", solver.find_another_solution)
    call("find_another_solution", solver.find_another_solution, full_state=solver)
    call(
        "find_another_solution_for_variable",
        solver.find_another_solution_for_variable,
        a._start,
        full_state=solver,
    )


def scenario_single_incremental_max_bounded():
    header("S3 single objective, incremental, maximize, indicator bounds reached")
    for bounds in (None, (0, 17), (0, 10), (0, 0)):
        pb = ps.SchedulingProblem(name=f"S3_{bounds}", horizon=20)
        t1 = ps.FixedDurationTask(name="task1", duration=3)
        extra = {} if bounds is None else {"bounds": bounds}
        ind = ps.IndicatorFromMathExpression(
            name="Task1Start", expression=t1._start, **extra
        )
        ps.ObjectiveMaximizeIndicator(name="MaxStart", target=ind)
        solver = ps.SchedulingSolver(problem=pb)
        call(f"bounds={bounds} solve", solver.solve)
        call(f"bounds={bounds} solve again", solver.solve, full_state=solver)
        call(f"bounds={bounds} another", solver.find_another_solution)
    # minimise, with the lower bound
    for bounds in (None, (0, 20), (3, 20)):
        pb = ps.SchedulingProblem(name=f"S3min_{bounds}", horizon=20)
        t1 = ps.FixedDurationTask(name="task1", duration=3)
        extra = {} if bounds is None else {"bounds": bounds}
        ind = ps.IndicatorFromMathExpression(
            name="Task1End", expression=t1._end, **extra
        )
        ps.ObjectiveMinimizeIndicator(name="MinEnd", target=ind)
        solver = ps.SchedulingSolver(problem=pb)
        call(f"min bounds={bounds} solve", solver.solve)
        call(f"min bounds={bounds} solve again", solver.solve, full_state=solver)


def scenario_single_optimize():
    header("S4 single objective, builtin optimizer, min and max")
    for kind in ("maximize", "minimize"):
        pb, t1, t2, i1, i2 = two_tasks_problem(f"S4_{kind}")
        ps.Objective(name="Obj", target=i1, kind=kind)
        solver = ps.SchedulingSolver(problem=pb, optimizer="optimize")
        call(f"{kind} initialize", solver.initialize, full_state=solver)
        call(f"{kind} solve", solver.solve)
        call(f"{kind} solve again", solver.solve)
        call(f"{kind} another", solver.find_another_solution, full_state=solver)


def scenario_multi_incremental():
    header("S5 multi objective, incremental (equivalent weighted objective)")
    for w1, w2, k in ((1, 2, "max"), (1, 1, "max"), (0, 3, "max"), (2, 1, "min")):
        pb, t1, t2, i1, i2 = two_tasks_problem(f"S5_{w1}_{w2}_{k}")
        if k == "max":
            ps.ObjectiveMaximizeIndicator(name="O1", target=i1, weight=w1)
            ps.ObjectiveMaximizeIndicator(name="O2", target=i2, weight=w2)
        else:
            ps.ObjectiveMinimizeIndicator(name="O1", target=i1, weight=w1)
            ps.ObjectiveMinimizeIndicator(name="O2", target=i2, weight=w2)
        solver = ps.SchedulingSolver(problem=pb)
        call(f"w=({w1},{w2}) {k} solve", solver.solve, full_state=solver)
        call(f"w=({w1},{w2}) {k} solve again", solver.solve)
        call(
            f"w=({w1},{w2}) {k} another",
            solver.find_another_solution,
            full_state=solver,
        )


def scenario_multi_optimize():
    header("S6 multi objective, builtin optimizer, every priority")
    for priority in ("pareto", "lex", "box", "weight"):
        pb, t1, t2, i1, i2 = two_tasks_problem(f"S6_{priority}")
        ps.ObjectiveMaximizeIndicator(name="O1", target=i1, weight=1)
        ps.ObjectiveMinimizeIndicator(name="O2", target=i2, weight=2)
        solver = ps.SchedulingSolver(
            problem=pb, optimizer="optimize", optimize_priority=priority
        )
        call(f"{priority} initialize", solver.initialize, full_state=solver)
        n = 25 if priority == "pareto" else 2
        for k in range(n):
            call(f"{priority} solve {k}", solver.solve)
        call(f"{priority} another", solver.find_another_solution, full_state=solver)
    # mixed kinds in weight mode (the equivalent objective takes the last kind)
    pb, t1, t2, i1, i2 = two_tasks_problem("S6_weight_mixed")
    ps.ObjectiveMinimizeIndicator(name="O1", target=i1, weight=1)
    ps.ObjectiveMaximizeIndicator(name="O2", target=i2, weight=3)
    solver = ps.SchedulingSolver(
        problem=pb, optimizer="optimize", optimize_priority="weight"
    )
    call("weight mixed solve", solver.solve, full_state=solver)
    call("weight mixed solve again", solver.solve)


def scenario_infeasible():
    header("S7 infeasible problems: no false positive, repeated failure")
    for optimizer in ("incremental", "optimize"):
        pb = ps.SchedulingProblem(name=f"S7_{optimizer}", horizon=4)
        a = ps.FixedDurationTask(name="A", duration=3)
        b = ps.FixedDurationTask(name="B", duration=3)
        w = ps.Worker(name="W")
        a.add_required_resource(w)
        b.add_required_resource(w)
        ps.ObjectiveMinimizeMakespan()
        solver = ps.SchedulingSolver(problem=pb, optimizer=optimizer)
        call(f"{optimizer} solve", solver.solve)
        call(f"{optimizer} solve again", solver.solve, full_state=solver)
        call(f"{optimizer} another (no model)", solver.find_another_solution)


def scenario_max_iter():
    header("S8 max_iter edge values: 0, 1, 2, 3, None")
    for max_iter in (0, 1, 2, 3, None):
        pb = ps.SchedulingProblem(name=f"S8_{max_iter}", horizon=10)
        a = ps.FixedDurationTask(name="A", duration=2)
        ind = ps.IndicatorFromMathExpression(name="AStart", expression=a._start)
        ps.ObjectiveMaximizeIndicator(name="MaxAStart", target=ind)
        extra = {} if max_iter is None else {"max_iter": max_iter}
        solver = ps.SchedulingSolver(problem=pb, **extra)
        call(f"max_iter={max_iter} solve", solver.solve)
        call(f"max_iter={max_iter} solve again", solver.solve, full_state=solver)
        call(f"max_iter={max_iter} another", solver.find_another_solution)


def scenario_export_and_mixed_order():
    header("S9 export first, then solve, export again; buffers; logics")
    for optimizer in ("incremental", "optimize"):
        pb = ps.SchedulingProblem(name=f"S9_{optimizer}", horizon=12)
        a = ps.FixedDurationTask(name="A", duration=2)
        b = ps.FixedDurationTask(name="B", duration=2)
        c = ps.VariableDurationTask(name="C", min_duration=0, max_duration=3)
        buf = ps.NonConcurrentBuffer(name="Buf", initial_level=5, lower_bound=0)
        buf.add_unloading_task(a, 3)
        buf.add_loading_task(b, 2)
        ps.ObjectiveMaximizeIndicator(
            name="MaxAStart",
            target=ps.IndicatorFromMathExpression(name="AStart", expression=a._start),
        )
        solver = ps.SchedulingSolver(problem=pb, optimizer=optimizer)
        with tempfile.TemporaryDirectory() as tmp:
            f1 = os.path.join(tmp, "one.smt2")
            f2 = os.path.join(tmp, "two.smt2")
            call(f"{optimizer} export", solver.export_to_smt2, f1)
            call(f"{optimizer} solve", solver.solve)
            call(f"{optimizer} export again", solver.export_to_smt2, f2)
            same = open(f1).read() == open(f2).read()
            print(f"  exports identical before/after solve: {same}")
            print("  smt2 sha:", hash_text(open(f2).read()))
        call(f"{optimizer} solve again", solver.solve)
        call(f"{optimizer} another", solver.find_another_solution, full_state=solver)
    # a given logics
    pb = ps.SchedulingProblem(name="S9_logics", horizon=8)
    a = ps.FixedDurationTask(name="A", duration=2)
    ps.ObjectiveMinimizeMakespan()
    solver = ps.SchedulingSolver(problem=pb, logics="QF_IDL")
    call("logics solve", solver.solve)
    call("logics solve again", solver.solve, full_state=solver)


def hash_text(text):
    import hashlib

    return hashlib.sha1(text.encode()).hexdigest()


def scenario_direct_calls():
    header("S10 direct calls of create_objective and odd attribute values")
    # no objective: create_objective called by hand
    pb = ps.SchedulingProblem(name="S10_none", horizon=5)
    ps.FixedDurationTask(name="A", duration=2)
    solver = ps.SchedulingSolver(problem=pb)
    call("no objective initialize", solver.initialize)
    call("no objective create_objective", solver.create_objective, full_state=solver)

    # optimizer attribute set to an unsupported value after construction
    for n_obj in (1, 2):
        for priority in ("pareto", "weight"):
            pb, t1, t2, i1, i2 = two_tasks_problem(f"S10_{n_obj}_{priority}")
            ps.ObjectiveMaximizeIndicator(name="O1", target=i1)
            if n_obj == 2:
                ps.ObjectiveMaximizeIndicator(name="O2", target=i2)
            solver = ps.SchedulingSolver(problem=pb, optimize_priority=priority)
            solver.optimizer = "other"
            call(f"odd optimizer n={n_obj} {priority} solve", solver.solve)
            print(describe_state(solver))

    # objective kind changed after construction to an unsupported value
    for optimizer in ("incremental", "optimize"):
        pb, t1, t2, i1, i2 = two_tasks_problem(f"S10_kind_{optimizer}")
        obj = ps.ObjectiveMaximizeIndicator(name="O1", target=i1)
        obj.kind = "nothing"
        solver = ps.SchedulingSolver(problem=pb, optimizer=optimizer)
        call(f"odd kind {optimizer} solve", solver.solve, full_state=solver)
        call(f"odd kind {optimizer} solve again", solver.solve)

    # create_objective called twice (second equivalent objective)
    pb, t1, t2, i1, i2 = two_tasks_problem("S10_twice")
    ps.ObjectiveMaximizeIndicator(name="O1", target=i1)
    ps.ObjectiveMaximizeIndicator(name="O2", target=i2)
    solver = ps.SchedulingSolver(problem=pb)
    call("twice initialize", solver.initialize)
    call("twice create_objective", solver.create_objective, full_state=solver)
    call("twice solve", solver.solve)


def scenario_debug():
    header("S11 debug mode (assert_and_track), incremental and infeasible")
    pb = ps.SchedulingProblem(name="S11", horizon=10)
    a = ps.FixedDurationTask(name="A", duration=2)
    b = ps.FixedDurationTask(name="B", duration=2, optional=True)
    ps.TaskStartAt(task=a, value=1)
    ps.ObjectiveMinimizeMakespan()
    solver = ps.SchedulingSolver(problem=pb, debug=True, verbosity=0)
    z3.set_option("verbose", 0)
    call("debug solve", solver.solve)
    call("debug solve again", solver.solve)
    call("debug another", solver.find_another_solution, full_state=solver)

    pb = ps.SchedulingProblem(name="S11_unsat", horizon=3)
    a = ps.FixedDurationTask(name="A", duration=2)
    ps.TaskStartAt(task=a, value=2)
    ps.ObjectiveMinimizeMakespan()
    solver = ps.SchedulingSolver(problem=pb, debug=True)
    z3.set_option("verbose", 0)
    call("debug unsat solve", solver.solve)
    call("debug unsat solve again", solver.solve)
    # leave z3 global options in the regular state
    ps.SchedulingSolver(problem=pb)


def scenario_save_states():
    header("S12 save_intermediate_states, max_time small")
    pb = ps.SchedulingProblem(name="S12", horizon=6)
    a = ps.FixedDurationTask(name="A", duration=2)
    ind = ps.IndicatorFromMathExpression(name="AStart", expression=a._start)
    ps.ObjectiveMaximizeIndicator(name="MaxAStart", target=ind)
    with tempfile.TemporaryDirectory() as tmp:
        solver = ps.SchedulingSolver(
            problem=pb, save_intermediate_states=True, save_intermediate_states_path=tmp
        )
        call("save states solve", solver.solve)
        print("  files:", sorted(os.listdir(tmp)))
        call("save states solve again", solver.solve, full_state=solver)


if __name__ == "__main__":
    scenario_no_objective()
    scenario_single_incremental_min()
    scenario_single_incremental_max_bounded()
    scenario_single_optimize()
    scenario_multi_incremental()
    scenario_multi_optimize()
    scenario_infeasible()
    scenario_max_iter()
    scenario_export_and_mixed_order()
    scenario_direct_calls()
    scenario_save_states()
    scenario_debug()
