"""Equivalence witness for the refactoring of Task.set_assertions and
SchedulingSolver.build_solution (+ helper _duration_in_model).

Run from the worktree root:  /venv/bin/python _twin/equiv.py
Prints, for every scenario, a canonical description of the outcome: the list of
the assertions each task stores (in order), the sorted list of the solver's
assertions, the dumped task solutions and the horizon - or the error raised.
"""
import contextlib
import io
import os
import re
import sys
import warnings
from datetime import datetime, timedelta

sys.path.insert(0, os.getcwd())
warnings.simplefilter("ignore")  # pydantic serializer warnings (timedelta in a datetime field)

import z3  # noqa: E402
import processscheduler as ps  # noqa: E402
import processscheduler.base  # noqa: E402

assert os.path.dirname(os.path.abspath(ps.__file__)).startswith(os.getcwd()), ps.__file__

MASK = re.compile(r"(?<=_)\d{6,}\b")


def mask(text):
    return MASK.sub("<UID>", text)


def describe(problem, **solver_args):
    lines = []
    for task in problem.tasks.values():
        lines.append(f"task {task.name} scheduled-flag={task._scheduled!r}")
        for asst in task.get_z3_assertions():
            lines.append("   own: " + " ".join(str(asst).split()))
    lines.append(f"negative counter now: {problem.get_unique_negative_integer()}")
    solver = ps.SchedulingSolver(problem=problem, **solver_args)
    sink = io.StringIO()
    with contextlib.redirect_stdout(sink):
        solution = solver.solve()
    for text in sorted(" ".join(str(a).split()) for a in solver._solver.assertions()):
        lines.append("   solver: " + text)
    if not solution:
        lines.append("NO SOLUTION")
        return lines
    lines.append(f"horizon={solution.horizon}")
    for name in sorted(solution.tasks):
        dumped = solution.tasks[name].model_dump()
        lines.append(f"   {name}: " + repr(sorted(dumped.items(), key=lambda kv: kv[0])))
        # the property itself, on what is reported
        ts = solution.tasks[name]
        if ts.scheduled and ts.type != "Bare":
            assert 0 <= ts.start and ts.end <= solution.horizon, name
            assert ts.end - ts.start == ts.duration, name
            if ts.release_date is not None:
                assert ts.start >= ts.release_date, name
            if ts.due_date is not None and ts.due_date_is_deadline:
                assert ts.end <= ts.due_date, name
    for name in sorted(solution.resources):
        lines.append(f"   res {name}: {solution.resources[name].assignments}")
    for name in sorted(solution.indicators):
        lines.append(f"   indicator {name}: {solution.indicators[name]}")
    lines.append("json: " + solution.to_json(compact=True))
    return lines


def s1_mandatory_all_kinds():
    pb = ps.SchedulingProblem(name="s1", horizon=20)
    ps.FixedDurationTask(name="f", duration=3, release_date=2, due_date=9)
    ps.FixedDurationTask(name="f0", duration=1, release_date=0, due_date=1)
    ps.ZeroDurationTask(name="z", release_date=4, due_date=4)
    ps.VariableDurationTask(name="v", min_duration=0, max_duration=5, release_date=7)
    ps.VariableDurationTask(name="va", allowed_durations=[2, 6], due_date=15)
    ps.VariableDurationTask(name="soft", min_duration=2, due_date=3, due_date_is_deadline=False)
    return describe(pb)


def s2_optional_all_kinds_some_parked():
    pb = ps.SchedulingProblem(name="s2", horizon=10)
    f = ps.FixedDurationTask(name="of", duration=4, optional=True, release_date=1, due_date=8)
    z = ps.ZeroDurationTask(name="oz", optional=True, due_date=0)
    v = ps.VariableDurationTask(
        name="ov", optional=True, min_duration=1, max_duration=3, allowed_durations=[1, 3, 7]
    )
    m = ps.FixedDurationTask(name="m", duration=2)
    ps.OptionalTaskForceSchedule(task=f, to_be_scheduled=False)
    ps.OptionalTaskForceSchedule(task=v, to_be_scheduled=False)
    ps.OptionalTaskForceSchedule(task=z, to_be_scheduled=True)
    ps.TaskStartAt(task=m, value=5)
    return describe(pb)


def s3_optional_scheduled_with_workers():
    pb = ps.SchedulingProblem(name="s3", horizon=12)
    w1, w2, w3 = (ps.Worker(name=f"w{i}", productivity=i) for i in (1, 2, 3))
    a = ps.FixedDurationTask(name="a", duration=3, optional=True, release_date=2)
    b = ps.VariableDurationTask(name="b", optional=True, work_amount=6, due_date=11)
    c = ps.VariableDurationTask(name="c", max_duration=4, work_amount=4)
    a.add_required_resource(ps.SelectWorkers(list_of_workers=[w1, w2], nb_workers_to_select=1))
    b.add_required_resource(w3)
    c.add_required_resource(w1, dynamic=True)
    c.add_required_resource(w2)
    ps.ForceScheduleNOptionalTasks(list_of_optional_tasks=[a, b], nb_tasks_to_schedule=2)
    ps.TaskPrecedence(task_before=a, task_after=b, offset=1)
    return describe(pb)


def s4_calendar_times(with_origin):
    def run():
        args = dict(name="s4", horizon=9, delta_time=timedelta(minutes=15))
        if with_origin:
            args["start_time"] = datetime(2024, 2, 29, 23, 30)
        pb = ps.SchedulingProblem(**args)
        f = ps.FixedDurationTask(name="f", duration=4, release_date=3)
        o = ps.FixedDurationTask(name="o", duration=5, optional=True)
        v = ps.VariableDurationTask(name="v", min_duration=0, max_duration=1, optional=True)
        z = ps.ZeroDurationTask(name="z", release_date=9)
        ps.OptionalTaskForceSchedule(task=o, to_be_scheduled=False)
        ps.OptionalTaskForceSchedule(task=v, to_be_scheduled=True)
        ps.TaskPrecedence(task_before=f, task_after=z)
        return describe(pb)

    return run


def s5_free_horizon_objective(optimizer):
    def run():
        pb = ps.SchedulingProblem(name="s5")
        w = ps.Worker(name="w")
        tasks = [
            ps.FixedDurationTask(name=f"t{i}", duration=i + 1, release_date=i, optional=(i == 2))
            for i in range(4)
        ]
        for t in tasks:
            t.add_required_resource(w)
        cw = ps.CumulativeWorker(name="cw", size=2)
        x = ps.VariableDurationTask(name="x", min_duration=2, due_date=6, work_amount=0)
        x.add_required_resource(cw)
        ps.ObjectiveMinimizeMakespan()
        return describe(pb, optimizer=optimizer)

    return run


def s6_buffers_and_indicator():
    pb = ps.SchedulingProblem(name="s6", horizon=15)
    t1 = ps.FixedDurationTask(name="t1", duration=3, due_date=14)
    t2 = ps.FixedDurationTask(name="t2", duration=2, release_date=1, optional=True)
    t3 = ps.ZeroDurationTask(name="t3", optional=True)
    buf = ps.NonConcurrentBuffer(name="buf", initial_level=5, lower_bound=0)
    ps.TaskUnloadBuffer(task=t1, buffer=buf, quantity=3)
    ps.TaskLoadBuffer(task=t2, buffer=buf, quantity=2)
    ps.OptionalTaskForceSchedule(task=t2, to_be_scheduled=True)
    ps.OptionalTaskConditionSchedule(task=t3, condition=t1._start > 4)
    ps.TaskStartAt(task=t1, value=6)
    ps.IndicatorFromMathExpression(name="gap", expression=t1._start - t2._end)
    return describe(pb)


def s7_infeasible_deadline():
    pb = ps.SchedulingProblem(name="s7", horizon=10)
    ps.FixedDurationTask(name="late", duration=4, release_date=5, due_date=8)
    return describe(pb)


def s8_horizon_too_small_for_mandatory_but_optional_escapes():
    pb = ps.SchedulingProblem(name="s8", horizon=2)
    ps.FixedDurationTask(name="big", duration=5, optional=True)
    ps.VariableDurationTask(name="bigv", min_duration=3, optional=True)
    ps.FixedDurationTask(name="small", duration=2)
    return describe(pb)


def e1_no_active_problem():
    processscheduler.base.active_problem = None
    ps.FixedDurationTask(name="orphan", duration=1, optional=True)


def e2_bad_parameters():
    out = []
    ps.SchedulingProblem(name="e2", horizon=5)
    for make in (
        lambda: ps.FixedDurationTask(name="d0", duration=0),
        lambda: ps.VariableDurationTask(name="neg", min_duration=-1),
        lambda: ps.ZeroDurationTask(name="zz", duration=1),
        lambda: ps.FixedDurationTask(name="opt", duration=1, optional=1),
        lambda: ps.VariableDurationTask(name="ad", allowed_durations=[0]),
    ):
        try:
            make()
            out.append("accepted")
        except Exception as exc:  # noqa: BLE001
            out.append(f"{type(exc).__name__}: {str(exc).splitlines()[0]}")
    return out


def e3_same_name_and_duplicate_assertion():
    out = []
    pb = ps.SchedulingProblem(name="e3", horizon=5)
    t = ps.FixedDurationTask(name="dup", duration=1)
    for make in (
        lambda: ps.FixedDurationTask(name="dup", duration=2, optional=True),
        lambda: t.set_assertions([t._start >= 0]),
        lambda: t.set_assertions([]),
        lambda: t.set_assertions([t._end <= 4, t._end <= 4]),
    ):
        try:
            make()
            out.append("accepted")
        except Exception as exc:  # noqa: BLE001
            out.append(f"{type(exc).__name__}: {str(exc).splitlines()[0]}")
    out.append(repr([str(a) for a in t.get_z3_assertions()]))
    out.append(f"counter: {pb.get_unique_negative_integer()}")
    # a mandatory task turned optional afterwards by a second call
    o = ps.VariableDurationTask(name="late_opt", max_duration=2)
    o.optional = True
    o.set_assertions([o._end <= 3])
    out.append(repr([" ".join(str(a).split()) for a in o.get_z3_assertions()]))
    out.extend(describe(pb))
    return out


def e4_duration_helper_on_plain_task():
    """a direct Task subclass is none of the three kinds: duration stays 0"""

    class Bare(ps.task.Task):
        pass

    pb = ps.SchedulingProblem(name="e4", horizon=4)
    b = Bare(name="bare", release_date=1, due_date=3, optional=True)
    b.set_assertions([b._start >= 0, b._end == b._start + 2])
    return describe(pb)


SCENARIOS = [
    ("s1 mandatory, all kinds, release/due edge values", s1_mandatory_all_kinds),
    ("s2 optional, all kinds, two parked", s2_optional_all_kinds_some_parked),
    ("s3 optional scheduled, workers, work amount", s3_optional_scheduled_with_workers),
    ("s4a calendar times with origin", s4_calendar_times(True)),
    ("s4b calendar times without origin", s4_calendar_times(False)),
    ("s5a free horizon, makespan, incremental", s5_free_horizon_objective("incremental")),
    ("s5b free horizon, makespan, optimize", s5_free_horizon_objective("optimize")),
    ("s6 buffers, indicator, conditional optional", s6_buffers_and_indicator),
    ("s7 infeasible deadline", s7_infeasible_deadline),
    ("s8 optional tasks escape a small horizon", s8_horizon_too_small_for_mandatory_but_optional_escapes),
    ("e1 no active problem", e1_no_active_problem),
    ("e2 rejected parameters", e2_bad_parameters),
    ("e3 duplicate name / duplicate assertion / late optional", e3_same_name_and_duplicate_assertion),
    ("e4 bare Task subclass", e4_duration_helper_on_plain_task),
]

if __name__ == "__main__":
    for title, scenario in SCENARIOS:
        print("=" * 8, title)
        try:
            result = scenario()
        except Exception as exc:  # noqa: BLE001
            result = [f"RAISED {type(exc).__name__}: {exc}"]
        for line in result or ["(nothing)"]:
            print(mask(line))
