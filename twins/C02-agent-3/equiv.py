"""Equivalence script for the C02 twin refactoring.

Run with:  cd /tmp/t4_C02 && /venv/bin/python _twin/equiv.py
Prints, for each small problem, a canonical description of the outcome:
sorted str() of the solver assertions, the verdict, the solution values,
the state of the problem registries, or the error raised.
"""
import os
import sys
import io
import re
import contextlib

sys.path.insert(0, os.getcwd())

import z3  # noqa: E402
import processscheduler as ps  # noqa: E402
import processscheduler.base  # noqa: E402

assert os.path.dirname(os.path.dirname(ps.__file__)) == os.getcwd(), ps.__file__

# the only random part of a name is the uid of a SelectWorkers
# (Selected_<worker>_<uid>, uid is a 128-bit int) and default object names
_UID = re.compile(r"\d{15,}")
_DEFNAME = re.compile(
    r"(SelectWorkers|Worker|CumulativeWorker|ConstantFunction|LinearFunction|IndicatorResourceCost)_\d{8}\b"
)


def mask(text):
    # whitespace is normalised too: where z3's pretty printer breaks a line
    # depends on the number of digits of the random uid
    text = " ".join(text.split())
    return _DEFNAME.sub(r"\1_<uid8>", _UID.sub("<uid>", text))


def describe_registries(pb):
    out = []
    out.append(
        "workers: %s" % [(n, w.productivity, mask(str(w.cost))) for n, w in pb.workers.items()]
    )
    out.append("workers keys == names: %s" % all(n == w.name for n, w in pb.workers.items()))
    out.append("select_workers: %s" % [mask(n) for n in pb.select_workers])
    out.append(
        "cumulative_workers: %s"
        % [
            (n, c.size, [w.name for w in c._cumulative_workers])
            for n, c in pb.cumulative_workers.items()
        ]
    )
    out.append("unique_integer: %s" % pb._unique_integer)
    for n, w in pb.workers.items():
        out.append(
            "busy %s: %s"
            % (n, [(t.name, str(a), str(b)) for t, (a, b) in w._busy_intervals.items()])
        )
        out.append("get_busy %s: %s" % (n, [(str(a), str(b)) for a, b in w.get_busy_intervals()]))
        gbi = w.get_busy_intervals()
        out.append(
            "get_busy fresh list %s: %s"
            % (n, isinstance(gbi, list) and gbi is not w.get_busy_intervals())
        )
    return out


def describe_solver(pb, **solver_kw):
    out = []
    solver = ps.SchedulingSolver(problem=pb, **solver_kw)
    with contextlib.redirect_stdout(io.StringIO()):
        solver.initialize()
    assts = sorted(mask(str(a)) for a in solver._solver.assertions())
    out.append("nb assertions: %d" % len(assts))
    out.extend("  A: " + " ".join(a.split()) for a in assts)
    with contextlib.redirect_stdout(io.StringIO()):
        solution = solver.solve()
    if not solution:
        out.append("solution: %r" % (solution,))
        return out
    out.append("horizon: %s" % solution.horizon)
    for name in sorted(solution.tasks):
        t = solution.tasks[name]
        out.append(
            "  task %s: start=%s end=%s dur=%s sched=%s res=%s"
            % (name, t.start, t.end, t.duration, t.scheduled, sorted(t.assigned_resources))
        )
    for name in sorted(solution.resources):
        r = solution.resources[name]
        out.append("  res %s: %s" % (name, sorted(r.assignments)))
    out.append("  indicators: %s" % sorted((mask(k), v) for k, v in solution.indicators.items()))
    # check the property itself on the returned schedule
    for name in sorted(solution.resources):
        iv = sorted((a[1], a[2]) for a in solution.resources[name].assignments)
        ok = all(iv[i][1] <= iv[i + 1][0] for i in range(len(iv) - 1))
        out.append("  no overlap %s: %s" % (name, ok))
    return out


CASES = []


def case(fn):
    CASES.append(fn)
    return fn


@case
def c01_two_tasks_one_worker():
    pb = ps.SchedulingProblem(name="c01", horizon=6)
    t1 = ps.FixedDurationTask(name="T1", duration=3)
    t2 = ps.FixedDurationTask(name="T2", duration=3)
    w = ps.Worker(name="W")
    t1.add_required_resource(w)
    t2.add_required_resource(w)
    return describe_registries(pb) + describe_solver(pb)


@case
def c02_cumulative_size3_productivity7_cost10_work_amount():
    pb = ps.SchedulingProblem(name="c02", horizon=8)
    cw = ps.CumulativeWorker(
        name="M", size=3, productivity=7, cost=ps.ConstantFunction(value=10)
    )
    ts = [ps.FixedDurationTask(name="T%d" % i, duration=2) for i in range(4)]
    tv = ps.VariableDurationTask(name="TV", work_amount=9)
    for t in ts + [tv]:
        t.add_required_resource(cw)
    ps.IndicatorResourceCost(list_of_resources=cw._cumulative_workers)
    return describe_registries(pb) + describe_solver(pb)


@case
def c03_cumulative_size2_defaults_overfull():
    # 3 simultaneous tasks on a cumulative of size 2, horizon 2 -> unsat
    pb = ps.SchedulingProblem(name="c03", horizon=2)
    cw = ps.CumulativeWorker(name="M", size=2)
    for i in range(3):
        ps.FixedDurationTask(name="T%d" % i, duration=2).add_required_resource(cw)
    return describe_registries(pb) + describe_solver(pb)


@case
def c04_select_workers_exact_min_max_with_cumulative_member():
    pb = ps.SchedulingProblem(name="c04", horizon=10)
    ws = [ps.Worker(name="W%d" % i, productivity=i) for i in range(4)]  # W0 productivity 0
    cw = ps.CumulativeWorker(name="CM", size=2, productivity=3)
    s_exact = ps.SelectWorkers(list_of_workers=ws[:3], nb_workers_to_select=2, kind="exact")
    s_min = ps.SelectWorkers(name="SMIN", list_of_workers=ws[1:], nb_workers_to_select=1, kind="min")
    s_max = ps.SelectWorkers(name="SMAX", list_of_workers=[ws[0], ws[3]], nb_workers_to_select=1, kind="max")
    t1 = ps.FixedDurationTask(name="T1", duration=2, work_amount=4)
    t2 = ps.VariableDurationTask(name="T2", work_amount=6, optional=True)
    t3 = ps.FixedDurationTask(name="T3", duration=1)
    t1.add_required_resource(s_exact)
    t2.add_required_resource(s_min)
    t3.add_required_resource(s_max)
    t3.add_required_resource(cw)
    ps.ForceScheduleNOptionalTasks(list_of_optional_tasks=[t2], nb_tasks_to_schedule=1)
    out = ["s_exact._list_of_workers: %s" % [w.name for w in s_exact._list_of_workers]]
    return out + describe_registries(pb) + describe_solver(pb)


@case
def c05_dynamic_delay_in_early_out_zero_values():
    pb = ps.SchedulingProblem(name="c05", horizon=12)
    w1 = ps.Worker(name="W1", productivity=2)
    w2 = ps.Worker(name="W2", productivity=0)
    w3 = ps.Worker(name="W3")
    t1 = ps.VariableDurationTask(name="T1", work_amount=8)
    t1.add_required_resource(w1, dynamic=True)
    t1.add_required_resource(w2)
    t2 = ps.FixedDurationTask(name="T2", duration=5)
    t2.add_required_resource(w3, delay_in=1, early_out=2)
    t2.add_required_resource(w1, delay_in=0, early_out=0)
    z = ps.ZeroDurationTask(name="Z")
    z.add_required_resource(w3)
    ps.ObjectiveMinimizeMakespan()
    return describe_registries(pb) + describe_solver(pb)


@case
def c06_duplicate_worker_name():
    pb = ps.SchedulingProblem(name="c06", horizon=4)
    ps.Worker(name="W")
    out = []
    try:
        ps.Worker(name="W")
    except Exception as e:  # noqa
        out.append("%s: %s" % (type(e).__name__, e))
    return out + describe_registries(pb)


@case
def c07_cumulative_clashes_with_existing_worker_midway():
    # M_CumulativeWorker_2 already exists: the first elementary worker is
    # registered, the second raises, the cumulative itself is never registered
    pb = ps.SchedulingProblem(name="c07", horizon=4)
    ps.Worker(name="M_CumulativeWorker_2")
    out = []
    cw = None
    try:
        cw = ps.CumulativeWorker(name="M", size=3, productivity=4)
    except Exception as e:  # noqa
        out.append("%s: %s" % (type(e).__name__, e))
    out.append("cw is None: %s" % (cw is None))
    return out + describe_registries(pb)


@case
def c08_duplicate_cumulative_and_select_names():
    pb = ps.SchedulingProblem(name="c08", horizon=4)
    a = ps.Worker(name="A")
    b = ps.Worker(name="B")
    ps.SelectWorkers(name="S", list_of_workers=[a, b])
    out = []
    try:
        ps.SelectWorkers(name="S", list_of_workers=[a, b], kind="max")
    except Exception as e:  # noqa
        out.append("%s: %s" % (type(e).__name__, e))
    ps.CumulativeWorker(name="C", size=2)
    try:
        ps.CumulativeWorker(name="C", size=2)
    except Exception as e:  # noqa
        out.append("%s: %s" % (type(e).__name__, e))
    # reach the CumulativeWorker registry clash itself: forget the elementary
    # workers so that only the cumulative name is already taken
    for elementary_name in ("C_CumulativeWorker_1", "C_CumulativeWorker_2"):
        del pb.workers[elementary_name]
    try:
        ps.CumulativeWorker(name="C", size=2)
    except Exception as e:  # noqa
        out.append("%s: %s" % (type(e).__name__, e))
    try:
        ps.SelectWorkers(list_of_workers=[a, b], nb_workers_to_select=3)
    except Exception as e:  # noqa
        out.append("%s: %s" % (type(e).__name__, e))
    return out + describe_registries(pb)


@case
def c09_no_active_problem():
    saved = processscheduler.base.active_problem
    processscheduler.base.active_problem = None
    out = []
    try:
        for builder in (
            lambda: ps.Worker(name="W"),
            lambda: ps.CumulativeWorker(name="C", size=2),
        ):
            try:
                builder()
            except Exception as e:  # noqa
                out.append("%s: %s" % (type(e).__name__, e))
    finally:
        processscheduler.base.active_problem = saved
    return out


@case
def c10_cumulative_bad_parameters():
    pb = ps.SchedulingProblem(name="c10", horizon=4)
    out = []
    for kw in (
        dict(size=1),
        dict(size=2, productivity=0),
        dict(size=2, cost=ps.LinearFunction(slope=1, intercept=0)),
        dict(size=2, cost=None),
        dict(size=4, productivity=2, cost=ps.ConstantFunction(value=0)),
        dict(size=5, productivity=13, cost=ps.ConstantFunction(value=3)),
    ):
        try:
            cw = ps.CumulativeWorker(name="C_%d" % len(out), **kw)
            sw = cw.get_select_workers()
            out.append(
                "ok %s -> %s | select kind=%s nb=%s list=%s assertion=%s"
                % (
                    sorted((k, mask(str(v))) for k, v in kw.items()),
                    [(w.name, w.productivity, mask(str(w.cost))) for w in cw._cumulative_workers],
                    sw.kind,
                    sw.nb_workers_to_select,
                    [w.name for w in sw.list_of_workers],
                    mask(str(sw._selection_assertion)),
                )
            )
        except Exception as e:  # noqa
            msg = " ".join(str(e).split())
            msg = re.sub(r"https://errors\.pydantic\.dev/\S+", "<url>", msg)
            out.append("%s: %s" % (type(e).__name__, msg))
    return out + describe_registries(pb)


@case
def c11_unique_negative_integers_sequence():
    pb = ps.SchedulingProblem(name="c11")
    out = ["seq: %s" % [pb.get_unique_negative_integer() for _ in range(5)]]
    a = ps.Worker(name="A")
    b = ps.Worker(name="B")
    c = ps.CumulativeWorker(name="C", size=2)
    t1 = ps.FixedDurationTask(name="T1", duration=1, optional=True)
    t2 = ps.FixedDurationTask(name="T2", duration=2)
    t1.add_required_resource(ps.SelectWorkers(name="S1", list_of_workers=[a, b]))
    t2.add_required_resource(ps.SelectWorkers(name="S2", list_of_workers=[a, b, c], kind="min"))
    try:
        # C is already a member of S2: the library refuses it a second time
        t2.add_required_resource(c)
    except Exception as e:  # noqa
        out.append("%s: %s" % (type(e).__name__, e))
    out.append("t1 assertions: %s" % sorted(mask(str(x)) for x in t1.get_z3_assertions()))
    out.append("t2 assertions: %s" % sorted(mask(str(x)) for x in t2.get_z3_assertions()))
    out.append("json worker: %s" % mask(a.to_json(compact=True)))
    w_json = pb.add_from_json('{"name": "WJ", "type": "Worker", "productivity": 3}')
    out.append("from json: %s %s" % (w_json.name, w_json.productivity))
    return out + describe_registries(pb) + describe_solver(pb, debug=False)


if __name__ == "__main__":
    for fn in CASES:
        print("=" * 20, fn.__name__)
        try:
            lines = fn()
        except Exception as e:  # noqa
            lines = ["CASE RAISED %s: %s" % (type(e).__name__, " ".join(str(e).split()))]
        for line in lines:
            print(line)
