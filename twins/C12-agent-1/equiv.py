"""Equivalence script for the refactoring of SchedulingSolver.find_another_solution
and find_another_solution_for_variable. Prints a canonical description of each case."""
import os
import sys
import io
import re
import contextlib

sys.path.insert(0, os.getcwd())

import processscheduler as ps
import z3

assert os.path.dirname(os.path.dirname(ps.__file__)) == os.getcwd(), ps.__file__

MASK = re.compile(r"asst_[0-9a-f]{8}")
MASK_UUID_INT = re.compile(r"_[0-9]{20,}")


def mask(text):
    return MASK_UUID_INT.sub("_UUID", MASK.sub("asst_XXXXXXXX", text))


def describe(solution):
    if not solution:
        return repr(solution)
    items = []
    for name in sorted(solution.tasks):
        t = solution.tasks[name]
        items.append((name, t.start, t.end, t.duration, t.scheduled, tuple(t.assigned_resources)))
    return repr((solution.horizon, items, sorted(solution.indicators.items())))


def assertions(solver):
    return sorted(mask(str(a)) for a in solver._solver.assertions())


def quiet(fn, *args, **kwargs):
    buf = io.StringIO()
    with contextlib.redirect_stdout(buf):
        try:
            return fn(*args, **kwargs)
        except BaseException as exc:  # canonical description of the error
            return f"ERROR {type(exc).__name__}: {exc}"


def enumerate_all(solver, step, limit=200):
    """solve, then call step() until it fails; print each outcome in order"""
    out = []
    sol = quiet(solver.solve)
    while sol and not isinstance(sol, str) and len(out) < limit:
        out.append(describe(sol))
        sol = quiet(step)
    out.append("LAST " + (sol if isinstance(sol, str) else describe(sol)))
    return out


def report(title, solver, lines):
    print("=" * 70)
    print(title)
    for i, l in enumerate(lines):
        print(f"  [{i}] {l}")
    print(f"  nb distinct: {len(set(lines[:-1]))} / {len(lines) - 1}")
    if solver._solver is not None:
        print("  assertions:")
        for a in assertions(solver):
            print("    " + a.replace("\n", " "))


def case_1():
    pb = ps.SchedulingProblem(name="C1", horizon=5)
    ps.FixedDurationTask(name="T1", duration=2)
    s = ps.SchedulingSolver(problem=pb)
    report("1 single mandatory task, horizon 5, global", s, enumerate_all(s, s.find_another_solution))


def case_2():
    pb = ps.SchedulingProblem(name="C2", horizon=6)
    t1 = ps.FixedDurationTask(name="T1", duration=2)
    t2 = ps.FixedDurationTask(name="T2", duration=3)
    ps.TaskPrecedence(task_before=t1, task_after=t2)
    s = ps.SchedulingSolver(problem=pb)
    report("2 two tasks with precedence, horizon 6, global", s, enumerate_all(s, s.find_another_solution))


def case_3():
    pb = ps.SchedulingProblem(name="C3", horizon=3)
    ps.FixedDurationTask(name="Opt", duration=2, optional=True)
    ps.FixedDurationTask(name="Mand", duration=1)
    s = ps.SchedulingSolver(problem=pb)
    report("3 optional + mandatory task, horizon 3, global", s, enumerate_all(s, s.find_another_solution))


def case_4():
    pb = ps.SchedulingProblem(name="C4", horizon=3)
    ps.ZeroDurationTask(name="Z")
    ps.VariableDurationTask(name="V", max_duration=2)
    s = ps.SchedulingSolver(problem=pb)
    report("4 zero duration + variable duration, horizon 3, global", s, enumerate_all(s, s.find_another_solution))


def case_5():
    pb = ps.SchedulingProblem(name="C5", horizon=6)
    t1 = ps.FixedDurationTask(name="T1", duration=2)
    t2 = ps.VariableDurationTask(name="T2", min_duration=0, max_duration=1, release_date=0, due_date=1)
    s = ps.SchedulingSolver(problem=pb)
    report(
        "5 another value for T1 start, horizon 6 (with a 0..1 variable duration task, release 0)",
        s,
        enumerate_all(s, lambda: s.find_another_solution_for_variable(t1._start)),
    )
    pb = ps.SchedulingProblem(name="C5b", horizon=4)
    t1 = ps.FixedDurationTask(name="T1", duration=2)
    t2 = ps.VariableDurationTask(name="T2", max_duration=3)
    s = ps.SchedulingSolver(problem=pb)
    report(
        "5b another value for T2 end (variable duration task)",
        s,
        enumerate_all(s, lambda: s.find_another_solution_for_variable(t2._end)),
    )


def case_6():
    pb = ps.SchedulingProblem(name="C6", horizon=6)
    t1 = ps.FixedDurationTask(name="T1", duration=2)
    s = ps.SchedulingSolver(problem=pb)
    print("=" * 70)
    print("6 no solve before")
    print("  global  :", quiet(s.find_another_solution))
    print("  variable:", quiet(s.find_another_solution_for_variable, t1._start))
    print("  initialized:", s._initialized, "solver:", s._solver)
    # unsat problem: solve fails, the model stays None
    pb = ps.SchedulingProblem(name="C6b", horizon=1)
    t1 = ps.FixedDurationTask(name="T1", duration=2)
    s = ps.SchedulingSolver(problem=pb)
    print("  unsat solve:", quiet(s.solve))
    print("  global  :", quiet(s.find_another_solution))
    print("  variable:", quiet(s.find_another_solution_for_variable, t1._start))
    print("  assertions:", assertions(s))
    # a wrong variable
    pb = ps.SchedulingProblem(name="C6c", horizon=3)
    t1 = ps.FixedDurationTask(name="T1", duration=2)
    s = ps.SchedulingSolver(problem=pb)
    print("  solve:", describe(quiet(s.solve)))
    before = assertions(s)
    print("  variable int   :", quiet(s.find_another_solution_for_variable, 3))
    print("  variable unused:", quiet(s.find_another_solution_for_variable, z3.Int("not_in_model")))
    print("  variable bool  :", quiet(s.find_another_solution_for_variable, z3.Bool("a_bool")))
    print("  assertions unchanged:", before == assertions(s))


def case_7():
    for optimizer in ("incremental", "optimize"):
        pb = ps.SchedulingProblem(name="C7" + optimizer)
        t1 = ps.FixedDurationTask(name="T1", duration=2)
        t2 = ps.FixedDurationTask(name="T2", duration=1, optional=True)
        w = ps.Worker(name="W")
        t1.add_required_resource(w)
        t2.add_required_resource(w)
        ps.ObjectiveMinimizeMakespan()
        s = ps.SchedulingSolver(problem=pb, optimizer=optimizer)
        report(
            f"7 makespan objective, optimizer={optimizer}, no horizon, worker, 6 requests",
            s,
            enumerate_all(s, s.find_another_solution, limit=6),
        )


def case_8():
    pb = ps.SchedulingProblem(name="C8", horizon=3)
    ps.FixedDurationTask(name="T1", duration=2)
    ps.FixedDurationTask(name="T2", duration=1, optional=True)
    s = ps.SchedulingSolver(problem=pb, debug=True)
    report("8 debug mode (tracked assertions), global", s, enumerate_all(s, s.find_another_solution))
    pb = ps.SchedulingProblem(name="C8b", horizon=3)
    t = ps.FixedDurationTask(name="T1", duration=2)
    s = ps.SchedulingSolver(problem=pb, debug=True)
    report(
        "8b debug mode, variable",
        s,
        enumerate_all(s, lambda: s.find_another_solution_for_variable(t._end)),
    )
    z3.set_option("verbose", 0)


def case_9():
    pb = ps.SchedulingProblem(name="C9", horizon=2)
    s = ps.SchedulingSolver(problem=pb)
    report("9 no task at all, horizon 2, global", s, enumerate_all(s, s.find_another_solution))


def case_10():
    # mixing both requests on the same solver, and an indicator variable
    pb = ps.SchedulingProblem(name="C10", horizon=4)
    t1 = ps.FixedDurationTask(name="T1", duration=1)
    t2 = ps.FixedDurationTask(name="T2", duration=1, optional=True)
    w1 = ps.Worker(name="W1")
    w2 = ps.Worker(name="W2")
    t1.add_required_resource(ps.SelectWorkers(list_of_workers=[w1, w2], nb_workers_to_select=1))
    t2.add_required_resource(w1)
    ind = ps.IndicatorFromMathExpression(name="Sum", expression=t1._start + t2._end)
    s = ps.SchedulingSolver(problem=pb)
    lines = [describe(quiet(s.solve))]
    lines.append(describe(quiet(s.find_another_solution)))
    lines.append(describe(quiet(s.find_another_solution_for_variable, ind._indicator_variable)))
    lines.append(describe(quiet(s.find_another_solution_for_variable, t2._end)))
    lines.append(describe(quiet(s.find_another_solution)))
    lines.append("LAST -")
    report("10 mixed requests, select workers, indicator", s, lines)


for case in (case_1, case_2, case_3, case_4, case_5, case_6, case_7, case_8, case_9, case_10):
    try:
        case()
    except BaseException as exc:
        print(f"CASE {case.__name__} ERROR {type(exc).__name__}: {exc}")
