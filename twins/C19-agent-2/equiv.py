"""Equivalence script for the C19 twin (SchedulingSolver.initialize refactoring).

For each small problem, prints a canonical description of the outcome in both
regular and debug mode:
  * the solver assertions, in order and sorted (uuid parts masked),
  * in debug mode, the map tracking-literal-index -> constraint name,
  * the verdict, the solution values, and - when unsat in debug mode - the
    names of the constraints reported as conflicting (captured from stdout).
"""
import contextlib
import io
import os
import re
import sys

sys.path.insert(0, os.getcwd())

import z3  # noqa: E402
import processscheduler as ps  # noqa: E402
import processscheduler.solver as solver_module  # noqa: E402

# rich's print ignores redirect_stdout in some setups: use the builtin print
import builtins  # noqa: E402

solver_module.print = builtins.print

# The library draws random uuids for object uids, default names and (in debug
# mode) for the tracking literals; z3's choice of model / unsat core depends on
# those names, so two runs of the *same* code can differ.  To compare the code
# before/after the refactoring, uuid4 is replaced by a seeded generator which is
# re-seeded for each case: both versions then see the same sequence as long as
# they draw uuids in the same order (which is part of what is being checked).
import random  # noqa: E402
import uuid  # noqa: E402
import processscheduler.base as base_module  # noqa: E402

_rng = random.Random(0)


def _seeded_uuid4():
    return uuid.UUID(int=_rng.getrandbits(128), version=4)


uuid.uuid4 = _seeded_uuid4
base_module.uuid4 = _seeded_uuid4

HEX = re.compile(r"[0-9a-f]{8}(?![0-9a-zA-Z])")
UUID32 = re.compile(r"[0-9a-f]{32}")


def mask(text):
    # uid.int based parts first (decimal digits are also hex digits)
    text = re.sub(r"\d{20,}", "<UIDINT>", text)
    text = UUID32.sub("<UID>", text)
    text = re.sub(r"asst_[0-9a-f]{8}", "asst_<ID>", text)
    # uid.int based parts: default names (Type_12345678) and constraint_<uid>_applied
    text = re.sub(r"_\d{8}(?!\d)", "_<N8>", text)
    return text


def describe_solution(solution):
    if not solution:
        return ["verdict: NO SOLUTION (%r)" % (solution,)]
    out = ["verdict: solution, horizon=%s" % solution.horizon]
    for name in sorted(solution.tasks):
        t = solution.tasks[name]
        out.append(
            "  task %s: start=%s end=%s dur=%s scheduled=%s res=%s"
            % (
                name,
                t.start,
                t.end,
                t.duration,
                t.scheduled,
                sorted(t.assigned_resources),
            )
        )
    for name in sorted(solution.resources):
        out.append(
            "  resource %s: %s" % (name, sorted(solution.resources[name].assignments))
        )
    for name in sorted(solution.buffers):
        b = solution.buffers[name]
        out.append("  buffer %s: %s @ %s" % (name, b.level, b.level_change_times))
    for name in sorted(solution.indicators):
        out.append("  indicator %s = %s" % (name, solution.indicators[name]))
    return out


def run(label, builder, stable_values=True, **solver_kwargs):
    for debug in (False, True):
        print("=" * 70)
        print("CASE %s  debug=%s  %s" % (label, debug, solver_kwargs))
        _rng.seed(12345)
        try:
            problem = builder()
            solver = ps.SchedulingSolver(problem=problem, debug=debug, **solver_kwargs)
            captured = io.StringIO()
            with contextlib.redirect_stdout(captured), contextlib.redirect_stderr(
                io.StringIO()
            ):
                solver.initialize()
                assertions_in_order = [mask(str(a)) for a in solver._solver.assertions()]
                solution = solver.solve()
            stdout_text = captured.getvalue()
        except Exception as exc:  # canonical description of the error
            print("ERROR %s: %s" % (type(exc).__name__, mask(str(exc))))
            continue
        finally:
            z3.set_option("verbose", 0)

        print("nb assertions: %d" % len(assertions_in_order))
        print("-- assertions in order")
        for a in assertions_in_order:
            print("   ", " ".join(a.split()))
        print("-- assertions sorted")
        for a in sorted(assertions_in_order):
            print("   ", " ".join(a.split()))
        if debug:
            # the tracking literals are created in order; the map gives, by
            # creation rank, the owning constraint
            tracked = [str(a) for a in solver._solver.assertions()]
            ranks = {}
            rank = 0
            for a in tracked:
                m = re.match(r"Implies\((asst_[0-9a-f]{8}),", a)
                if m:
                    ranks[m.group(1)] = rank
                    rank += 1
            owners = sorted(
                (ranks.get(k, -1), v)
                for k, v in solver._map_boolrefs_to_constraints.items()
            )
            print("-- tracked literal rank -> constraint")
            for r, v in owners:
                print("    %d -> %s" % (r, mask(v)))
        # when z3 variable names contain random uids, the model z3 picks among
        # several valid ones may vary from run to run: only print the verdict
        for line in describe_solution(solution)[: None if stable_values else 1]:
            print(line)
        # what was reported
        m = re.search(r"conflict between (\d+) constraints", stdout_text)
        if m:
            print("reported conflict count: %s" % m.group(1))
            reported = re.findall(r"-> (.*)\n====", stdout_text)
            for r in sorted(mask(x) for x in reported):
                print("   conflicting:", r)
        else:
            print("reported conflict count: none")
        if "No solution can be found" in stdout_text:
            print("message: no solution can be found")


# ---------------------------------------------------------------- problems
def pb_conflicting_constraints():
    """two incompatible user constraints on a mandatory task"""
    pb = ps.SchedulingProblem(name="Conflict", horizon=10)
    t1 = ps.FixedDurationTask(name="T1", duration=3)
    t2 = ps.FixedDurationTask(name="T2", duration=2)
    ps.TaskStartAt(task=t1, value=1)
    ps.TaskEndAt(task=t1, value=9)
    ps.TaskPrecedence(task_before=t1, task_after=t2)
    return pb


def pb_worker_overlap():
    """three tasks on one worker, horizon too short: conflict comes from the
    basic resource rules, no constraint involved"""
    pb = ps.SchedulingProblem(name="WorkerOverlap", horizon=5)
    w = ps.Worker(name="W")
    for i, d in enumerate((2, 2, 2)):
        t = ps.FixedDurationTask(name="T%d" % i, duration=d)
        t.add_required_resource(w)
    return pb


def pb_worker_overlap_feasible():
    """three tasks + a zero duration task on one worker, feasible, with a
    constraint created from an assertion (Not)"""
    pb = ps.SchedulingProblem(name="WorkerFeasible", horizon=7)
    w = ps.Worker(name="W")
    tasks = []
    for i, d in enumerate((2, 3, 1)):
        t = ps.FixedDurationTask(name="T%d" % i, duration=d)
        t.add_required_resource(w)
        tasks.append(t)
    z = ps.ZeroDurationTask(name="Z")
    z.add_required_resource(w)
    ps.Not(constraint=ps.TaskStartAt(task=tasks[0], value=0))
    ps.TaskPrecedence(task_before=tasks[0], task_after=tasks[1], offset=0)
    return pb


def pb_work_amount_unsat():
    """work amount that the workers cannot provide within the allowed duration"""
    pb = ps.SchedulingProblem(name="WorkAmountUnsat", horizon=10)
    t = ps.VariableDurationTask(name="V", work_amount=30, max_duration=4)
    w1 = ps.Worker(name="W1", productivity=2)
    w2 = ps.Worker(name="W2", productivity=3)
    t.add_required_resources([w1, w2])
    ps.TaskStartAt(task=t, value=0)
    return pb


def pb_work_amount_mixed():
    """work amounts: 0 (no assertion), >0 with resources (mandatory and
    optional task), >0 without any resource (no assertion), productivity 0"""
    pb = ps.SchedulingProblem(name="WorkAmountMixed", horizon=12)
    w1 = ps.Worker(name="W1", productivity=2)
    w2 = ps.Worker(name="W2", productivity=0)
    a = ps.VariableDurationTask(name="A", work_amount=8)
    a.add_required_resources([w1, w2])
    b = ps.VariableDurationTask(name="B", work_amount=4, optional=True)
    b.add_required_resource(w1)
    c = ps.VariableDurationTask(name="C", work_amount=0, max_duration=2)
    c.add_required_resource(w1)
    ps.VariableDurationTask(name="D", work_amount=5, max_duration=1)
    ps.ForceScheduleNOptionalTasks(list_of_optional_tasks=[b], nb_tasks_to_schedule=1)
    return pb


def pb_optional_constraints():
    """optional constraints + ForceApplyNOptionalConstraints, unsat"""
    pb = ps.SchedulingProblem(name="OptionalConstraints", horizon=6)
    t1 = ps.FixedDurationTask(name="T1", duration=4)
    t2 = ps.FixedDurationTask(name="T2", duration=4)
    c1 = ps.TaskStartAt(task=t1, value=0, optional=True)
    c2 = ps.TaskStartAt(task=t1, value=2, optional=True)
    c3 = ps.TaskEndAt(task=t2, value=5, optional=True)
    ps.ForceApplyNOptionalConstraints(
        list_of_optional_constraints=[c1, c2, c3], nb_constraints_to_apply=2, kind="min"
    )
    ps.TasksDontOverlap(task_1=t1, task_2=t2)
    return pb


def pb_select_workers_and_cumulative(horizon=8):
    """SelectWorkers + CumulativeWorker, with a constraint from expression;
    feasible with horizon 8, infeasible with horizon 5"""
    pb = ps.SchedulingProblem(name="SelectCumul", horizon=horizon)
    w1 = ps.Worker(name="W1")
    w2 = ps.Worker(name="W2")
    cw = ps.CumulativeWorker(name="CW", size=2)
    ts = []
    for i in range(3):
        t = ps.FixedDurationTask(name="T%d" % i, duration=3)
        t.add_required_resource(
            ps.SelectWorkers(list_of_workers=[w1, w2], nb_workers_to_select=1)
        )
        t.add_required_resource(cw)
        ts.append(t)
    ps.ConstraintFromExpression(expression=ts[2]._end <= 5)
    ps.TaskEndBefore(task=ts[0], value=3)
    ps.TaskStartAfter(task=ts[1], value=1)
    selections = list(pb.select_workers.values())
    ps.SameWorkers(select_workers_1=selections[0], select_workers_2=selections[2])
    return pb


def pb_buffer_unsat():
    """buffer lower bound violated"""
    pb = ps.SchedulingProblem(name="BufferUnsat", horizon=10)
    t1 = ps.FixedDurationTask(name="T1", duration=2)
    t2 = ps.FixedDurationTask(name="T2", duration=2)
    buf = ps.NonConcurrentBuffer(name="Buf", initial_level=3, lower_bound=0)
    ps.TaskUnloadBuffer(task=t1, buffer=buf, quantity=2)
    ps.TaskUnloadBuffer(task=t2, buffer=buf, quantity=2)
    ps.TaskStartAt(task=t1, value=0)
    return pb


def pb_optimization_with_indicator():
    """feasible problem, makespan objective, incremental optimizer, one
    worker, user assertion added to the problem"""
    pb = ps.SchedulingProblem(name="Optim")
    w = ps.Worker(name="W", cost=ps.ConstantFunction(value=2))
    t1 = ps.FixedDurationTask(name="T1", duration=2)
    t2 = ps.FixedDurationTask(name="T2", duration=3, optional=True)
    t1.add_required_resource(w)
    t2.add_required_resource(w)
    ps.OptionalTasksDependency(task_1=t1, task_2=t2)
    ps.IndicatorResourceCost(list_of_resources=[w])
    ps.ObjectiveMinimizeMakespan()
    pb.append_z3_assertion(t1._start >= 1)
    return pb


def pb_no_worker_no_constraint():
    """edge: a single zero duration task, nothing else"""
    pb = ps.SchedulingProblem(name="Tiny", horizon=1)
    ps.ZeroDurationTask(name="Z")
    return pb


def pb_duplicate_constraint_name():
    """error raised while building the problem"""
    pb = ps.SchedulingProblem(name="Dup", horizon=5)
    t = ps.FixedDurationTask(name="T", duration=1)
    ps.TaskStartAt(name="same", task=t, value=0)
    ps.TaskEndAt(name="same", task=t, value=3)
    return pb


CASES = [
    ("conflicting_constraints", pb_conflicting_constraints, {}),
    ("worker_overlap_unsat", pb_worker_overlap, {}),
    ("worker_overlap_feasible", pb_worker_overlap_feasible, {}),
    ("work_amount_unsat", pb_work_amount_unsat, {}),
    ("work_amount_mixed", pb_work_amount_mixed, {}),
    ("optional_constraints", pb_optional_constraints, {}),
    ("select_cumulative", pb_select_workers_and_cumulative, {}),
    (
        "select_cumulative_unsat",
        lambda: pb_select_workers_and_cumulative(horizon=5),
        {},
    ),
    ("buffer_unsat", pb_buffer_unsat, {}),
    ("optimization", pb_optimization_with_indicator, {}),
    ("optimization_optimize", pb_optimization_with_indicator, {"optimizer": "optimize"}),
    ("tiny", pb_no_worker_no_constraint, {"logics": "QF_IDL"}),
    ("duplicate_name", pb_duplicate_constraint_name, {}),
]

if __name__ == "__main__":
    for label, builder, kwargs in CASES:
        run(label, builder, **kwargs)
