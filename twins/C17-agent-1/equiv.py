"""Equivalence script for the render_gantt_matplotlib refactoring (C17).

For a set of small problems, renders the Gantt chart with the Agg backend and
prints a canonical description of everything that was drawn (bars, texts,
lines, axes limits, ticks, legends) or of the error that was raised.
"""
import contextlib
import io
import os
import sys

sys.path.insert(0, os.getcwd())

import warnings
from datetime import datetime, timedelta

import matplotlib

matplotlib.use("Agg")
import matplotlib.pyplot as plt
import numpy as np

import processscheduler as ps
from processscheduler.solution import (
    BufferSolution,
    ResourceSolution,
    SchedulingSolution,
    TaskSolution,
)

assert os.path.dirname(ps.__file__).startswith(os.getcwd()), ps.__file__
warnings.simplefilter("ignore")


def rnd(v):
    if isinstance(v, (list, tuple, np.ndarray)):
        return [rnd(x) for x in v]
    f = float(v)
    if f != f:
        return "nan"
    return round(f, 6)


def describe_figure():
    out = []
    fig = plt.gcf()
    for n, ax in enumerate(fig.axes):
        out.append(f"  axes[{n}] title={ax.get_title()!r} xlabel={ax.get_xlabel()!r} "
                   f"ylabel={ax.get_ylabel()!r}")
        out.append(f"    xlim={rnd(ax.get_xlim())} ylim={rnd(ax.get_ylim())}")
        out.append(f"    xticks={rnd(ax.get_xticks())} "
                   f"xticklabels={[t.get_text() for t in ax.get_xticklabels()]}")
        out.append(f"    yticks={rnd(ax.get_yticks())} "
                   f"yticklabels={[t.get_text() for t in ax.get_yticklabels()]}")
        # bars, in drawing order
        for coll in ax.collections:
            for path in coll.get_paths():
                verts = path.vertices
                xs, ys = verts[:, 0], verts[:, 1]
                out.append(
                    f"    bar x=[{rnd(xs.min())},{rnd(xs.max())}] "
                    f"y=[{rnd(ys.min())},{rnd(ys.max())}] "
                    f"face={rnd(coll.get_facecolor())} edge={rnd(coll.get_edgecolor())} "
                    f"lw={rnd(coll.get_linewidth())} hatch={coll.get_hatch()!r} "
                    f"alpha={coll.get_alpha()}"
                )
        for txt in ax.texts:
            out.append(f"    text pos={rnd(txt.get_position())} s={txt.get_text()!r} "
                       f"ha={txt.get_ha()} va={txt.get_va()} color={txt.get_color()}")
        for line in ax.lines:
            out.append(f"    line label={line.get_label()!r} x={rnd(line.get_xdata())} "
                       f"y={rnd(line.get_ydata())} lw={line.get_linewidth()}")
        leg = ax.get_legend()
        if leg is not None:
            out.append(f"    legend title={leg.get_title().get_text()!r} "
                       f"entries={[t.get_text() for t in leg.get_texts()]}")
    return out


def describe_solution(solution):
    out = []
    if not solution:
        return ["  solution: None"]
    out.append(f"  horizon={solution.horizon}")
    for name, t in solution.tasks.items():
        out.append(f"  task {name}: start={t.start} end={t.end} dur={t.duration} "
                   f"scheduled={t.scheduled} res={t.assigned_resources}")
    for name, r in solution.resources.items():
        out.append(f"  resource {name}: {r.assignments}")
    for name, b in solution.buffers.items():
        out.append(f"  buffer {name}: level={b.level} times={b.level_change_times}")
    out.append(f"  indicators={solution.indicators}")
    return out


def render(label, solution, **kwargs):
    print(f"--- {label} {kwargs}")
    plt.close("all")
    try:
        ps.render_gantt_matplotlib(solution, show_plot=False, **kwargs)
        for line in describe_figure():
            print(line)
    except Exception as exc:  # pylint: disable=broad-except
        print(f"  ERROR {type(exc).__name__}: {exc}")
    plt.close("all")


def solve(problem):
    # the solver prints timings on stdout: keep them out of the canonical output
    with contextlib.redirect_stdout(io.StringIO()):
        solution = ps.SchedulingSolver(problem=problem).solve()
    for line in describe_solution(solution):
        print(line)
    return solution


def both_modes(label, solution, **kwargs):
    render(label, solution, render_mode="Resource", **kwargs)
    render(label, solution, render_mode="Task", **kwargs)


def case_1():
    """mandatory tasks, two workers, one shared"""
    print("=== case 1: mandatory tasks / two workers")
    pb = ps.SchedulingProblem(name="C1", horizon=8)
    t1 = ps.FixedDurationTask(name="t1", duration=3)
    t2 = ps.FixedDurationTask(name="t2", duration=2)
    t3 = ps.FixedDurationTask(name="t3", duration=1)  # no resource
    w1 = ps.Worker(name="w1")
    w2 = ps.Worker(name="w2")
    t1.add_required_resources([w1, w2])
    t2.add_required_resource(w2)
    ps.TaskStartAt(task=t1, value=0)
    ps.TaskStartAt(task=t2, value=5)
    ps.TaskStartAt(task=t3, value=7)
    sol = solve(pb)
    both_modes("c1", sol)
    render("c1-default", sol)
    render("c1-figsize", sol, fig_size=(4, 3), show_indicators=False)


def case_2():
    """zero length items, with and without resource, at instant 0 and later"""
    print("=== case 2: zero duration tasks")
    pb = ps.SchedulingProblem(name="C2", horizon=6)
    z0 = ps.ZeroDurationTask(name="z0")
    z1 = ps.ZeroDurationTask(name="z1")
    v = ps.VariableDurationTask(name="v", min_duration=0, max_duration=3)
    f = ps.FixedDurationTask(name="f", duration=2)
    w = ps.Worker(name="w")
    z1.add_required_resource(w)
    v.add_required_resource(w)
    f.add_required_resource(w)
    ps.TaskStartAt(task=z0, value=0)
    ps.TaskStartAt(task=z1, value=4)
    ps.TaskStartAt(task=v, value=0)
    ps.TaskEndAt(task=v, value=0)
    ps.TaskStartAt(task=f, value=1)
    sol = solve(pb)
    both_modes("c2", sol)


def case_3():
    """optional tasks: one forced scheduled, one forced unscheduled"""
    print("=== case 3: optional tasks")
    pb = ps.SchedulingProblem(name="C3", horizon=10)
    m = ps.FixedDurationTask(name="mand", duration=2)
    o_yes = ps.FixedDurationTask(name="opt_yes", duration=3, optional=True)
    o_no = ps.FixedDurationTask(name="opt_no", duration=4, optional=True)
    w1 = ps.Worker(name="w1")
    w2 = ps.Worker(name="w2")
    m.add_required_resource(w1)
    o_yes.add_required_resource(w1)
    o_no.add_required_resource(w2)
    ps.TaskStartAt(task=m, value=1)
    ps.TaskStartAt(task=o_yes, value=4)
    ps.OptionalTaskForceSchedule(task=o_yes, to_be_scheduled=True)
    ps.OptionalTaskForceSchedule(task=o_no, to_be_scheduled=False)
    sol = solve(pb)
    both_modes("c3", sol)


def case_4():
    """alternative workers and indicators"""
    print("=== case 4: select workers / indicators")
    pb = ps.SchedulingProblem(name="C4", horizon=9)
    t1 = ps.FixedDurationTask(name="t1", duration=4)
    t2 = ps.FixedDurationTask(name="t2", duration=4)
    w1 = ps.Worker(name="w1", cost=ps.ConstantFunction(value=10))
    w2 = ps.Worker(name="w2", cost=ps.ConstantFunction(value=1))
    w3 = ps.Worker(name="w3")
    t1.add_required_resource(
        ps.SelectWorkers(list_of_workers=[w1, w2], nb_workers_to_select=1)
    )
    t2.add_required_resource(
        ps.SelectWorkers(list_of_workers=[w1, w2], nb_workers_to_select=1)
    )
    t2.add_required_resource(w3)
    ps.TaskStartAt(task=t1, value=0)
    ps.TaskStartAt(task=t2, value=4)
    ind = ps.IndicatorResourceCost(list_of_resources=[w1, w2])
    ps.IndicatorResourceUtilization(resource=w3)
    ps.ObjectiveMinimizeIndicator(target=ind, weight=1)
    sol = solve(pb)
    both_modes("c4", sol)
    both_modes("c4-noind", sol, show_indicators=False)


def case_5():
    """buffers, with and without workers"""
    print("=== case 5: buffers")
    pb = ps.SchedulingProblem(name="C5a", horizon=12)
    t1 = ps.FixedDurationTask(name="t1", duration=3)
    t2 = ps.FixedDurationTask(name="t2", duration=2)
    b1 = ps.NonConcurrentBuffer(name="B1", initial_level=10)
    b2 = ps.NonConcurrentBuffer(name="B2", initial_level=0)
    b3 = ps.NonConcurrentBuffer(name="B3", initial_level=5)  # never changes
    ps.TaskStartAt(task=t1, value=5)
    ps.TaskStartAt(task=t2, value=0)
    ps.TaskUnloadBuffer(task=t1, buffer=b1, quantity=3)
    ps.TaskLoadBuffer(task=t1, buffer=b2, quantity=2)
    ps.TaskUnloadBuffer(task=t2, buffer=b1, quantity=1)
    sol = solve(pb)
    both_modes("c5a", sol)

    pb = ps.SchedulingProblem(name="C5b", horizon=6)
    t1 = ps.FixedDurationTask(name="t1", duration=3)
    w = ps.Worker(name="w")
    t1.add_required_resource(w)
    b1 = ps.NonConcurrentBuffer(name="B1", initial_level=0)
    ps.TaskStartAt(task=t1, value=0)
    ps.TaskLoadBuffer(task=t1, buffer=b1, quantity=4)
    sol = solve(pb)
    both_modes("c5b", sol)


def case_6():
    """real dates on the x axis"""
    print("=== case 6: delta_time / start_time")
    for start_time in (datetime(2024, 1, 1, 8, 0), None):
        kwargs = {} if start_time is None else {"start_time": start_time}
        pb = ps.SchedulingProblem(
            name="C6", horizon=5, delta_time=timedelta(minutes=15), **kwargs
        )
        t1 = ps.FixedDurationTask(name="t1", duration=3)
        w = ps.Worker(name="w")
        t1.add_required_resource(w)
        ps.TaskStartAt(task=t1, value=2)
        sol = solve(pb)
        both_modes(f"c6-{start_time is not None}", sol)


def case_7():
    """no resource, wrong mode, no solution"""
    print("=== case 7: no resource / errors")
    pb = ps.SchedulingProblem(name="C7a", horizon=4)
    t1 = ps.FixedDurationTask(name="t1", duration=3)
    ps.TaskStartAt(task=t1, value=1)
    sol = solve(pb)
    both_modes("c7a", sol)
    render("c7a-wrongmode-noresource", sol, render_mode="foo")

    pb = ps.SchedulingProblem(name="C7b", horizon=4)
    t1 = ps.FixedDurationTask(name="t1", duration=3)
    w = ps.Worker(name="w")
    t1.add_required_resource(w)
    sol = solve(pb)
    render("c7b-wrongmode", sol, render_mode="foo")
    render("c7b-lowercase", sol, render_mode="task")

    pb = ps.SchedulingProblem(name="C7c", horizon=2)
    ps.FixedDurationTask(name="t1", duration=3)
    sol = solve(pb)
    render("c7c-unsat", sol)
    render("c7c-unsat-task", sol, render_mode="Task")

    # only optional unscheduled tasks: nothing to draw at all
    pb = ps.SchedulingProblem(name="C7d", horizon=3)
    o = ps.FixedDurationTask(name="o", duration=1, optional=True)
    w = ps.Worker(name="w")
    o.add_required_resource(w)
    ps.OptionalTaskForceSchedule(task=o, to_be_scheduled=False)
    sol = solve(pb)
    both_modes("c7d", sol)


def case_8():
    """hand made solutions, including inconsistent ones"""
    print("=== case 8: hand made solutions")
    pb = ps.SchedulingProblem(name="C8", horizon=10)

    def make(tasks, resources, buffers, indicators=None):
        sol = SchedulingSolution(problem=pb)
        sol.horizon = 10
        sol.tasks = {t.name: t for t in tasks}
        sol.resources = {r.name: r for r in resources}
        sol.buffers = {b.name: b for b in buffers}
        sol.indicators = indicators or {}
        return sol

    ta = TaskSolution(name="a", start=1, end=4, duration=3, scheduled=True,
                      assigned_resources=["r1", "r2"])
    tb = TaskSolution(name="b", start=4, end=4, duration=0, scheduled=True,
                      assigned_resources=["r2"])
    tc = TaskSolution(name="c", start=0, end=0, duration=0, scheduled=False,
                      optional=True, assigned_resources=[])
    td = TaskSolution(name="d", start=6, end=9, duration=3, scheduled=True,
                      assigned_resources=[])
    r1 = ResourceSolution(name="r1", assignments=[("a", 1, 4)])
    r2 = ResourceSolution(name="r2", assignments=[("a", 1, 4), ("b", 4, 4)])
    r3 = ResourceSolution(name="r3", assignments=[])
    buf = BufferSolution(name="buf", level=[3, 0, 7, 7], level_change_times=[1, 4, 9])
    buf_flat = BufferSolution(name="flat", level=[2], level_change_times=[])
    sol = make([ta, tb, tc, td], [r1, r2, r3], [buf, buf_flat], {"ind": 0, "k": 12})
    both_modes("c8-ok", sol)

    # resource assignment that refers to an unknown task -> KeyError
    r_bad = ResourceSolution(name="rbad", assignments=[("a", 1, 4), ("ghost", 2, 3)])
    sol = make([ta], [r1, r_bad], [])
    both_modes("c8-ghost", sol)

    # more levels than intervals -> IndexError; fewer -> silently shorter
    buf_long = BufferSolution(name="long", level=[1, 2, 3, 4], level_change_times=[2])
    sol = make([ta], [r1], [buf_long])
    both_modes("c8-buflong", sol)
    buf_short = BufferSolution(name="short", level=[1], level_change_times=[2, 5])
    buf_none = BufferSolution(name="none", level=[], level_change_times=[])
    sol = make([ta], [r1], [buf_short, buf_none])
    both_modes("c8-bufshort", sol)

    # assignment with end before start (negative length)
    r_neg = ResourceSolution(name="rneg", assignments=[("a", 4, 1)])
    sol = make([ta], [r_neg], [])
    both_modes("c8-neg", sol)


if __name__ == "__main__":
    for case in (case_1, case_2, case_3, case_4, case_5, case_6, case_7, case_8):
        try:
            case()
        except Exception as exc:  # pylint: disable=broad-except
            print(f"  CASE ERROR {type(exc).__name__}: {exc}")
