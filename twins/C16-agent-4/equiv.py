"""Equivalence script for the C16 twin refactoring (task.py: Task.set_assertions,
VariableDurationTask.__init__; function.py: PolynomialFunction._compute).

Prints, for a set of small problems, a canonical description of the outcome:
sorted str() of the solver assertions, the solution (json / csv / excel cells),
the SMT-LIB export parsed back, JSON round trips, errors raised.
"""
import io
import os
import re
import sys
import json
import tempfile
import contextlib
import warnings

sys.path.insert(0, os.getcwd())

import z3
import processscheduler as ps
import processscheduler.task as ps_task

assert os.path.dirname(os.path.dirname(ps.__file__)) == os.getcwd(), ps.__file__

TMP = tempfile.mkdtemp(prefix="equiv_c16_")
UUID_RE = re.compile(r"_\d{8,}")


def mask(text):
    """mask the random uid parts of names; z3's pretty printer breaks lines
    according to the name lengths, so white space is normalised too"""
    return UUID_RE.sub("_UID", re.sub(r"\s+", " ", text))


def section(title):
    print()
    print("=" * 70)
    print(title)
    print("=" * 70)


def show_task_assertions(problem):
    for task in problem.tasks.values():
        print(f"  task {task.name} scheduled={task._scheduled}")
        for a in task.get_z3_assertions():
            print("    ", mask(str(a)).replace("\n", " "))
        print("    release/due:", [str(a) for a in task._release_due_assertions])


def excel_cells(filename):
    """the raw xml of the sheets and of the shared strings table"""
    import zipfile

    out = []
    with zipfile.ZipFile(filename) as z:
        for n in sorted(z.namelist()):
            if n.startswith("xl/worksheets/") or n in (
                "xl/sharedStrings.xml",
                "xl/workbook.xml",
                "xl/styles.xml",
            ):
                out.append((n, z.read(n).decode("utf-8")))
    return out


def run_problem(title, problem, solver_kwargs=None, smt=True):
    section(title)
    solver_kwargs = solver_kwargs or {}
    show_task_assertions(problem)
    solver = ps.SchedulingSolver(problem=problem, **solver_kwargs)
    buf = io.StringIO()
    with contextlib.redirect_stdout(buf):
        solver.initialize()
    assertions = sorted(mask(str(a)).replace("\n", " ") for a in solver._solver.assertions())
    print("solver assertions (%i):" % len(assertions))
    for a in assertions:
        print("   ", a)

    if smt:
        smt_file = os.path.join(TMP, "pb.smt2")
        with contextlib.redirect_stdout(buf):
            solver.export_to_smt2(smt_file)
        parsed = z3.parse_smt2_file(smt_file)
        s2 = z3.Solver()
        s2.add(parsed)
        print("smt2 parsed assertions:", len(parsed), "check:", s2.check())
        print(
            "smt2 sorted:",
            sorted(mask(str(a)).replace("\n", " ") for a in parsed) == assertions,
        )

    with contextlib.redirect_stdout(buf):
        solution = solver.solve()
    if not solution:
        print("solution:", solution)
        return None
    d = json.loads(solution.to_json())
    print("json:", mask(json.dumps(d, sort_keys=True)))
    print("csv:")
    for line in solution.to_csv().splitlines():
        print("   ", mask(line))
    print("df:")
    for line in solution.to_df().to_string().splitlines():
        print("   ", mask(line))
    xl = os.path.join(TMP, "sol.xlsx")
    for colors in (False, True):
        try:
            solution.to_excel_file(xl, colors=colors)
            print("excel colors=%s:" % colors, mask(str(excel_cells(xl))))
        except Exception as e:  # noqa  (colors=True fails on an empty resource list)
            print("excel colors=%s raised" % colors, type(e).__name__, e)
    return solution


def attempt(label, fn):
    try:
        with warnings.catch_warnings(record=True) as w:
            warnings.simplefilter("always")
            res = fn()
        print(label, "->", mask(str(res)), "| warnings:", [str(x.message) for x in w])
    except Exception as e:  # noqa
        print(label, "-> raised", type(e).__name__, ":", mask(str(e))[:300])


# --------------------------------------------------------------------------
# 1. mandatory tasks of the three kinds, release / due dates, a worker
# --------------------------------------------------------------------------
pb = ps.SchedulingProblem(name="P1", horizon=12)
t1 = ps.FixedDurationTask(name="t1", duration=3, release_date=2, due_date=9)
t2 = ps.ZeroDurationTask(name="t2", release_date=0, due_date=4)
t3 = ps.VariableDurationTask(name="t3", min_duration=0, max_duration=4, work_amount=6)
t4 = ps.FixedDurationTask(
    name="t4", duration=1, due_date=2, due_date_is_deadline=False, priority=0
)
w1 = ps.Worker(name="w1", productivity=2)
t1.add_required_resource(w1)
t3.add_required_resource(w1)
ps.TaskPrecedence(task_before=t1, task_after=t3)
run_problem("1. mandatory tasks, release/due dates, worker", pb)

# --------------------------------------------------------------------------
# 2. optional tasks of the three kinds (task numbers -> points in past)
# --------------------------------------------------------------------------
pb = ps.SchedulingProblem(name="P2", horizon=6)
o1 = ps.FixedDurationTask(name="o1", duration=4, optional=True, release_date=1)
o2 = ps.ZeroDurationTask(name="o2", optional=True, due_date=3)
o3 = ps.VariableDurationTask(
    name="o3", optional=True, min_duration=1, max_duration=5, due_date=6, release_date=3
)
o4 = ps.FixedDurationTask(name="o4", duration=4, optional=True)
m1 = ps.FixedDurationTask(name="m1", duration=2)
w = ps.Worker(name="wk")
for t in (o1, o3, o4, m1):
    t.add_required_resource(w)
ps.ForceScheduleNOptionalTasks(list_of_optional_tasks=[o1, o2, o3, o4], nb_tasks_to_schedule=2)
ind = ps.IndicatorNumberTasksAssigned(resource=w)
run_problem("2. optional tasks", pb)

# --------------------------------------------------------------------------
# 3. variable duration tasks: allowed durations, min 0, no max, optional
# --------------------------------------------------------------------------
pb = ps.SchedulingProblem(name="P3", horizon=20)
v1 = ps.VariableDurationTask(name="v1", allowed_durations=[3, 7, 11])
v2 = ps.VariableDurationTask(name="v2", allowed_durations=[5], min_duration=2)
v3 = ps.VariableDurationTask(
    name="v3", allowed_durations=[2, 4], max_duration=3, optional=True
)
v4 = ps.VariableDurationTask(name="v4", allowed_durations=[], optional=True)
v5 = ps.VariableDurationTask(name="v5")
v6 = ps.VariableDurationTask(name="v6", min_duration=0, max_duration=1, optional=True)
ps.TaskStartAt(task=v1, value=1)
ps.TaskEndAt(task=v1, value=8)
ps.TaskStartAt(task=v5, value=0)
ps.TaskEndAt(task=v5, value=0)
ps.ScheduleNTasksInTimeIntervals(
    list_of_tasks=[v3, v6], nb_tasks_to_schedule=2, list_of_time_intervals=[[0, 10]]
) if False else None
ps.OptionalTaskConditionSchedule(task=v3, condition=v1._duration == 7)
run_problem("3. variable duration tasks with allowed durations", pb)

# 3b. allowed_durations=[] on a mandatory task -> unsat
pb = ps.SchedulingProblem(name="P3b", horizon=5)
ps.VariableDurationTask(name="vv", allowed_durations=[])
run_problem("3b. empty allowed durations, mandatory -> unsat", pb)

# --------------------------------------------------------------------------
# 4. polynomial cost functions, cost indicator, objective
# --------------------------------------------------------------------------
section("4. polynomial function values")
pb = ps.SchedulingProblem(name="P4", horizon=30)
X = z3.Int("x")
A = z3.Int("a")
for coeffs in (
    [5],
    [0],
    [2, 3],
    [0, 3],
    [2, 0],
    [1, -16, 164],
    [23, -13, 513],
    [0, 0, 0],
    [4, 0, 0, 7],
    [0, 2, 0, 1, 0],
    [1.5, 0.0, 2],
    [1, 0.5],
    [],
):
    f = ps.PolynomialFunction(name="f_%s" % len(coeffs), coefficients=coeffs)
    for val in (0, 1, -2, 7, 2.5, X, X * 2 + 1):
        attempt("  P%s(%s)" % (coeffs, val), lambda: repr(f(val)))
    attempt("  P%s coefficients after calls" % (coeffs,), lambda: f.coefficients)
    attempt("  P%s json" % (coeffs,), lambda: f.to_json(compact=True))
    attempt(
        "  P%s json round trip" % (coeffs,),
        lambda: ps.PolynomialFunction.model_validate_json(f.to_json())(3),
    )
fz = ps.PolynomialFunction(name="fz", coefficients=[A, 0, A + 1, 3])
for val in (0, 2, X):
    attempt("  Pz(%s)" % val, lambda: repr(fz(val)))
fz2 = ps.PolynomialFunction(name="fz2", coefficients=[1, z3.IntVal(0), A])
attempt("  Pz2(X)", lambda: repr(fz2(X)))
attempt("  Pz2(2)", lambda: repr(fz2(2)))
attempt("  Pz2 coefficients", lambda: fz2.coefficients)
fz3 = ps.PolynomialFunction(name="fz3", coefficients=[3, 0, 2, A + 1])
for val in (0, 2, X, X - A):
    attempt("  Pz3(%s)" % val, lambda: repr(fz3(val)))
attempt("  Pz3 coefficients", lambda: fz3.coefficients)
fr = ps.PolynomialFunction(name="fr", coefficients=[z3.Real("r"), 1])
attempt("  Pr(X) (ToReal warning)", lambda: repr(fr(X)))
attempt("  Pr(2)", lambda: repr(fr(2)))
fr2 = ps.PolynomialFunction(name="fr2", coefficients=[2, 1, z3.Real("r")])
attempt("  Pr2(X) (ToReal warning)", lambda: repr(fr2(X)))
attempt("  Pr2(2)", lambda: repr(fr2(2)))

pb = ps.SchedulingProblem(name="P4b", horizon=30)
c1 = ps.FixedDurationTask(name="c1", duration=3)
c2 = ps.VariableDurationTask(name="c2", min_duration=2, max_duration=5, optional=True)
cw1 = ps.Worker(name="cw1", cost=ps.PolynomialFunction(coefficients=[1, -16, 164]))
cw2 = ps.Worker(name="cw2", cost=ps.PolynomialFunction(coefficients=[0, 2, 0]))
cw3 = ps.Worker(name="cw3", cost=ps.PolynomialFunction(coefficients=[7]))
c1.add_required_resource(cw1)
c1.add_required_resource(cw3)
c2.add_required_resource(cw2)
ps.ForceScheduleNOptionalTasks(list_of_optional_tasks=[c2], nb_tasks_to_schedule=1)
ps.TaskStartAt(task=c2, value=4)
cost_ind = ps.IndicatorResourceCost(list_of_resources=[cw1, cw2, cw3])
ps.ObjectiveMinimizeIndicator(name="MinCost", target=cost_ind) if False else ps.Objective(
    name="MinCost", target=cost_ind, kind="minimize"
)
run_problem("4b. polynomial costs, minimize", pb, smt=False)

# --------------------------------------------------------------------------
# 5. buffers and indicators, optional loading task
# --------------------------------------------------------------------------
pb = ps.SchedulingProblem(name="P5", horizon=10)
b1 = ps.FixedDurationTask(name="b1", duration=2, due_date=1, due_date_is_deadline=False)
b2 = ps.FixedDurationTask(name="b2", duration=3, optional=True, due_date=9)
b3 = ps.ZeroDurationTask(name="b3", due_date=3, due_date_is_deadline=False)
buf = ps.NonConcurrentBuffer(name="Buf", initial_level=0, lower_bound=0)
buf2 = ps.ConcurrentBuffer(name="Buf2", initial_level=5, final_level=3)
ps.TaskLoadBuffer(task=b1, buffer=buf, quantity=4)
ps.TaskUnloadBuffer(task=b3, buffer=buf, quantity=4)
ps.TaskUnloadBuffer(task=b1, buffer=buf2, quantity=1)
ps.TaskUnloadBuffer(task=b3, buffer=buf2, quantity=1)
ps.TaskStartAt(task=b1, value=0)
ps.TaskStartAt(task=b3, value=5)
ps.IndicatorMaxBufferLevel(buffer=buf)
ps.IndicatorMinBufferLevel(buffer=buf2)
ps.IndicatorTardiness()
run_problem("5. buffers, indicators", pb)

# --------------------------------------------------------------------------
# 6. select workers / cumulative worker, optional tasks, datetime
# --------------------------------------------------------------------------
from datetime import datetime, timedelta

pb = ps.SchedulingProblem(
    name="P6",
    horizon=8,
    delta_time=timedelta(minutes=15),
    start_time=datetime(2024, 1, 1, 8, 0),
)
s1 = ps.FixedDurationTask(name="s1", duration=2)
s2 = ps.VariableDurationTask(name="s2", allowed_durations=[1, 3], optional=True)
s3 = ps.FixedDurationTask(name="s3", duration=2, optional=True, due_date=8)
wa = ps.Worker(name="wa")
wb = ps.Worker(name="wb")
cumul = ps.CumulativeWorker(name="cum", size=2)
sel = ps.SelectWorkers(list_of_workers=[wa, wb], nb_workers_to_select=1)
s1.add_required_resource(sel)
s2.add_required_resource(wa)
s3.add_required_resource(cumul)
s1.add_required_resource(cumul)
ps.ForceScheduleNOptionalTasks(list_of_optional_tasks=[s2, s3], nb_tasks_to_schedule=2)
ps.IndicatorResourceUtilization(resource=wa)
run_problem("6. select / cumulative workers, optional tasks, datetimes", pb)

# --------------------------------------------------------------------------
# 7. optimize solver (sexpr export), horizon variable, optional task
# --------------------------------------------------------------------------
pb = ps.SchedulingProblem(name="P7")
q1 = ps.FixedDurationTask(name="q1", duration=2, release_date=1)
q2 = ps.VariableDurationTask(name="q2", min_duration=1, optional=True, due_date=7)
q3 = ps.ZeroDurationTask(name="q3", optional=True)
ps.TaskPrecedence(task_before=q1, task_after=q2)
ps.ForceScheduleNOptionalTasks(list_of_optional_tasks=[q2, q3], nb_tasks_to_schedule=1)
ps.ObjectiveMinimizeMakespan()
run_problem("7. optimize solver", pb, solver_kwargs={"optimizer": "optimize"})

# --------------------------------------------------------------------------
# 8. JSON round trips of task definitions; set_assertions direct calls; errors
# --------------------------------------------------------------------------
section("8. JSON round trips, direct set_assertions calls, errors")
pb = ps.SchedulingProblem(name="P8", horizon=10)
defs = [
    ps.FixedDurationTask(name="j1", duration=3, optional=True, release_date=1, due_date=7),
    ps.ZeroDurationTask(name="j2", priority=0),
    ps.VariableDurationTask(
        name="j3", min_duration=0, max_duration=6, allowed_durations=[2, 6], optional=True
    ),
    ps.VariableDurationTask(name="j4", work_amount=0, due_date=0, due_date_is_deadline=False),
]
jsons = [(type(t), t.to_json()) for t in defs]
for cls, js in jsons:
    print(mask(json.dumps(json.loads(js), sort_keys=True)))
pb2 = ps.SchedulingProblem(name="P8b", horizon=10)
for cls, js in jsons:
    t = cls.model_validate_json(js)
    print("  reloaded", t.name, mask(json.dumps(json.loads(t.to_json()), sort_keys=True)) == mask(json.dumps(json.loads(js), sort_keys=True)))
show_task_assertions(pb2)
attempt("add_from_json", lambda: pb2.add_from_json(jsons[0][1].replace('"j1"', '"j1bis"')).get_z3_assertions())

pb3 = ps.SchedulingProblem(name="P8c", horizon=10)
d1 = ps.FixedDurationTask(name="d1", duration=1)
attempt("duplicate assertion, mandatory", lambda: d1.set_assertions([d1._start >= 0]))
attempt("new assertions, mandatory", lambda: (d1.set_assertions([d1._start >= 1, d1._end <= 5]), d1.get_z3_assertions())[1])
attempt("tuple of assertions", lambda: d1.set_assertions((d1._start >= 2,)))
attempt("empty list, mandatory", lambda: (d1.set_assertions([]), d1.get_z3_assertions())[1])
d2 = ps.FixedDurationTask(name="d2", duration=1, optional=True)
attempt("same list again, optional (duplicate If)", lambda: d2.set_assertions([d2._end - d2._start == 1, d2._start >= 0]))
attempt("empty list, optional", lambda: (d2.set_assertions([]), d2.get_z3_assertions())[1])
d3 = ps.VariableDurationTask(name="d3", optional=True, release_date=4)
attempt("var optional, extra list", lambda: (d3.set_assertions([d3._duration >= 2]), d3.get_z3_assertions())[1])
attempt("scheduled var names", lambda: (d2._scheduled, d3._scheduled, d1._scheduled))
attempt("bad allowed_durations 0", lambda: ps.VariableDurationTask(name="e1", allowed_durations=[0, 1]))
attempt("bad max_duration 0", lambda: ps.VariableDurationTask(name="e2", max_duration=0))
attempt("bad min_duration", lambda: ps.VariableDurationTask(name="e3", min_duration=-1))
attempt("bad duration 0", lambda: ps.FixedDurationTask(name="e4", duration=0))
attempt("same name", lambda: ps.VariableDurationTask(name="d3"))
ps.base.active_problem = None
import processscheduler.base
processscheduler.base.active_problem = None
attempt("no active problem", lambda: ps.VariableDurationTask(name="e5", allowed_durations=[1]))
