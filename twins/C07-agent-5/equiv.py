"""Equivalence script for the C07 refactoring (solver.py: build_solution and
_solve_optimize_incremental).

For a series of small problems it prints a canonical description of the outcome:
what the solver printed (computation times masked), the warnings, the returned
solution as json, and the sorted assertions the solver holds after solve() (the
"better than the incumbent" scopes must have been popped).

Run:  cd /tmp/t6_C07 && /venv/bin/python _twin/equiv.py > out.txt
"""
import contextlib
import io
import os
import re
import sys
import tempfile
import warnings
from datetime import datetime, timedelta

sys.path.insert(0, os.getcwd())

import processscheduler as ps  # noqa: E402
import processscheduler.solver as solver_module  # noqa: E402

assert solver_module.__file__.startswith(os.getcwd()), solver_module.__file__
# plain print instead of rich's, so that the captured text has no markup handling
solver_module.print = print

MASKS = [
    (re.compile(r"\d+\.\d+s"), "<T>s"),
    (re.compile(r"asst_[0-9a-f]{8}"), "asst_<ID>"),
    (re.compile(r"_[0-9]{20,}\b"), "_<LONGUID>"),
    (re.compile(r"_[0-9]{8}\b"), "_<UID>"),
    (re.compile(r"/tmp/tmp[A-Za-z0-9_]+"), "<TMPDIR>"),
]


def mask(text):
    for rx, repl in MASKS:
        text = rx.sub(repl, text)
    return text


def describe_solution(solution):
    if not solution:
        return f"NO SOLUTION ({solution!r})"
    return solution.to_json(compact=True)


def run(title, build, solver_kwargs, after=None, capture_stdout=True):
    print("=" * 70)
    print(title, mask(str(solver_kwargs)))
    out = io.StringIO()
    try:
        with warnings.catch_warnings(record=True) as caught:
            warnings.simplefilter("always")
            with contextlib.redirect_stdout(out):
                pb = build()
                solver = ps.SchedulingSolver(problem=pb, **solver_kwargs)
                solution = solver.solve()
                extra = after(solver, solution) if after is not None else None
        if capture_stdout:
            print("printed:")
            print(mask(out.getvalue()))
        for w in caught:
            if issubclass(w.category, (DeprecationWarning, PendingDeprecationWarning)):
                continue
            print("warning:", w.category.__name__, " ".join(str(w.message).split()))
        print("solution:", mask(describe_solution(solution)))
        if extra is not None:
            print("extra:", mask(str(extra)))
        assertions = sorted(
            mask(" ".join(str(a).split())) for a in solver._solver.assertions()
        )
        print(f"assertions after solve ({len(assertions)}):")
        if capture_stdout:
            for a in assertions:
                print("   ", a)
    except Exception as exc:  # the error raised is part of the outcome
        print("ERROR:", type(exc).__name__, mask(str(exc)))


#
# the problems
#
def pb_makespan_calendar(start_time=True, delta=True, optional=True):
    """three tasks on one worker, one of them optional, calendar times"""

    def build():
        kwargs = {}
        if delta:
            kwargs["delta_time"] = timedelta(minutes=15)
        if start_time:
            kwargs["start_time"] = datetime(2024, 2, 29, 8, 30)
        pb = ps.SchedulingProblem(name="Calendar", **kwargs)
        w = ps.Worker(name="W")
        t1 = ps.FixedDurationTask(name="T1", duration=3)
        t2 = ps.VariableDurationTask(name="T2", min_duration=2, max_duration=5)
        t3 = ps.ZeroDurationTask(name="T3")
        t4 = ps.FixedDurationTask(name="T4", duration=4, optional=optional)
        for t in (t1, t2, t4):
            t.add_required_resource(w)
        ps.TaskPrecedence(task_before=t1, task_after=t3)
        if optional:
            # T4 cannot be scheduled: it is left in the past, start == end
            ps.ConstraintFromExpression(expression=t4._scheduled == False)  # noqa
        ps.ObjectiveMinimizeMakespan()
        return pb

    return build


def pb_bounded_indicator(kind, bounds, horizon=12):
    """an indicator with bounds: the incremental optimiser stops on the bound"""

    def build():
        pb = ps.SchedulingProblem(name="Bounded", horizon=horizon)
        t1 = ps.FixedDurationTask(name="A", duration=2)
        t2 = ps.FixedDurationTask(name="B", duration=3)
        ps.TaskPrecedence(task_before=t1, task_after=t2)
        if None in bounds:
            # a one-sided bound is refused by the validation of the field: it is
            # set afterwards, the objective reads it when it is created
            ind = ps.IndicatorFromMathExpression(
                name="StartOfB", expression=t2._start - 2
            )
            ind.bounds = bounds
        else:
            ind = ps.IndicatorFromMathExpression(
                name="StartOfB", expression=t2._start - 2, bounds=bounds
            )
        if kind == "max":
            ps.ObjectiveMaximizeIndicator(target=ind)
        else:
            ps.ObjectiveMinimizeIndicator(target=ind)
        return pb

    return build


def pb_weighted(weights, kinds=("maximize", "maximize")):
    """two objectives of the same direction, replaced by their weighted sum"""

    def build():
        pb = ps.SchedulingProblem(name="Weighted", horizon=20)
        t1 = ps.FixedDurationTask(name="task1", duration=3)
        t2 = ps.FixedDurationTask(name="task2", duration=3)
        ps.ConstraintFromExpression(expression=t1._end == 20 - t2._start)
        i1 = ps.IndicatorFromMathExpression(name="Task1End", expression=t1._end)
        i2 = ps.IndicatorFromMathExpression(name="Task2End", expression=t2._end)
        ps.Objective(name="O1", target=i1, kind=kinds[0], weight=weights[0])
        ps.Objective(name="O2", target=i2, kind=kinds[1], weight=weights[1])
        return pb

    return build


def pb_climb(n_tasks=3, horizon=15):
    """the incremental optimiser needs many rounds (the window of the three last
    times is full and the extrapolation is computed)"""

    def build():
        pb = ps.SchedulingProblem(name="Climb", horizon=horizon)
        w = ps.Worker(name="M")
        tasks = []
        for i in range(n_tasks):
            t = ps.FixedDurationTask(name=f"J{i}", duration=i + 1, optional=(i == 0))
            t.add_required_resource(w)
            tasks.append(t)
        ps.ObjectiveTasksStartLatest()
        return pb

    return build


def pb_unsat():
    def build():
        pb = ps.SchedulingProblem(name="Unsat", horizon=4)
        w = ps.Worker(name="W")
        for i in range(2):
            t = ps.FixedDurationTask(name=f"U{i}", duration=3)
            t.add_required_resource(w)
        ps.ObjectiveMinimizeMakespan()
        return pb

    return build


def pb_select_cost():
    """alternative and cumulative workers, a buffer, a cost objective"""

    def build():
        pb = ps.SchedulingProblem(name="Cost", horizon=10)
        w1 = ps.Worker(name="W1", cost=ps.ConstantFunction(value=5))
        w2 = ps.Worker(name="W2", cost=ps.ConstantFunction(value=0))
        cw = ps.CumulativeWorker(name="CW", size=2)
        buf = ps.NonConcurrentBuffer(name="Buf", initial_level=0)
        t1 = ps.FixedDurationTask(name="P", duration=2)
        t2 = ps.FixedDurationTask(name="Q", duration=2, optional=True)
        t1.add_required_resource(
            ps.SelectWorkers(list_of_workers=[w1, w2], nb_workers_to_select=1)
        )
        t1.add_required_resource(cw)
        t2.add_required_resource(cw)
        ps.TaskLoadBuffer(task=t1, buffer=buf, quantity=3)
        ps.ObjectiveMinimizeResourceCost(list_of_resources=[w1, w2])
        return pb

    return build


def another_solution(solver, solution):
    # the solver is used again: the scopes of the first run must be gone
    sol2 = solver.find_another_solution()
    return "another: " + describe_solution(sol2)


def direct_incremental_default_kind(solver, solution):
    # call the incremental loop directly, with the default kind ("min") and a
    # plain z3 variable
    model = solver._solve_optimize_incremental(solver.problem._horizon, max_iter=3)
    return f"direct: horizon={model[solver.problem._horizon]}"


def main():
    tmp = tempfile.mkdtemp()
    cases = [
        ("1a calendar, start_time+delta, optional unscheduled",
         pb_makespan_calendar(True, True, True), {}),
        ("1b calendar, delta only, optional unscheduled",
         pb_makespan_calendar(False, True, True), {"optimizer": "optimize"}),
        ("1c calendar, start_time only (no delta), mandatory",
         pb_makespan_calendar(True, False, False), {}),
        ("1d no calendar, mandatory, builtin",
         pb_makespan_calendar(False, False, False), {"optimizer": "optimize"}),
        ("2a max indicator, upper bound reached", pb_bounded_indicator("max", (0, 5)), {}),
        ("2b min indicator, lower bound 0 reached", pb_bounded_indicator("min", (0, 5)), {}),
        ("2c min indicator, lower bound None", pb_bounded_indicator("min", (None, 5)), {}),
        ("2d max indicator, upper bound None", pb_bounded_indicator("max", (0, None)), {}),
        ("2e max indicator, bound never reached (-3, 100)",
         pb_bounded_indicator("max", (-3, 100)), {}),
        ("2f max indicator, builtin", pb_bounded_indicator("max", (0, 5)),
         {"optimizer": "optimize"}),
        ("3a weighted (1, 1) incremental", pb_weighted((1, 1)), {}),
        ("3b weighted (2, 0) incremental", pb_weighted((2, 0)), {}),
        ("3c weighted (1, 3) builtin weight", pb_weighted((1, 3)),
         {"optimizer": "optimize", "optimize_priority": "weight"}),
        ("3d weighted minimize (1, 2) incremental",
         pb_weighted((1, 2), ("minimize", "minimize")), {}),
        ("3e two objectives builtin lex", pb_weighted((1, 1)),
         {"optimizer": "optimize", "optimize_priority": "lex"}),
        ("4a climb, to the end", pb_climb(), {}),
        ("4b climb, max_iter 0", pb_climb(), {"max_iter": 0}),
        ("4c climb, max_iter 1", pb_climb(), {"max_iter": 1}),
        ("4d climb, max_iter 2", pb_climb(), {"max_iter": 2}),
        ("4e climb, max_iter 5", pb_climb(), {"max_iter": 5}),
        ("4f climb, builtin", pb_climb(), {"optimizer": "optimize"}),
        ("4g climb, intermediate states saved", pb_climb(2, 8),
         {"save_intermediate_states": True, "save_intermediate_states_path": tmp}),
        ("5a unsat incremental", pb_unsat(), {}),
        ("5b unsat builtin", pb_unsat(), {"optimizer": "optimize"}),
        ("6a cost, select workers, cumulative, buffer", pb_select_cost(), {}),
        ("6b cost, builtin", pb_select_cost(), {"optimizer": "optimize"}),
    ]
    for title, build, kwargs in cases:
        run(title, build, kwargs)

    run("7a solver reused after the incremental loop", pb_climb(2, 8), {},
        after=another_solution)
    run("7b incremental loop called directly, default kind", pb_unsat_free(), {},
        after=direct_incremental_default_kind)
    # debug mode: assert_and_track. The statistics z3 prints are not stable, only
    # the solution and the number of assertions are described
    run("8 debug mode", pb_bounded_indicator("min", (0, 5)), {"debug": True},
        capture_stdout=False)
    ps.SchedulingSolver(problem=ps.SchedulingProblem(name="reset"))  # verbosity back to 0

    # the intermediate states written by 4g
    print("=" * 70)
    for fn in sorted(os.listdir(tmp)):
        with open(os.path.join(tmp, fn)) as f:
            print(fn, mask(" ".join(f.read().split())))


def pb_unsat_free():
    def build():
        pb = ps.SchedulingProblem(name="Free")
        w = ps.Worker(name="W")
        for i in range(3):
            t = ps.FixedDurationTask(name=f"F{i}", duration=2)
            t.add_required_resource(w)
        ps.ObjectiveMaximizeResourceUtilization(resource=w)
        return pb

    return build


if __name__ == "__main__":
    main()
