"""Equivalence script for the C02 refactoring twin.

Run from the worktree root:  cd /tmp/t4_C02 && /venv/bin/python _twin/equiv.py
Prints, for every scenario, the sorted (and the ordered) list of the solver's
assertions with uuids masked, the solution values, or the error raised.
"""
import contextlib
import io
import os
import re
import sys

sys.path.insert(0, os.getcwd())

import processscheduler as ps  # noqa: E402
from processscheduler.resource import _distribute_p_over_n  # noqa: E402

assert os.path.dirname(ps.__file__).startswith(os.getcwd()), ps.__file__

UID = re.compile(r"\d{15,}")
AUTO_NAME = re.compile(r"([A-Za-z]+)_\d{8}\b")


def mask(text):
    """hide the random parts of names: uuids and automatic names"""
    return AUTO_NAME.sub(r"\1_<AUTO>", UID.sub("<UID>", str(text)))


def describe(problem, **solver_args):
    """build the solver, dump assertions, solve, dump solution"""
    out = []
    sink = io.StringIO()
    with contextlib.redirect_stdout(sink):
        solver = ps.SchedulingSolver(problem=problem, **solver_args)
        solver.initialize()
        assertions = [mask(a.sexpr()) for a in solver._solver.assertions()]
        solution = solver.solve()
    out.append("  nb assertions: %d" % len(assertions))
    out.append("  ordered digest:")
    out.extend("    | " + a.replace("\n", " ") for a in assertions)
    out.append("  sorted digest:")
    out.extend("    # " + a.replace("\n", " ") for a in sorted(assertions))
    if not solution:
        out.append("  solution: NONE (%r)" % (solution,))
    else:
        out.append("  horizon: %s" % solution.horizon)
        for name in sorted(solution.tasks):
            t = solution.tasks[name]
            out.append(
                "  task %s: start=%s end=%s dur=%s scheduled=%s assigned=%s"
                % (name, t.start, t.end, t.duration, t.scheduled, sorted(t.assigned_resources))
            )
        for name in sorted(solution.resources):
            r = solution.resources[name]
            out.append("  resource %s (%s): %s" % (name, r.type, sorted(r.assignments)))
        for name in sorted(solution.indicators):
            out.append("  indicator %s = %s" % (name, solution.indicators[name]))
    return out


def scenario(title):
    def deco(func):
        print("=" * 70)
        print("SCENARIO", mask(title))
        try:
            lines = func()
        except Exception as exc:  # pylint: disable=broad-except
            lines = ["  ERROR %s: %s" % (type(exc).__name__, mask(exc))]
        for line in lines:
            print(mask(line))
        return func

    return deco


# ---------------------------------------------------------------- 1
@scenario("1. single workers, shared, no overlap, 0/1/3 busy intervals")
def _():
    pb = ps.SchedulingProblem(name="S1", horizon=12)
    tasks = [ps.FixedDurationTask(name="T%d" % i, duration=i + 1) for i in range(4)]
    w_three = ps.Worker(name="W3")
    w_one = ps.Worker(name="W1")
    ps.Worker(name="W0")  # never used: no busy interval
    for t in tasks[:3]:
        t.add_required_resource(w_three)
    tasks[3].add_required_resource(w_one)
    tasks[3].add_required_resource(w_three)
    return describe(pb)


# ---------------------------------------------------------------- 2
@scenario("2. cumulative worker size 3, productivity 7, cost 5, five tasks")
def _():
    pb = ps.SchedulingProblem(name="S2", horizon=6)
    cumul = ps.CumulativeWorker(
        name="CW", size=3, productivity=7, cost=ps.ConstantFunction(value=5)
    )
    lines = [
        "  elementary: %s"
        % [(w.name, w.productivity, w.cost.value) for w in cumul._cumulative_workers]
    ]
    for i in range(5):
        t = ps.FixedDurationTask(name="C%d" % i, duration=3, work_amount=(6 if i == 0 else 0))
        t.add_required_resource(cumul)
    return lines + describe(pb)


# ---------------------------------------------------------------- 3
for KIND in ("exact", "min", "max"):
    for NB in (1, 2, 3):

        @scenario("3. select workers kind=%s nb=%d with a cumulative in the list" % (KIND, NB))
        def _(kind=KIND, nb=NB):
            pb = ps.SchedulingProblem(name="S3", horizon=10)
            w_a = ps.Worker(name="A", productivity=2)
            w_b = ps.Worker(name="B", productivity=0)
            w_c = ps.Worker(name="C", productivity=1)
            sel = ps.SelectWorkers(
                list_of_workers=[w_a, w_b, w_c], nb_workers_to_select=nb, kind=kind
            )
            lines = [
                "  _list_of_workers: %s" % [w.name for w in sel._list_of_workers],
                "  _selection_dict: %s"
                % [(w.name, mask(b)) for w, b in sel._selection_dict.items()],
                "  _selection_assertion: %s" % mask(sel._selection_assertion),
                "  serialised: %s" % sel.model_dump(),
            ]
            t_1 = ps.FixedDurationTask(name="X1", duration=3, work_amount=4)
            t_2 = ps.VariableDurationTask(name="X2", work_amount=5, optional=True)
            t_1.add_required_resource(sel)
            t_2.add_required_resource(w_a)
            t_2.add_required_resource(w_c, dynamic=True)
            return lines + describe(pb)


# ---------------------------------------------------------------- 4
@scenario("4a. select workers over cumulative workers: flattening")
def _():
    pb = ps.SchedulingProblem(name="S4", horizon=8)
    cw_1 = ps.CumulativeWorker(name="K1", size=2, productivity=3)
    cw_2 = ps.CumulativeWorker(name="K2", size=3)
    w = ps.Worker(name="solo")
    sel = ps.SelectWorkers(list_of_workers=[cw_1, w, cw_2], nb_workers_to_select=2, kind="min")
    return [
        "  _list_of_workers: %s" % [x.name for x in sel._list_of_workers],
        "  _selection_dict: %s" % [(x.name, mask(b)) for x, b in sel._selection_dict.items()],
        "  _selection_assertion: %s" % mask(sel._selection_assertion),
        "  registered: %s" % (sel in pb.select_workers.values() if hasattr(pb, "select_workers") else "n/a"),
    ]


@scenario("4b. select workers with the same worker twice")
def _():
    ps.SchedulingProblem(name="S4b", horizon=8)
    w = ps.Worker(name="dup")
    v = ps.Worker(name="other")
    sel = ps.SelectWorkers(list_of_workers=[w, v, w], nb_workers_to_select=3, kind="max")
    return [
        "  _list_of_workers: %s" % [x.name for x in sel._list_of_workers],
        "  _selection_dict: %s" % [(x.name, mask(b)) for x, b in sel._selection_dict.items()],
        "  _selection_assertion: %s" % mask(sel._selection_assertion),
    ]


for ARGS in (
    dict(nb_workers_to_select=3),
    dict(nb_workers_to_select=2),
    dict(nb_workers_to_select=0),
    dict(nb_workers_to_select=1, kind="atleast"),
    dict(nb_workers_to_select=5, kind="atleast"),
    dict(),
):

    @scenario("4c. select workers errors %s" % (ARGS,))
    def _(args=ARGS):
        ps.SchedulingProblem(name="S4c", horizon=8)
        w = ps.Worker(name="e1")
        v = ps.Worker(name="e2")
        sel = ps.SelectWorkers(list_of_workers=[w, v], **args)
        return ["  ok: %s" % mask(sel._selection_assertion)]


@scenario("4d. select workers with a too short list")
def _():
    ps.SchedulingProblem(name="S4d", horizon=8)
    w = ps.Worker(name="e1")
    sel = ps.SelectWorkers(list_of_workers=[w], nb_workers_to_select=4)
    return ["  ok: %s" % mask(sel._selection_assertion)]


# ---------------------------------------------------------------- 5
class _MyInt(int):
    pass


for P, N in (
    (None, 3),
    (None, 0),
    (None, -1),
    (0, 2),
    (7, 3),
    (7, 1),
    (2, 5),
    (-7, 3),
    (True, 2),
    (_MyInt(9), 4),
    (ps.ConstantFunction(value=11), 4),
    (ps.ConstantFunction(value=0), 2),
    (ps.ConstantFunction(value=7.5), 2),
    (ps.LinearFunction(slope=1, intercept=2), 2),
    ("7", 2),
    (7.0, 2),
    (7, 0),
    (7, -2),
    (ps.ConstantFunction(value=2.5), 0),
    (7, 2.0),
    (None, 2.0),
):

    @scenario("5. _distribute_p_over_n(%r, %r)" % (P, N))
    def _(p=P, n=N):
        return ["  -> %r" % (_distribute_p_over_n(p, n),)]


for SIZE, PROD in ((1, 1), (2, 0), (2, 1), (4, 10)):

    @scenario("5b. CumulativeWorker(size=%d, productivity=%d)" % (SIZE, PROD))
    def _(size=SIZE, prod=PROD):
        ps.SchedulingProblem(name="S5b", horizon=8)
        cw = ps.CumulativeWorker(name="Q", size=size, productivity=prod)
        return ["  %s" % [(w.name, w.productivity, w.cost.value) for w in cw._cumulative_workers]]


# ---------------------------------------------------------------- 6
@scenario("6. work amount, delay_in / early_out, dynamic, optional, zero productivity")
def _():
    pb = ps.SchedulingProblem(name="S6")
    w_fast = ps.Worker(name="fast", productivity=3)
    w_slow = ps.Worker(name="slow", productivity=1)
    w_idle = ps.Worker(name="idle", productivity=0)
    t_1 = ps.VariableDurationTask(name="V1", work_amount=12)
    t_2 = ps.VariableDurationTask(name="V2", work_amount=7, max_duration=9)
    t_3 = ps.FixedDurationTask(name="F3", duration=4, optional=True, work_amount=3)
    t_4 = ps.ZeroDurationTask(name="Z4")
    t_1.add_required_resource(w_fast, delay_in=1, early_out=2)
    t_1.add_required_resource(w_slow)
    t_2.add_required_resource(w_fast)
    t_2.add_required_resource(w_idle, dynamic=True)
    t_3.add_required_resource(w_slow, delay_in=0, early_out=1)
    t_3.add_required_resource(w_idle)
    t_4.add_required_resource(w_fast)
    ps.ObjectiveMinimizeMakespan()
    return describe(pb)


# ---------------------------------------------------------------- 7
@scenario("7. cumulative size 2 saturated: unsat with 3 parallel tasks in a short horizon")
def _():
    pb = ps.SchedulingProblem(name="S7", horizon=3)
    cumul = ps.CumulativeWorker(name="M", size=2)
    for i in range(3):
        ps.FixedDurationTask(name="P%d" % i, duration=2).add_required_resource(cumul)
    return describe(pb)


# ---------------------------------------------------------------- 8
@scenario("8. two select workers sharing candidates + cumulative, incremental optimizer")
def _():
    pb = ps.SchedulingProblem(name="S8", horizon=9)
    ws = [ps.Worker(name="w%d" % i, productivity=i) for i in range(3)]
    cumul = ps.CumulativeWorker(name="G", size=2, productivity=3)
    sel_1 = ps.SelectWorkers(list_of_workers=ws, nb_workers_to_select=2, kind="exact")
    sel_2 = ps.SelectWorkers(list_of_workers=[ws[0], cumul], nb_workers_to_select=1, kind="max")
    t_1 = ps.FixedDurationTask(name="Y1", duration=4, work_amount=8)
    t_2 = ps.FixedDurationTask(name="Y2", duration=3)
    t_3 = ps.FixedDurationTask(name="Y3", duration=2, optional=True)
    t_1.add_required_resource(sel_1)
    t_2.add_required_resource(sel_1_b := ps.SelectWorkers(list_of_workers=ws[1:], kind="min"))
    t_2.add_required_resource(cumul)
    t_3.add_required_resource(ws[0])
    t_3.add_required_resource(ws[1])
    lines = ["  sel_2 assertion: %s" % mask(sel_2._selection_assertion),
             "  sel_1_b assertion: %s" % mask(sel_1_b._selection_assertion)]
    ps.ObjectiveMaximizeResourceUtilization(resource=ws[1]) if hasattr(ps, "ObjectiveMaximizeResourceUtilization") else None
    return lines + describe(pb)
