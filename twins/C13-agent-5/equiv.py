"""Equivalence harness for the C13 refactoring (solver.py: build_solution calendar
times, _solve_optimize_incremental).  Prints a canonical description of the outcome
of sequences of solver calls on small problems.  Run from /tmp/t6_C13."""
import contextlib
import io
import os
import re
import sys
import tempfile
import warnings
from datetime import datetime, timedelta

sys.path.insert(0, os.getcwd())

# deterministic uuids (the library names some z3 variables and tracking labels after
# uuid4; z3's model choice depends on the names).  Must be patched before the import.
import random as _random  # noqa: E402
import uuid as _uuid  # noqa: E402

_rng = _random.Random(20240613)
_uuid.uuid4 = lambda: _uuid.UUID(int=_rng.getrandbits(128), version=4)

import z3  # noqa: E402
import processscheduler as ps  # noqa: E402

assert os.path.dirname(ps.__file__).startswith(os.getcwd()), ps.__file__

MASKS = [
    (re.compile(r"asst_[0-9a-f]{8}"), "asst_XXXXXXXX"),
    (re.compile(r"\d+\.\d+s"), "T.TTs"),
    (re.compile(r"[0-9a-f]{32}"), "UUID"),
    # z3 statistics that depend on the process, not on the problem
    (re.compile(r"(num allocs|max memory|memory|time): *[0-9.e+]+"), r"\1: N"),
]


def mask(text):
    for rx, rep in MASKS:
        text = rx.sub(rep, text)
    return text


def describe_solution(sol):
    if sol is False or sol is None:
        return repr(sol)
    out = [f"horizon={sol.horizon}"]
    for name in sorted(sol.tasks):
        t = sol.tasks[name]
        d = {k: getattr(t, k) for k in type(t).model_fields}
        out.append(f"task {name}: " + ", ".join(f"{k}={d[k]!r}" for k in sorted(d)))
    for name in sorted(sol.resources):
        r = sol.resources[name]
        out.append(f"resource {name}: type={r.type} assignments={r.assignments!r}")
    for name in sorted(sol.buffers):
        b = sol.buffers[name]
        out.append(f"buffer {name}: level={b.level!r} times={b.level_change_times!r}")
    for name in sorted(sol.indicators):
        out.append(f"indicator {name}={sol.indicators[name]!r}")
    return "\n    ".join(out)


def assertions_of(solver):
    if solver._solver is None:
        return ["<no z3 solver>"]
    return sorted(mask(str(a)) for a in solver._solver.assertions())


def step(label, fn, solver=None, show_assertions=False):
    buf = io.StringIO()
    with warnings.catch_warnings(record=True) as caught:
        warnings.simplefilter("always")
        try:
            with contextlib.redirect_stdout(buf):
                res = fn()
            outcome = describe_solution(res) if not isinstance(res, str) else res
        except Exception as exc:  # the error is part of the behaviour
            outcome = f"RAISED {type(exc).__name__}: {exc}"
    print(f"  [{label}]")
    print("    " + mask(outcome))
    for w in caught:
        print("    WARNING " + " ".join(str(w.message).split()))
    printed = [l for l in mask(buf.getvalue()).splitlines() if l.strip()]
    print("    stdout: " + " | ".join(l.strip() for l in printed))
    if solver is not None:
        assts = assertions_of(solver)
        print(f"    nb assertions after: {len(assts)}")
        if show_assertions:
            for a in assts:
                print("      A " + " ".join(a.split()))


def scenario(title):
    print("=" * 70)
    print(title)


def export(solver):
    fd, fn = tempfile.mkstemp(suffix=".smt2")
    os.close(fd)
    try:
        solver.export_to_smt2(fn)
        with open(fn, encoding="utf-8") as f:
            content = f.read()
    finally:
        os.remove(fn)
    import hashlib

    return "smt2 sha1=" + hashlib.sha1(mask(content).encode()).hexdigest()[:16]


# ---------------------------------------------------------------- 1
scenario("1. makespan minimisation, incremental: solve / solve / another / another")
pb = ps.SchedulingProblem(name="P1")
t1 = ps.FixedDurationTask(name="t1", duration=3)
t2 = ps.FixedDurationTask(name="t2", duration=2)
t3 = ps.VariableDurationTask(name="t3", min_duration=0, max_duration=4)
w = ps.Worker(name="w")
for t in (t1, t2, t3):
    t.add_required_resource(w)
ps.TaskPrecedence(task_before=t1, task_after=t2)
ps.ObjectiveMinimizeMakespan()
s = ps.SchedulingSolver(problem=pb)
step("export before anything", lambda: export(s), s)
step("solve #1", s.solve, s, show_assertions=True)
step("solve #2", s.solve, s, show_assertions=True)
step("another #1", s.find_another_solution, s)
step("another #2", s.find_another_solution, s)
step("another for t3 start", lambda: s.find_another_solution_for_variable(t3._start), s)
step("export after", lambda: export(s), s)

# ---------------------------------------------------------------- 2
scenario("2. maximise an indicator with bounds (bound reached), incremental, twice")
pb = ps.SchedulingProblem(name="P2", horizon=10)
a = ps.FixedDurationTask(name="A", duration=5)
b = ps.FixedDurationTask(name="B", duration=5)
w1 = ps.Worker(name="W1")
w2 = ps.Worker(name="W2")
a.add_required_resource(ps.SelectWorkers(list_of_workers=[w1, w2]))
b.add_required_resource(ps.SelectWorkers(list_of_workers=[w1, w2]))
u1 = ps.IndicatorResourceUtilization(resource=w1)
u2 = ps.IndicatorResourceUtilization(resource=w2)
ps.Objective(name="MaxU1", target=u1, kind="maximize")
s = ps.SchedulingSolver(problem=pb)
step("solve #1", s.solve, s)
step("solve #2", s.solve, s)
step("another", s.find_another_solution, s)
step("solve #3", s.solve, s)

# ---------------------------------------------------------------- 3
scenario("3. minimise a bounded indicator whose lower bound 0 is reached at once")
pb = ps.SchedulingProblem(name="P3", horizon=6)
a = ps.FixedDurationTask(name="A", duration=2)
b = ps.ZeroDurationTask(name="B")
ind = ps.IndicatorFromMathExpression(name="StartA", expression=a._start, bounds=(0, 4))
ps.ObjectiveMinimizeIndicator(target=ind)
s = ps.SchedulingSolver(problem=pb)
step("initialize", lambda: repr(s.initialize()), s, show_assertions=True)
step("solve #1", s.solve, s)
step("solve #2", s.solve, s)
for i in range(3):
    step(f"another #{i+1}", s.find_another_solution, s)

# ---------------------------------------------------------------- 4
scenario("4. maximise unbounded start (walk of several iterations), max_iter variants")
for max_iter in (None, 1, 2, 0):
    pb = ps.SchedulingProblem(name=f"P4_{max_iter}", horizon=7)
    a = ps.FixedDurationTask(name="A", duration=2)
    o = ps.FixedDurationTask(name="O", duration=3, optional=True)
    ps.TaskPrecedence(task_before=a, task_after=o)
    ind = ps.IndicatorFromMathExpression(name="StartA", expression=a._start * 2)
    ps.Objective(name="obj", target=ind, kind="maximize")
    kwargs = {} if max_iter is None else {"max_iter": max_iter}
    s = ps.SchedulingSolver(problem=pb, **kwargs)
    step(f"max_iter={max_iter} solve #1", s.solve, s)
    step(f"max_iter={max_iter} solve #2", s.solve, s)
    step(f"max_iter={max_iter} another", s.find_another_solution, s)

# ---------------------------------------------------------------- 5
scenario("5. two objectives, incremental (weighted sum), min and max kinds")
for kinds in (("minimize", "minimize"), ("maximize", "maximize")):
    pb = ps.SchedulingProblem(name="P5" + kinds[0], horizon=9)
    a = ps.FixedDurationTask(name="A", duration=2)
    b = ps.VariableDurationTask(name="B", max_duration=3)
    w = ps.Worker(name="W")
    a.add_required_resource(w)
    b.add_required_resource(w)
    i1 = ps.IndicatorFromMathExpression(name="EndA", expression=a._end)
    i2 = ps.IndicatorFromMathExpression(name="EndB", expression=b._end)
    ps.Objective(name="o1", target=i1, kind=kinds[0], weight=2)
    ps.Objective(name="o2", target=i2, kind=kinds[1], weight=1)
    s = ps.SchedulingSolver(problem=pb, optimizer="incremental")
    step(f"{kinds} solve #1", s.solve, s, show_assertions=True)
    step(f"{kinds} solve #2", s.solve, s, show_assertions=True)
    step(f"{kinds} another", s.find_another_solution, s)

# ---------------------------------------------------------------- 6
scenario("6. infeasible optimisation problem: False, then False again")
pb = ps.SchedulingProblem(name="P6", horizon=3)
a = ps.FixedDurationTask(name="A", duration=2)
b = ps.FixedDurationTask(name="B", duration=2)
w = ps.Worker(name="W")
a.add_required_resource(w)
b.add_required_resource(w)
ps.ObjectiveMinimizeMakespan()
s = ps.SchedulingSolver(problem=pb)
step("solve #1", s.solve, s)
step("solve #2", s.solve, s)
step("another without model", s.find_another_solution, s)

# ---------------------------------------------------------------- 7
scenario("7. calendar times: delta_time with and without start_time, optional tasks")
for start_time in (datetime(2024, 2, 28, 22, 30), None):
    for optimize in (True, False):
        extra = {} if start_time is None else {"start_time": start_time}
        pb = ps.SchedulingProblem(
            name="P7", horizon=8, delta_time=timedelta(minutes=45), **extra
        )
        a = ps.FixedDurationTask(name="A", duration=3)
        o1 = ps.FixedDurationTask(name="O1", duration=4, optional=True)
        o2 = ps.FixedDurationTask(name="O2", duration=2, optional=True)
        z = ps.ZeroDurationTask(name="Z")
        v = ps.VariableDurationTask(name="V", min_duration=1, max_duration=2)
        w = ps.Worker(name="W")
        for t in (a, o1, o2, v):
            t.add_required_resource(w)
        ps.TaskStartAt(task=z, value=0)
        ps.ForceScheduleNOptionalTasks(
            list_of_optional_tasks=[o1, o2], nb_tasks_to_schedule=1
        )
        if optimize:
            ps.ObjectiveMinimizeMakespan()
        s = ps.SchedulingSolver(problem=pb)
        lab = f"start_time={start_time} optimize={optimize}"
        step(lab + " solve #1", s.solve, s)
        step(lab + " solve #2", s.solve, s)
        step(lab + " another", s.find_another_solution, s)

# ---------------------------------------------------------------- 8
scenario("8. no delta_time but a start_time; no objective; exhaust the solutions")
pb = ps.SchedulingProblem(name="P8", horizon=3, start_time=datetime(2020, 1, 1))
a = ps.FixedDurationTask(name="A", duration=2)
s = ps.SchedulingSolver(problem=pb)
step("another before solve", s.find_another_solution, s)
step("solve", s.solve, s)
for i in range(3):
    step(f"another #{i+1}", s.find_another_solution, s)
step("solve after exhaustion", s.solve, s)

# ---------------------------------------------------------------- 9
scenario("9. save_intermediate_states during the incremental walk")
with tempfile.TemporaryDirectory() as tmpdir:
    pb = ps.SchedulingProblem(name="P9", horizon=5)
    a = ps.FixedDurationTask(name="A", duration=2)
    ind = ps.IndicatorFromMathExpression(name="StartA", expression=a._start)
    ps.Objective(name="obj", target=ind, kind="maximize")
    s = ps.SchedulingSolver(
        problem=pb, save_intermediate_states=True, save_intermediate_states_path=tmpdir
    )
    step("solve #1", s.solve, s)
    print("    files:", sorted(os.listdir(tmpdir)))
    step("solve #2", s.solve, s)
    print("    files:", sorted(os.listdir(tmpdir)))

# ---------------------------------------------------------------- 10
scenario("10. debug mode, incremental minimisation with a buffer, solved twice")
pb = ps.SchedulingProblem(name="P10", horizon=9)
a = ps.FixedDurationTask(name="A", duration=2)
b = ps.FixedDurationTask(name="B", duration=1)
buf = ps.NonConcurrentBuffer(name="Buf", initial_level=1, lower_bound=0)
ps.TaskUnloadBuffer(task=a, buffer=buf, quantity=1)
ps.TaskLoadBuffer(task=b, buffer=buf, quantity=2)
ps.ObjectiveMinimizeMakespan()
s = ps.SchedulingSolver(problem=pb, debug=True)
step("solve #1", s.solve, s, show_assertions=True)
step("solve #2", s.solve, s)
step("another", s.find_another_solution, s)
z3.set_option(unsat_core=False)
z3.set_option("verbose", 0)

# ---------------------------------------------------------------- 11
scenario("11. z3 Optimize back end with calendar times, mixed calls")
pb = ps.SchedulingProblem(
    name="P11", delta_time=timedelta(hours=1), start_time=datetime(2021, 12, 31, 23)
)
a = ps.FixedDurationTask(name="A", duration=2)
o = ps.FixedDurationTask(name="O", duration=1, optional=True)
ps.TaskPrecedence(task_before=a, task_after=o)
ps.ObjectiveMinimizeMakespan()
s = ps.SchedulingSolver(problem=pb, optimizer="optimize")
step("export", lambda: export(s), s)
step("solve #1", s.solve, s)
step("solve #2", s.solve, s)
step("another", s.find_another_solution, s)

# ---------------------------------------------------------------- 12
scenario("12. direct calls of _solve_optimize_incremental with kind spellings")
pb = ps.SchedulingProblem(name="P12", horizon=4)
a = ps.FixedDurationTask(name="A", duration=1)
ps.ObjectiveMinimizeMakespan()
s = ps.SchedulingSolver(problem=pb)
with contextlib.redirect_stdout(io.StringIO()):
    s.initialize()
for kind in ("min", "max", "minimize", None):
    def call(kind=kind):
        m = s._solve_optimize_incremental(a._start, kind=kind, max_iter=3)
        return f"A_start={m[a._start]}" if m else repr(m)

    step(f"kind={kind!r}", call, s)

# ---------------------------------------------------------------- 13
scenario("13. time limits of the incremental walk, with a deterministic fake clock")
import time as _time  # noqa: E402


@contextlib.contextmanager
def fake_clock(durations):
    """every pair of perf_counter() calls measures the next duration of the list
    (the last one is repeated)"""
    state = {"now": 0.0, "calls": 0}
    real = _time.perf_counter

    def perf_counter():
        k = state["calls"]
        state["calls"] += 1
        if k % 2 == 1:
            state["now"] += durations[min(k // 2, len(durations) - 1)]
        return state["now"]

    _time.perf_counter = perf_counter
    try:
        yield
    finally:
        _time.perf_counter = real


for label, durations, kwargs in (
    ("extrapolated", [1, 2, 4, 8, 16], {}),
    ("exceeded", [1, 30], {}),
    ("exceeded at once", [7.5], {"max_time": 7}),
    ("flat", [0.5], {"max_time": 3}),
):
    pb = ps.SchedulingProblem(name="P13", horizon=12)
    a = ps.FixedDurationTask(name="A", duration=2)
    o = ps.VariableDurationTask(name="O", optional=True)
    ind = ps.IndicatorFromMathExpression(name="StartA", expression=a._start)
    ps.Objective(name="obj", target=ind, kind="maximize")
    s = ps.SchedulingSolver(problem=pb, **kwargs)

    def timed_solve(s=s, durations=durations):
        with fake_clock(durations):
            return s.solve()

    step(f"{label} solve #1", timed_solve, s, show_assertions=True)
    step(f"{label} solve #2", timed_solve, s)
    step(f"{label} another (real clock)", s.find_another_solution, s)
    step(f"{label} solve (real clock)", s.solve, s, show_assertions=True)
