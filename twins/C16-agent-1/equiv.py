"""Equivalence check for the C16 refactoring (SchedulingSolution.to_df and the
excel exporter).  Prints a canonical description of every export of several
small problems and of several hand made solutions."""
import hashlib
import os
import re
import sys
import tempfile
import zipfile

sys.path.insert(0, os.getcwd())

import processscheduler as ps
from processscheduler.solution import (
    SchedulingSolution,
    TaskSolution,
    ResourceSolution,
    BufferSolution,
)

TMP = tempfile.mkdtemp(prefix="c16_equiv_")
# auto generated names end with a random integer (8 digits, or the whole uid)
UUID = re.compile(r"(?<=_)\d{8,}")
TIMING = re.compile(r"\d+\.\d+s\b")


def mask(text):
    """mask the random parts of generated names (uuids and 8 digits suffixes)
    and the timings printed by the solver"""
    return TIMING.sub("<T>s", UUID.sub("<ID>", text))


def describe_xlsx(path):
    """every xml part of the workbook, except the document properties
    (they hold the creation date)"""
    out = []
    with zipfile.ZipFile(path) as z:
        for name in sorted(z.namelist()):
            if name.startswith("docProps/"):
                continue
            data = z.read(name)
            out.append(f"    {name} {len(data)} {hashlib.sha256(data).hexdigest()}")
            if name.startswith("xl/worksheets/") or name == "xl/sharedStrings.xml":
                out.append("      " + data.decode("utf8"))
    return "\n".join(out)


def describe_solution(label, solution):
    print("=" * 70)
    print("CASE", label)
    if not solution:
        print("  no solution:", repr(solution))
        return
    for tn, t in solution.tasks.items():
        print(
            "  task", tn, t.start, t.end, t.duration, t.scheduled, t.optional,
            t.assigned_resources, t.due_date, t.release_date,
        )
    for rn, r in solution.resources.items():
        print("  resource", rn, r.assignments)
    for bn, b in solution.buffers.items():
        print("  buffer", bn, b.level_change_times, b.level)
    print("  indicators", dict(solution.indicators))
    # data frame
    try:
        frame = solution.to_df()
        print("  df.columns", list(frame.columns))
        print("  df.dtypes", [str(d) for d in frame.dtypes])
        print("  df.shape", frame.shape)
        for row in frame.values.tolist():
            print("  df.row", [(type(v).__name__, v) for v in row])
        # the lists in the frame are the very objects of the solution
        if len(frame):
            print(
                "  df shares resource lists",
                all(
                    frame["Allocated Resources"][i] is t.assigned_resources
                    for i, t in enumerate(solution.tasks.values())
                ),
            )
        print("  str(solution)")
        print(str(solution))
    except Exception as exc:  # pylint: disable=broad-except
        print("  to_df error", type(exc).__name__, exc)
    # csv
    for kwargs in ({}, {"separator": ";"}, {"separator": "\t"}):
        try:
            print("  csv", kwargs, repr(solution.to_csv(**kwargs)))
        except Exception as exc:  # pylint: disable=broad-except
            print("  csv error", kwargs, type(exc).__name__, exc)
    csv_path = os.path.join(TMP, f"{label}.csv")
    print("  csv file returns", solution.to_csv(csv_filename=csv_path))
    with open(csv_path, encoding="utf8") as f:
        print("  csv file", repr(f.read()))
    # excel
    for colors in (False, True):
        xlsx = os.path.join(TMP, f"{label}_{colors}.xlsx")
        try:
            print("  excel returns", colors, solution.to_excel_file(xlsx, colors=colors))
            print(describe_xlsx(xlsx))
        except Exception as exc:  # pylint: disable=broad-except
            print("  excel error", colors, type(exc).__name__, exc)
    # json
    try:
        print("  json", mask(solution.to_json()))
    except Exception as exc:  # pylint: disable=broad-except
        print("  json error", type(exc).__name__, exc)


def solve(label, pb, solver=None):
    solver = solver or ps.SchedulingSolver(problem=pb, random_values=False)
    solution = solver.solve()
    describe_solution(label, solution)
    smt = os.path.join(TMP, f"{label}.smt2")
    solver.export_to_smt2(smt)
    with open(smt, encoding="utf8") as f:
        content = mask(f.read())
    print("  smt2", len(content), hashlib.sha256(content.encode()).hexdigest())
    print(
        "  assertions",
        hashlib.sha256(
            "\n".join(sorted(mask(str(a)) for a in solver._solver.assertions())).encode()
        ).hexdigest(),
    )


def case_excavator():
    pb = ps.SchedulingProblem(name="Excavators")
    small = ps.VariableDurationTask(name="DigSmallHole", work_amount=3)
    medium = ps.VariableDurationTask(name="DigMediumHole", work_amount=7)
    huge = ps.VariableDurationTask(name="DigHugeHole", work_amount=15)
    w1 = ps.Worker(name="SmallExcavator", productivity=4, cost=ps.ConstantFunction(value=5))
    w2 = ps.Worker(name="MediumExcavator", productivity=6, cost=ps.ConstantFunction(value=10))
    for t in (small, medium, huge):
        t.add_required_resource(
            ps.SelectWorkers(list_of_workers=[w1, w2], nb_workers_to_select=1, kind="min")
        )
    ps.IndicatorResourceCost(list_of_resources=[w1, w2])
    solve("excavator", pb)


def case_due_dates():
    """tasks with due dates (deadline or not), start 0, due date 0"""
    pb = ps.SchedulingProblem(name="DueDates", horizon=12)
    t1 = ps.FixedDurationTask(name="t1", duration=1, due_date=0, due_date_is_deadline=False)
    t2 = ps.FixedDurationTask(name="t2", duration=3, due_date=9, due_date_is_deadline=True)
    t3 = ps.FixedDurationTask(name="t3", duration=2, release_date=4)
    t4 = ps.FixedDurationTask(name="t4", duration=2, due_date=3, due_date_is_deadline=False)
    w = ps.Worker(name="w")
    for t in (t1, t2, t3, t4):
        t.add_required_resource(w)
    ps.TaskStartAt(task=t1, value=0)
    ps.TaskStartAt(task=t4, value=8)
    ps.TaskPrecedence(task_before=t2, task_after=t3)
    solve("due_dates", pb)


def case_optional():
    """optional tasks, one forced out, one forced in; zero duration task"""
    pb = ps.SchedulingProblem(name="Optional", horizon=10)
    a = ps.FixedDurationTask(name="a", duration=2, optional=True, due_date=5)
    b = ps.FixedDurationTask(name="b", duration=1, optional=True)
    c = ps.ZeroDurationTask(name="c")
    d = ps.FixedDurationTask(name="d", duration=4)
    w1 = ps.Worker(name="w1")
    w2 = ps.Worker(name="w2")
    a.add_required_resource(w1)
    b.add_required_resource(w2)
    d.add_required_resources([w1, w2])
    ps.OptionalTaskForceSchedule(task=a, to_be_scheduled=False)
    ps.ForceScheduleNOptionalTasks(list_of_optional_tasks=[a, b], nb_tasks_to_schedule=1)
    ps.TaskStartAt(task=c, value=0)
    ps.TaskStartAt(task=d, value=3)
    ps.IndicatorResourceUtilization(resource=w1)
    solve("optional", pb)


def case_buffer():
    pb = ps.SchedulingProblem(name="Buffers")
    t1 = ps.FixedDurationTask(name="task1", duration=3)
    t2 = ps.FixedDurationTask(name="task2", duration=1)
    b1 = ps.NonConcurrentBuffer(name="Buffer1", initial_level=10)
    b2 = ps.NonConcurrentBuffer(name="Buffer2", initial_level=0)
    ps.TaskStartAt(task=t1, value=5)
    ps.TaskStartAt(task=t2, value=0)
    ps.TaskUnloadBuffer(task=t1, buffer=b1, quantity=3)
    ps.TaskLoadBuffer(task=t1, buffer=b2, quantity=2)
    ps.TaskUnloadBuffer(task=t2, buffer=b1, quantity=1)
    ps.ObjectiveMinimizeMakespan()
    solve("buffer", pb)


def case_no_resource():
    """tasks without resources, no resource sheet rows; a single task"""
    pb = ps.SchedulingProblem(name="NoResource", horizon=7)
    t = ps.FixedDurationTask(name="only", duration=7)
    ps.IndicatorFromMathExpression(name="twice_end", expression=t._end * 2)
    solve("no_resource", pb)


def case_unsat():
    pb = ps.SchedulingProblem(name="Unsat", horizon=2)
    ps.FixedDurationTask(name="too_long", duration=3)
    solve("unsat", pb)


def case_cumulative_variable():
    pb = ps.SchedulingProblem(name="Cumul", horizon=8)
    cw = ps.CumulativeWorker(name="cw", size=2)
    ts = [ps.VariableDurationTask(name=f"v{i}", min_duration=1, max_duration=3, due_date=2 + i, due_date_is_deadline=False) for i in range(3)]
    for t in ts:
        t.add_required_resource(cw)
    ps.TaskStartAt(task=ts[0], value=0)
    ps.TaskEndAt(task=ts[1], value=3)
    ps.TaskStartAt(task=ts[2], value=6)
    ps.TasksEndSynced(task_1=ts[0], task_2=ts[1])
    solve("cumulative", pb)


def case_handmade():
    """solutions built by hand: empty, and edge values"""
    pb = ps.SchedulingProblem(name="HandMade")
    empty = SchedulingSolution(problem=pb)
    empty.tasks = {}
    empty.resources = {}
    empty.buffers = {}
    empty.indicators = {}
    describe_solution("handmade_empty", empty)

    sol = SchedulingSolution(problem=pb, horizon=20)
    sol.tasks = {}
    sol.resources = {}
    sol.buffers = {}
    sol.indicators = {}
    sol.add_task_solution(
        TaskSolution(name="zero", start=0, end=0, duration=0, scheduled=True, due_date=0,
                     assigned_resources=[])
    )
    sol.add_task_solution(
        TaskSolution(name="late", start=9, end=10, duration=1, scheduled=True, due_date=4,
                     assigned_resources=["r1", "r2"])
    )
    sol.add_task_solution(
        TaskSolution(name="early", start=1, end=6, duration=5, scheduled=True, due_date=8,
                     assigned_resources=["r2"])
    )
    sol.add_task_solution(
        TaskSolution(name="skipped", start=3, end=12, duration=9, scheduled=False,
                     optional=True, assigned_resources=["r1"])
    )
    sol.add_task_solution(
        TaskSolution(name="dup_key_differs", start=2, end=4, duration=2, scheduled=True,
                     assigned_resources=["r1"])
    )
    # key differs from the name of the task solution
    sol.tasks["alias"] = TaskSolution(name="other_name", start=7, end=8, duration=1,
                                      scheduled=True, due_date=7, assigned_resources=["é"])
    sol.add_resource_solution(
        ResourceSolution(name="r1", assignments=[("late", 9, 10), ("dup_key_differs", 2, 4)])
    )
    sol.add_resource_solution(
        ResourceSolution(name="r2", assignments=[("late", 9, 10), ("early", 1, 6)])
    )
    sol.add_resource_solution(ResourceSolution(name="idle", assignments=[]))
    sol.add_buffer_solution(BufferSolution(name="b", level_change_times=[2], level=[0, 3]))
    sol.add_indicator_solution("zero_ind", 0)
    sol.add_indicator_solution("neg_ind", -3)
    describe_solution("handmade_edge", sol)


CASES = (
    case_excavator,
    case_due_dates,
    case_optional,
    case_buffer,
    case_no_resource,
    case_unsat,
    case_cumulative_variable,
    case_handmade,
)

if __name__ == "__main__":
    import contextlib
    import io

    # everything printed (also by the solver) is captured, then masked
    captured = io.StringIO()
    with contextlib.redirect_stdout(captured):
        for case in CASES:
            try:
                case()
            except Exception as exc:  # pylint: disable=broad-except
                print("CASE ERROR", case.__name__, type(exc).__name__, str(exc))
    sys.stdout.write(mask(captured.getvalue()))
