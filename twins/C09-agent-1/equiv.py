"""Equivalence harness for the C09 refactoring (buffer encoding in
SchedulingSolver.initialize).  Prints, for each small problem, the list of the
solver's assertions in order (s-expressions, fresh z3 names renumbered by order
of first appearance, random uuids masked), plus the sorted list, and the
solution's buffer/task values or the error raised."""
import contextlib
import io
import os
import re
import sys

sys.path.insert(0, os.getcwd())

import processscheduler as ps
from processscheduler.buffer import Buffer

assert os.path.abspath(ps.__file__).startswith(os.getcwd()), ps.__file__


def mask(text, table):
    def repl(m):
        return table.setdefault(m.group(0), f"fresh#{len(table)}")

    text = re.sub(r"\b[a-z]!\d+", repl, text)
    text = re.sub(r"asst_[0-9a-f]{8}", "asst_XXXXXXXX", text)
    text = re.sub(r"[0-9a-f]{8}-[0-9a-f]{4}-[0-9a-f]{4}-[0-9a-f]{4}-[0-9a-f]{12}", "UUID", text)
    return text


def run(title, build, **solver_kwargs):
    print("=" * 70)
    print("CASE", title, solver_kwargs)
    sink = io.StringIO()
    try:
        with contextlib.redirect_stdout(sink):
            pb = build()
            solver = ps.SchedulingSolver(problem=pb, **solver_kwargs)
            solver.initialize()
            table = {}
            assertions = [
                " ".join(mask(a.sexpr(), table).split())
                for a in solver._solver.assertions()
            ]
            solution = solver.solve()
    except Exception as exc:  # pylint: disable=broad-except
        print("ERROR", type(exc).__name__, mask(str(exc), {}))
        return
    print("n_assertions", len(assertions))
    print("-- in order")
    for a in assertions:
        print("   ", a)
    print("-- sorted")
    for a in sorted(assertions):
        print("   ", a)
    if not solution:
        print("SOLUTION none:", repr(solution))
        return
    for name in sorted(solution.buffers):
        b = solution.buffers[name]
        print("BUFFER", name, "level", b.level, "times", b.level_change_times)
    for name in sorted(solution.tasks):
        t = solution.tasks[name]
        print("TASK", name, t.start, t.end, t.scheduled)
    print("HORIZON", solution.horizon)


def case_nc_single_unload():
    pb = ps.SchedulingProblem(name="c1")
    t1 = ps.FixedDurationTask(name="task1", duration=3)
    buf = ps.NonConcurrentBuffer(name="Buffer1", initial_level=10)
    ps.TaskStartAt(task=t1, value=5)
    ps.TaskUnloadBuffer(task=t1, buffer=buf, quantity=3)
    return pb


def case_nc_load_unload_bounds():
    pb = ps.SchedulingProblem(name="c2", horizon=12)
    t1 = ps.FixedDurationTask(name="t1", duration=2)
    t2 = ps.FixedDurationTask(name="t2", duration=3)
    t3 = ps.FixedDurationTask(name="t3", duration=1)
    buf = ps.NonConcurrentBuffer(
        name="B", initial_level=4, final_level=6, lower_bound=0, upper_bound=9
    )
    ps.TaskStartAt(task=t1, value=0)
    ps.TaskStartAt(task=t2, value=4)
    ps.TaskStartAt(task=t3, value=9)
    ps.TaskLoadBuffer(task=t1, buffer=buf, quantity=5)
    ps.TaskUnloadBuffer(task=t2, buffer=buf, quantity=4)
    ps.TaskLoadBuffer(task=t3, buffer=buf, quantity=1)
    return pb


def case_conc_same_instant():
    pb = ps.SchedulingProblem(name="c3", horizon=10)
    t1 = ps.FixedDurationTask(name="t1", duration=2)
    t2 = ps.FixedDurationTask(name="t2", duration=2)
    t3 = ps.FixedDurationTask(name="t3", duration=4)
    buf = ps.ConcurrentBuffer(
        name="CB", initial_level=10, lower_bound=0, upper_bound=10
    )
    ps.TaskStartAt(task=t1, value=3)
    ps.TaskStartAt(task=t2, value=3)
    ps.TaskStartAt(task=t3, value=1)
    ps.TaskUnloadBuffer(task=t1, buffer=buf, quantity=2)
    ps.TaskUnloadBuffer(task=t2, buffer=buf, quantity=3)
    ps.TaskLoadBuffer(task=t3, buffer=buf, quantity=4)
    return pb


def case_conc_final_only_optional():
    pb = ps.SchedulingProblem(name="c4", horizon=8)
    t1 = ps.FixedDurationTask(name="t1", duration=2, optional=True)
    t2 = ps.VariableDurationTask(name="t2", min_duration=1, max_duration=3)
    buf = ps.ConcurrentBuffer(name="CB", final_level=7)
    ps.TaskStartAt(task=t1, value=1)
    ps.TaskStartAt(task=t2, value=2)
    ps.TaskEndAt(task=t2, value=4)
    ps.ForceScheduleNOptionalTasks(list_of_optional_tasks=[t1], nb_tasks_to_schedule=1)
    ps.TaskLoadBuffer(task=t1, buffer=buf, quantity=2)
    ps.TaskLoadBuffer(task=t2, buffer=buf, quantity=5)
    return pb


def case_conc_zero_quantity_zero_duration():
    pb = ps.SchedulingProblem(name="c5", horizon=6)
    t1 = ps.ZeroDurationTask(name="z1")
    t2 = ps.FixedDurationTask(name="t2", duration=1)
    buf = ps.ConcurrentBuffer(name="CB", initial_level=0, final_level=0, lower_bound=0)
    ps.TaskStartAt(task=t1, value=2)
    ps.TaskStartAt(task=t2, value=1)
    ps.TaskUnloadBuffer(task=t1, buffer=buf, quantity=0)
    ps.TaskLoadBuffer(task=t1, buffer=buf, quantity=0)
    ps.TaskLoadBuffer(task=t2, buffer=buf, quantity=3)
    ps.TaskUnloadBuffer(task=t2, buffer=buf, quantity=3)
    return pb


def case_nc_zero_quantity():
    pb = ps.SchedulingProblem(name="c5b", horizon=6)
    t1 = ps.ZeroDurationTask(name="z1")
    t2 = ps.FixedDurationTask(name="t2", duration=1)
    buf = ps.NonConcurrentBuffer(name="B", initial_level=0, final_level=3, lower_bound=0)
    ps.TaskStartAt(task=t1, value=0)
    ps.TaskStartAt(task=t2, value=1)
    ps.TaskUnloadBuffer(task=t1, buffer=buf, quantity=0)
    ps.TaskLoadBuffer(task=t2, buffer=buf, quantity=3)
    return pb


def case_conc_zero_quantity():
    pb = ps.SchedulingProblem(name="c5c", horizon=6)
    t1 = ps.ZeroDurationTask(name="z1")
    t2 = ps.FixedDurationTask(name="t2", duration=1)
    buf = ps.ConcurrentBuffer(name="CB", initial_level=0, final_level=3, lower_bound=0)
    ps.TaskStartAt(task=t1, value=2)
    ps.TaskStartAt(task=t2, value=1)
    ps.TaskLoadBuffer(task=t1, buffer=buf, quantity=0)
    ps.TaskLoadBuffer(task=t2, buffer=buf, quantity=3)
    return pb


def case_nc_no_task():
    pb = ps.SchedulingProblem(name="c6", horizon=4)
    ps.FixedDurationTask(name="t1", duration=1)
    ps.NonConcurrentBuffer(name="B", final_level=10, upper_bound=20)
    return pb


def case_conc_no_task():
    pb = ps.SchedulingProblem(name="c7", horizon=4)
    ps.FixedDurationTask(name="t1", duration=1)
    ps.ConcurrentBuffer(name="CB", initial_level=3, final_level=3, lower_bound=3)
    return pb


def case_base_buffer_no_task():
    pb = ps.SchedulingProblem(name="c8", horizon=4)
    ps.FixedDurationTask(name="t1", duration=1)
    Buffer(name="Plain", initial_level=1, final_level=1, lower_bound=0, upper_bound=2)
    return pb


def case_nc_lower_bound_violated():
    pb = ps.SchedulingProblem(name="c9", horizon=10)
    t1 = ps.FixedDurationTask(name="t1", duration=2)
    buf = ps.NonConcurrentBuffer(name="B", initial_level=2, lower_bound=0)
    ps.TaskUnloadBuffer(task=t1, buffer=buf, quantity=3)
    return pb


def case_nc_same_instant_unsat():
    pb = ps.SchedulingProblem(name="c10", horizon=10)
    t1 = ps.FixedDurationTask(name="t1", duration=2)
    t2 = ps.FixedDurationTask(name="t2", duration=2)
    buf = ps.NonConcurrentBuffer(name="B", initial_level=20)
    ps.TaskStartAt(task=t1, value=3)
    ps.TaskStartAt(task=t2, value=3)
    ps.TaskUnloadBuffer(task=t1, buffer=buf, quantity=3)
    ps.TaskUnloadBuffer(task=t2, buffer=buf, quantity=4)
    return pb


def case_two_buffers_transfer():
    pb = ps.SchedulingProblem(name="c11", horizon=9)
    t1 = ps.FixedDurationTask(name="t1", duration=3)
    t2 = ps.FixedDurationTask(name="t2", duration=2)
    src = ps.NonConcurrentBuffer(name="Src", initial_level=8, final_level=2, lower_bound=0)
    dst = ps.ConcurrentBuffer(name="Dst", initial_level=0, upper_bound=6)
    ps.TaskStartAt(task=t1, value=0)
    ps.TaskStartAt(task=t2, value=5)
    for t, q in ((t1, 4), (t2, 2)):
        ps.TaskUnloadBuffer(task=t, buffer=src, quantity=q)
        ps.TaskLoadBuffer(task=t, buffer=dst, quantity=q)
    return pb


def case_conc_three_equal_times_free():
    # nothing pinned except by the buffer: the final level forces a schedule
    pb = ps.SchedulingProblem(name="c12", horizon=3)
    tasks = [ps.FixedDurationTask(name=f"t{i}", duration=3) for i in range(3)]
    buf = ps.ConcurrentBuffer(name="CB", initial_level=9, final_level=3, lower_bound=3)
    for i, t in enumerate(tasks):
        ps.TaskUnloadBuffer(task=t, buffer=buf, quantity=i + 1)
    return pb


def case_conc_upper_bound_violated():
    pb = ps.SchedulingProblem(name="c13", horizon=5)
    t1 = ps.FixedDurationTask(name="t1", duration=1)
    buf = ps.ConcurrentBuffer(name="CB", initial_level=5, upper_bound=5)
    ps.TaskLoadBuffer(task=t1, buffer=buf, quantity=1)
    return pb


def case_makespan_objective():
    pb = ps.SchedulingProblem(name="c14")
    t1 = ps.FixedDurationTask(name="t1", duration=2)
    t2 = ps.FixedDurationTask(name="t2", duration=2)
    buf = ps.ConcurrentBuffer(name="CB", initial_level=0, lower_bound=0)
    ps.TaskLoadBuffer(task=t1, buffer=buf, quantity=2)
    ps.TaskUnloadBuffer(task=t2, buffer=buf, quantity=2)
    ps.ObjectiveMinimizeMakespan()
    return pb


run("nc_single_unload", case_nc_single_unload)
run("nc_load_unload_bounds", case_nc_load_unload_bounds)
run("nc_load_unload_bounds", case_nc_load_unload_bounds, debug=True)
run("conc_same_instant", case_conc_same_instant)
run("conc_same_instant", case_conc_same_instant, debug=True)
run("conc_final_only_optional", case_conc_final_only_optional)
run("conc_zero_quantity_zero_duration", case_conc_zero_quantity_zero_duration)
run("nc_zero_quantity", case_nc_zero_quantity)
run("conc_zero_quantity", case_conc_zero_quantity)
run("nc_no_task", case_nc_no_task)
run("conc_no_task", case_conc_no_task)
run("base_buffer_no_task", case_base_buffer_no_task)
run("nc_lower_bound_violated", case_nc_lower_bound_violated)
run("nc_same_instant_unsat", case_nc_same_instant_unsat)
run("two_buffers_transfer", case_two_buffers_transfer)
run("conc_three_equal_times_free", case_conc_three_equal_times_free)
run("conc_upper_bound_violated", case_conc_upper_bound_violated)
run("makespan_objective", case_makespan_objective)
run("makespan_objective", case_makespan_objective, optimizer="optimize")
