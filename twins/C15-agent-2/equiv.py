"""Equivalence script for the C15 twin refactoring (solver.py:
initialize solver selection, append_z3_assertion, _solve_optimize_incremental).

Run:  cd /tmp/t4_C15 && /venv/bin/python _twin/equiv.py
Prints a canonical description of the outcome of each scenario; uuids and
wall-clock times are masked.
"""
import contextlib
import io
import os
import re
import sys
import warnings

sys.path.insert(0, os.getcwd())

import z3  # noqa: E402

import processscheduler as ps  # noqa: E402
import processscheduler.solver as ps_solver  # noqa: E402

assert ps_solver.__file__.startswith(os.getcwd()), ps_solver.__file__

MASKS = [
    (re.compile(r"asst_[0-9a-f]{8}"), "asst_XXXXXXXX"),
    (re.compile(r"elapsed time:[0-9.]+s"), "elapsed time:Ts"),
    (re.compile(r"checked in [0-9.]+s"), "checked in Ts"),
    # automatic names of unnamed objects end with a random 8 digit uid
    (re.compile(r"_[0-9]{8}\b"), "_UID"),
]


def mask(text):
    for rx, repl in MASKS:
        text = rx.sub(repl, text)
    return text


def canonical_printed(text):
    """mask the printed output; drop the z3 statistics block (memory, allocs,
    time) and sort the lines of the 'Solution:' block of the debug mode (the
    order of the model declarations depends on the random tracker names)"""
    out, block, mode = [], [], None
    for line in mask(text).splitlines():
        if line.startswith("Solver statistics:"):
            mode = "stats"
            out.append(line + " <dropped>")
            continue
        if line.startswith("Solution:"):
            mode = "solution"
            out.append(line)
            continue
        if mode == "stats" and line[:1] in (" ", "\t"):
            continue
        if mode == "solution" and line.strip().startswith("-> "):
            block.append(line)
            continue
        if block:
            out.extend(sorted(block))
            block = []
        mode = None
        out.append(line)
    out.extend(sorted(block))
    return "\n".join(out)


def describe_solution(solution):
    if not solution:
        return [f"solution: {solution!r}"]
    out = [f"horizon={solution.horizon}"]
    for name in sorted(solution.tasks):
        t = solution.tasks[name]
        out.append(
            f"task {name}: start={t.start} end={t.end} dur={t.duration} "
            f"scheduled={t.scheduled} res={sorted(t.assigned_resources)}"
        )
    for name in sorted(solution.resources):
        out.append(f"resource {name}: {sorted(solution.resources[name].assignments)}")
    for name in sorted(solution.buffers):
        b = solution.buffers[name]
        out.append(f"buffer {name}: {b.level} {b.level_change_times}")
    for name in sorted(solution.indicators):
        out.append(f"indicator {name}={solution.indicators[name]}")
    return out


def describe_solver(solver):
    out = [f"solver type: {type(solver._solver).__name__}"]
    out.append(
        "flags: "
        f"{solver._is_not_optimization_problem} {solver._is_optimization_problem} "
        f"{solver._is_multi_objective_optimization_problem}"
    )
    if solver._solver is not None:
        assertions = sorted(mask(str(a)) for a in solver._solver.assertions())
        out.append(f"nb assertions: {len(assertions)}")
        out.extend("  A " + a.replace("\n", " ") for a in assertions)
        if isinstance(solver._solver, z3.Optimize):
            out.append(
                "objectives: " + mask(str(sorted(str(o) for o in solver._solver.objectives())))
            )
        else:
            out.append(f"num_scopes: {solver._solver.num_scopes()}")
    mapping = sorted(
        (mask(k), mask(str(v))) for k, v in solver._map_boolrefs_to_constraints.items()
    )
    out.append(f"map_boolrefs: {mapping}")
    return out


def run(title, build, solver_kwargs, after=None, values_deterministic=True):
    """build() creates the problem and returns it; the solver is created with
    solver_kwargs, solve() is called, then `after` (optional) does more."""
    print("=" * 70)
    print(f"SCENARIO {title}  kwargs={sorted(solver_kwargs.items())}")
    buf = io.StringIO()
    lines = []
    try:
        with contextlib.redirect_stdout(buf), warnings.catch_warnings(record=True) as w:
            warnings.simplefilter("always")
            problem = build()
            solver = ps.SchedulingSolver(problem=problem, **solver_kwargs)
            solution = solver.solve()
            if values_deterministic:
                lines.extend(describe_solution(solution))
            else:
                lines.append(f"feasible: {bool(solution)}")
                if solution:
                    for name in sorted(solution.indicators):
                        lines.append(f"indicator {name}={solution.indicators[name]}")
            lines.extend(describe_solver(solver))
            if after is not None:
                lines.extend(after(problem, solver, solution))
        for wi in w:
            lines.append(f"warning: {wi.category.__name__}: {' '.join(str(wi.message).split())}")
    except Exception as exc:  # noqa: BLE001
        lines.append(f"ERROR {type(exc).__name__}: {exc}")
    if values_deterministic or solver_kwargs.get("debug") is None:
        printed = canonical_printed(buf.getvalue())
        if not values_deterministic:
            # only keep the non value dependent lines
            printed = "\n".join(
                l for l in printed.splitlines() if l.strip().startswith(("Solver type", "->", "==="))
            )
        print("--- printed by the library:")
        print(printed)
    print("--- outcome:")
    for l in lines:
        print(l)


# ---------------------------------------------------------------- problems
def pb_plain():
    pb = ps.SchedulingProblem(name="Plain", horizon=7)
    t1 = ps.FixedDurationTask(name="t1", duration=2)
    t2 = ps.FixedDurationTask(name="t2", duration=3)
    t3 = ps.FixedDurationTask(name="t3", duration=0 + 1, optional=True)
    w = ps.Worker(name="w")
    for t in (t1, t2, t3):
        t.add_required_resource(w)
    ps.TaskPrecedence(task_before=t1, task_after=t2)
    ps.TaskStartAt(task=t1, value=0)
    return pb


def pb_unsat_named():
    pb = ps.SchedulingProblem(name="UnsatNamed", horizon=4)
    t1 = ps.FixedDurationTask(name="t1", duration=3)
    t2 = ps.FixedDurationTask(name="t2", duration=3)
    ps.TaskStartAt(name="start_t1_at_0", task=t1, value=0)
    ps.TaskStartAt(name="start_t1_at_1", task=t1, value=1)
    ps.TaskPrecedence(name="prec", task_before=t1, task_after=t2)
    return pb


def pb_makespan():
    pb = ps.SchedulingProblem(name="Makespan")
    ts = [ps.FixedDurationTask(name=f"t{i}", duration=i + 1) for i in range(3)]
    w = ps.Worker(name="w")
    for t in ts:
        t.add_required_resource(w)
    ps.ObjectiveMinimizeMakespan()
    return pb


def pb_utilization():
    # maximize, indicator with bounds (0, 100): upper bound reachable
    pb = ps.SchedulingProblem(name="Utilization", horizon=4)
    t1 = ps.FixedDurationTask(name="t1", duration=2)
    t2 = ps.FixedDurationTask(name="t2", duration=2, optional=True)
    w = ps.Worker(name="w")
    t1.add_required_resource(w)
    t2.add_required_resource(w)
    ps.ObjectiveMaximizeResourceUtilization(resource=w)
    return pb


def pb_min_with_bounds():
    # minimize an indicator whose lower bound 0 is reachable (edge value 0)
    pb = ps.SchedulingProblem(name="MinBounds", horizon=10)
    t1 = ps.FixedDurationTask(name="t1", duration=2)
    ind = ps.IndicatorFromMathExpression(
        name="StartT1", expression=t1._start, bounds=(0, 8)
    )
    ps.ObjectiveMinimizeIndicator(target=ind)
    return pb


def pb_max_start():
    # maximize a start: several incremental iterations
    pb = ps.SchedulingProblem(name="MaxStart", horizon=12)
    t1 = ps.FixedDurationTask(name="t1", duration=2)
    t2 = ps.FixedDurationTask(name="t2", duration=1, optional=True)
    ps.TaskPrecedence(task_before=t2, task_after=t1)
    ind = ps.IndicatorFromMathExpression(name="StartT1", expression=t1._start)
    ps.ObjectiveMaximizeIndicator(target=ind)
    return pb


def pb_unsat_optim():
    pb = ps.SchedulingProblem(name="UnsatOptim", horizon=3)
    t1 = ps.FixedDurationTask(name="t1", duration=2)
    t2 = ps.FixedDurationTask(name="t2", duration=2)
    w = ps.Worker(name="w")
    t1.add_required_resource(w)
    t2.add_required_resource(w)
    ps.ObjectiveMinimizeMakespan()
    return pb


def pb_multi():
    pb = ps.SchedulingProblem(name="Multi", horizon=20)
    t1 = ps.FixedDurationTask(name="task1", duration=3)
    t2 = ps.FixedDurationTask(name="task2", duration=3)
    ps.ConstraintFromExpression(expression=t1._end == 20 - t2._start)
    i1 = ps.IndicatorFromMathExpression(name="Task1End", expression=t1._end)
    i2 = ps.IndicatorFromMathExpression(name="Task2Start", expression=t2._start)
    ps.ObjectiveMaximizeIndicator(name="o1", target=i1, weight=1)
    ps.ObjectiveMaximizeIndicator(name="o2", target=i2, weight=2)
    return pb


def pb_buffer():
    pb = ps.SchedulingProblem(name="Buffer", horizon=6)
    t1 = ps.FixedDurationTask(name="t1", duration=2)
    t2 = ps.FixedDurationTask(name="t2", duration=2)
    b = ps.NonConcurrentBuffer(name="b", initial_level=0, upper_bound=5)
    ps.TaskLoadBuffer(task=t1, buffer=b, quantity=3)
    ps.TaskUnloadBuffer(task=t2, buffer=b, quantity=3)
    return pb


# ---------------------------------------------------------------- afters
def after_another(problem, solver, solution):
    out = ["-- find_another_solution"]
    sol2 = solver.find_another_solution()
    out.extend(describe_solution(sol2))
    out.extend(describe_solver(solver))
    return out


def after_direct_append(problem, solver, solution):
    """call append_z3_assertion directly with list / non list, with and
    without a higher constraint name"""
    out = ["-- direct append_z3_assertion calls"]
    x = z3.Int("extra_x")
    r1 = solver.append_z3_assertion(x >= 0)
    r2 = solver.append_z3_assertion([x <= 5, x != 3], "my_constraint")
    r3 = solver.append_z3_assertion([], "empty_list")
    r4 = solver.append_z3_assertion(x != 4, "single")
    out.append(f"returns: {r1!r} {r2!r} {r3!r} {r4!r}")
    out.extend(describe_solver(solver))
    out.append(f"check: {solver._solver.check()}")
    return out


def after_resolve(problem, solver, solution):
    """the solver can be reused after an incremental optimisation"""
    out = ["-- second solve()"]
    out.extend(describe_solution(solver.solve()))
    out.append(f"num_scopes: {solver._solver.num_scopes()}")
    return out


def after_uninitialized_append(problem, solver, solution):
    out = ["-- append on a fresh, non initialised solver"]
    for dbg in (False, True):
        s2 = ps.SchedulingSolver(problem=problem, debug=dbg)
        try:
            s2.append_z3_assertion(z3.Int("y") > 0, "n")
            out.append("no error")
        except Exception as exc:  # noqa: BLE001
            out.append(f"ERROR {type(exc).__name__}: {exc}")
        out.append(f"map: {s2._map_boolrefs_to_constraints}")
    return out


class FakeClock:
    """deterministic perf_counter: the k-th check 'takes' durations[k]"""

    def __init__(self, durations):
        self.durations = list(durations)
        self.now = 0.0
        self.calls = 0

    def __call__(self):
        # called twice per check_sat: before and after
        if self.calls % 2 == 1:
            k = self.calls // 2
            self.now += self.durations[k] if k < len(self.durations) else self.durations[-1]
        self.calls += 1
        return self.now


def with_fake_clock(durations, title, build, kwargs):
    import time as _time

    real = _time.perf_counter
    _time.perf_counter = FakeClock(durations)
    try:
        run(title, build, kwargs)
    finally:
        _time.perf_counter = real


# ---------------------------------------------------------------- main
if __name__ == "__main__":
    # 1-4: solver selection (no objective) x debug / logics
    run("plain default", pb_plain, {}, after=after_another)
    run("plain debug", pb_plain, {"debug": True}, after=after_another)
    run("plain debug direct appends", pb_plain, {"debug": True}, after=after_direct_append)
    run("plain nodebug direct appends", pb_plain, {}, after=after_direct_append)
    run("plain logics QF_IDL", pb_plain, {"logics": "QF_IDL"})
    run("plain logics QF_UFIDL debug", pb_plain, {"logics": "QF_UFIDL", "debug": True})
    run("plain optimizer=optimize without objective", pb_plain,
        {"optimizer": "optimize", "optimize_priority": "lex"})
    run("buffer default", pb_buffer, {}, after=after_uninitialized_append)
    # 5-6: unsat with named constraints
    run("unsat named debug", pb_unsat_named, {"debug": True})
    run("unsat named nodebug", pb_unsat_named, {})
    # 7-..: incremental optimiser
    run("makespan incremental", pb_makespan, {}, after=after_resolve)
    run("makespan incremental debug", pb_makespan, {"debug": True})
    run("makespan incremental logics QF_LIA", pb_makespan, {"logics": "QF_LIA"})
    run("makespan optimize", pb_makespan, {"optimizer": "optimize"})
    run("makespan optimize logics ignored", pb_makespan,
        {"optimizer": "optimize", "logics": "QF_IDL", "optimize_priority": "box"})
    run("utilization incremental (max, upper bound hit)", pb_utilization, {})
    run("utilization optimize", pb_utilization, {"optimizer": "optimize"})
    run("min with bounds (lower bound 0 hit)", pb_min_with_bounds, {})
    run("max start incremental", pb_max_start, {}, after=after_resolve)
    run("max start max_iter=2", pb_max_start, {"max_iter": 2})
    run("max start max_iter=1", pb_max_start, {"max_iter": 1})
    run("max start max_iter=0", pb_max_start, {"max_iter": 0})
    run("unsat optim incremental", pb_unsat_optim, {})
    run("unsat optim incremental debug", pb_unsat_optim, {"debug": True})
    run("unsat optim optimize", pb_unsat_optim, {"optimizer": "optimize"})
    run("multi incremental", pb_multi, {})
    run("multi optimize weight", pb_multi, {"optimizer": "optimize", "optimize_priority": "weight"})
    run("multi optimize lex", pb_multi, {"optimizer": "optimize", "optimize_priority": "lex"})
    # deterministic clock: extrapolation of the three last times
    with_fake_clock([1, 2, 4, 8, 16], "max start fake clock quadratic", pb_max_start, {"max_time": 20})
    with_fake_clock([0.5], "max start fake clock linear", pb_max_start, {"max_time": 3})
    with_fake_clock([30], "max start fake clock max time exceeded", pb_max_start, {"max_time": 20})
    with_fake_clock([1, 1, 1, 1, 1, 1, 1, 1, 1, 1, 1, 1, 1], "max start fake clock slow linear",
                    pb_max_start, {"max_time": 8})
    # feasibility / objective only for the non deterministic modes (kept last:
    # they change global z3 state)
    run("makespan random_values", pb_makespan, {"random_values": True}, values_deterministic=False)
    run("makespan parallel", pb_makespan, {"parallel": True}, values_deterministic=False)
    run("multi random_values optimize lex", pb_multi,
        {"random_values": True, "optimizer": "optimize", "optimize_priority": "lex"},
        values_deterministic=False)
    run("makespan incremental again", pb_makespan, {}, values_deterministic=False)
