"""Equivalence witness for the refactoring of SchedulingSolver.build_solution
(task part) and util.sort_no_duplicates.

Run with   cd /tmp/t6_C06 && /venv/bin/python _twin/equiv.py
Prints, for every small problem, the sorted solver assertions and the reported
solution (or the error raised). Output must be identical with and without the patch.
"""
import os
import sys
import re
import json
import io
import contextlib
from datetime import datetime, timedelta

sys.path.insert(0, os.getcwd())

import z3
import processscheduler as ps
from processscheduler.util import sort_no_duplicates

assert ps.__file__.startswith(os.getcwd()), ps.__file__

# random parts: uuid4().int suffixes of selection flags (long digit runs), the
# 8-digit suffix of generated names, and the timings printed by the solver
MASK_UID = re.compile(r"\d{8,}")
MASK_TIME = re.compile(r"\d+\.\d+s")


def mask(text):
    return MASK_TIME.sub("<t>s", MASK_UID.sub("<uid>", text))


def describe_task(ts):
    return {
        "type": ts.type,
        "start": ts.start,
        "end": ts.end,
        "duration": ts.duration,
        "optional": ts.optional,
        "scheduled": ts.scheduled,
        "scheduled_type": type(ts.scheduled).__name__,
        "start_time": repr(ts.start_time),
        "end_time": repr(ts.end_time),
        "duration_time": repr(ts.duration_time),
        "release_date": ts.release_date,
        "due_date": ts.due_date,
        "deadline": ts.due_date_is_deadline,
        "work_amount": ts.work_amount,
        "priority": ts.priority,
        "assigned_resources": list(ts.assigned_resources),
    }


def report(title, build):
    print("=" * 70)
    print(title)
    try:
        problem, kwargs = build()
        solver = ps.SchedulingSolver(problem=problem, **kwargs)
        captured = io.StringIO()
        with contextlib.redirect_stdout(captured):
            solution = solver.solve()
        print("SOLVER OUTPUT")
        for line in mask(captured.getvalue()).splitlines():
            print("   |", line)
        assertions = sorted(mask(str(a)) for a in solver._solver.assertions())
        print("ASSERTIONS (%d)" % len(assertions))
        for a in assertions:
            print("  ", " ".join(a.split()))
        if not solution:
            print("SOLUTION: none", repr(solution))
            return
        print("HORIZON", solution.horizon)
        for name in sorted(solution.tasks):
            print("TASK", name, json.dumps(describe_task(solution.tasks[name]), sort_keys=True))
        for name in sorted(solution.resources):
            rs = solution.resources[name]
            print("RESOURCE", name, rs.type, sorted(rs.assignments))
        for name in sorted(solution.buffers):
            bs = solution.buffers[name]
            print("BUFFER", name, bs.level, bs.level_change_times)
        for name in sorted(solution.indicators):
            print("INDICATOR", mask(name), solution.indicators[name])
        print("SCHEDULED", sorted(solution.get_scheduled_tasks()))
        try:
            print("JSON", mask(" ".join(solution.to_json(compact=True).split())))
        except Exception as exc:  # pylint: disable=broad-except
            print("JSON ERROR", type(exc).__name__, mask(str(exc))[:300])
    except Exception as exc:  # pylint: disable=broad-except
        print("ERROR", type(exc).__name__, mask(str(exc))[:500])


T0 = datetime(2024, 2, 29, 22, 30)


def p1():
    """optional fixed task that cannot be scheduled, calendar with origin"""
    pb = ps.SchedulingProblem(
        name="P1", horizon=4, delta_time=timedelta(minutes=15), start_time=T0
    )
    t_opt = ps.FixedDurationTask(name="opt", duration=3, optional=True, priority=2)
    t_man = ps.FixedDurationTask(name="man", duration=4, release_date=0)
    w = ps.Worker(name="W")
    t_opt.add_required_resource(w)
    t_man.add_required_resource(w)
    return pb, {}


def p2():
    """optional tasks forced in, calendar without origin, variable / zero duration"""
    pb = ps.SchedulingProblem(name="P2", horizon=9, delta_time=timedelta(hours=2))
    t_var = ps.VariableDurationTask(
        name="var", optional=True, min_duration=0, max_duration=3, work_amount=4
    )
    t_zero = ps.ZeroDurationTask(name="zero", optional=True)
    t_fix = ps.FixedDurationTask(name="fix", duration=2, due_date=9, due_date_is_deadline=False)
    w = ps.Worker(name="W", productivity=2)
    t_var.add_required_resource(w)
    t_fix.add_required_resource(w)
    ps.OptionalTaskForceSchedule(task=t_var, to_be_scheduled=True)
    ps.OptionalTaskForceSchedule(task=t_zero, to_be_scheduled=False)
    ps.TaskStartAt(task=t_fix, value=0)
    return pb, {}


def p3():
    """alternative workers, optional tasks, non delay on one worker"""
    pb = ps.SchedulingProblem(name="P3", horizon=8)
    w1 = ps.Worker(name="W1")
    w2 = ps.Worker(name="W2")
    tasks = []
    for i in range(3):
        t = ps.FixedDurationTask(name=f"t{i}", duration=2, optional=(i != 1))
        t.add_required_resource(
            ps.SelectWorkers(list_of_workers=[w1, w2], nb_workers_to_select=1)
        )
        tasks.append(t)
    ps.ForceScheduleNOptionalTasks(
        list_of_optional_tasks=[tasks[0], tasks[2]], nb_tasks_to_schedule=1, kind="exact"
    )
    ps.ResourceNonDelay(resource=w1)
    ps.ResourceNonDelay(resource=w2)
    return pb, {}


def p4():
    """cumulative worker shared by optional and mandatory tasks"""
    pb = ps.SchedulingProblem(
        name="P4", horizon=5, delta_time=timedelta(seconds=30), start_time=T0
    )
    m = ps.CumulativeWorker(name="M", size=2)
    plain = ps.Worker(name="M2")
    for i in range(3):
        t = ps.FixedDurationTask(name=f"c{i}", duration=3, optional=(i == 2))
        t.add_required_resource(m)
        if i == 0:
            t.add_required_resource(plain)
    ps.ObjectiveMinimizeMakespan()
    return pb, {}


def p5():
    """contiguous tasks: one task (edge), then three with an optional one"""
    pb = ps.SchedulingProblem(name="P5", horizon=10)
    a = ps.FixedDurationTask(name="a", duration=2)
    b = ps.FixedDurationTask(name="b", duration=3, optional=True)
    c = ps.FixedDurationTask(name="c", duration=1)
    w = ps.Worker(name="W")
    for t in (a, b, c):
        t.add_required_resource(w)
    ps.TasksContiguous(list_of_tasks=[a])
    ps.TasksContiguous(list_of_tasks=[a, b, c])
    ps.OptionalTaskForceSchedule(task=b, to_be_scheduled=True)
    return pb, {}


def p6():
    """non concurrent buffer fed / emptied by optional and mandatory tasks"""
    pb = ps.SchedulingProblem(name="P6", horizon=12)
    buf = ps.NonConcurrentBuffer(name="B", initial_level=0, lower_bound=0)
    feed = ps.FixedDurationTask(name="feed", duration=2)
    feed_opt = ps.FixedDurationTask(name="feed_opt", duration=2, optional=True)
    take = ps.FixedDurationTask(name="take", duration=1)
    ps.TaskLoadBuffer(task=feed, buffer=buf, quantity=3)
    ps.TaskLoadBuffer(task=feed_opt, buffer=buf, quantity=5)
    ps.TaskUnloadBuffer(task=take, buffer=buf, quantity=3)
    ps.OptionalTaskForceSchedule(task=feed_opt, to_be_scheduled=False)
    return pb, {}


def p7():
    """tasks distance on a worker with an unscheduled optional task, horizon free"""
    pb = ps.SchedulingProblem(name="P7", delta_time=timedelta(days=1), start_time=T0)
    w = ps.Worker(name="W")
    ts = []
    for i in range(3):
        t = ps.FixedDurationTask(name=f"d{i}", duration=1, optional=(i == 0))
        t.add_required_resource(w)
        ts.append(t)
    ps.ResourceTasksDistance(resource=w, distance=2, mode="min")
    ps.OptionalTaskForceSchedule(task=ts[0], to_be_scheduled=False)
    ps.ObjectiveMinimizeMakespan()
    return pb, {}


def p8():
    """contiguous list of one task declared twice (was the duplicate And())"""
    pb = ps.SchedulingProblem(name="P8", horizon=3)
    a = ps.FixedDurationTask(name="a", duration=0 + 1, optional=True)
    ps.TasksContiguous(list_of_tasks=[a])
    ps.TasksContiguous(list_of_tasks=[])
    return pb, {}


def p9():
    """infeasible: optional forced in but too long"""
    pb = ps.SchedulingProblem(name="P9", horizon=2, delta_time=timedelta(minutes=1))
    a = ps.FixedDurationTask(name="a", duration=3, optional=True)
    ps.OptionalTaskForceSchedule(task=a, to_be_scheduled=True)
    return pb, {}


for title, build in [
    ("P1 optional unscheduled, calendar with origin", p1),
    ("P2 optional forced, calendar without origin", p2),
    ("P3 select workers + non delay", p3),
    ("P4 cumulative worker", p4),
    ("P5 contiguous", p5),
    ("P6 buffer", p6),
    ("P7 tasks distance, free horizon", p7),
    ("P8 contiguous edge lists", p8),
    ("P9 infeasible", p9),
]:
    report(title, build)

print("=" * 70)
print("sort_no_duplicates direct")
xs = [z3.Int(f"x{i}") for i in range(4)]
for n in range(5):
    values = xs[:n]
    sorted_vars, constraints = sort_no_duplicates(values)
    print(n, [str(v) for v in sorted_vars])
    for c in constraints:
        print("   ", " ".join(str(c).split()), "| hash-stable sexpr:", " ".join(c.sexpr().split()))
# python ints mixed with z3 values
sorted_vars, constraints = sort_no_duplicates([xs[0], 0, -2])
print("mixed", [str(v) for v in sorted_vars], [" ".join(str(c).split()) for c in constraints])
