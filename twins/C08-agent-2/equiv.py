"""Equivalence script for the C08 twin.

Exercises IndicatorResourceUtilization, IndicatorTardiness and
ObjectiveMinimizeFlowtime on small problems and prints a canonical
description of each outcome: the indicator names, the str() of the
indicator's own assertions (in order), the sorted str() of every solver
assertion, and the reported indicator values (or the error raised).
"""
import contextlib
import io
import os
import re
import sys
import traceback

sys.path.insert(0, os.getcwd())

import z3  # noqa: E402
import processscheduler as ps  # noqa: E402

assert ps.__file__.startswith(os.getcwd()), ps.__file__

MASKS = [
    # wall-clock timings printed by the solver
    (re.compile(r"[0-9]+\.[0-9]+s\b"), "<TIME>s"),
    # uuid4().int used in the names of selection variables (up to 39 digits)
    (re.compile(r"[0-9]{20,}"), "<UIDINT>"),
    (re.compile(r"[0-9a-f]{32}"), "<HEX32>"),
    (re.compile(r"(_)[0-9]{8}\b"), r"\1<UID8>"),
]


def mask(txt):
    txt = " ".join(str(txt).split())
    for rx, rep in MASKS:
        txt = rx.sub(rep, txt)
    return txt


def describe(problem, indicators=(), solve=True, unique=True, checks=(), **solver_kw):
    """Print a canonical description of the problem and of its solution.

    unique: the schedule is fully pinned by the constraints, so that the start/end
            values themselves can be printed. Otherwise (several optimal schedules,
            the one found depends on the random uids in the z3 names) only the
            indicator values and the recomputation checks are printed.
    checks: (indicator name, function(solution) -> value recomputed from the
            reported schedule, according to the documented definition).
    """
    for ind in indicators:
        print("  indicator object name:", mask(ind.name), "bounds:", ind.bounds)
        for a in ind.get_z3_assertions():
            print("    own assertion:", mask(a))
    print("  problem.indicators keys:", [mask(k) for k in problem.indicators])
    print(
        "  problem.objectives:",
        [
            (mask(k), o.kind, o.weight, mask(o._target), o._bounds)
            for k, o in problem.objectives.items()
        ],
    )
    solver = ps.SchedulingSolver(problem=problem, **solver_kw)
    # the solver's own chatter (timings, iterations of the incremental optimizer)
    # is neither canonical nor produced by the refactored code: drop it
    with contextlib.redirect_stdout(io.StringIO()):
        solver.initialize()
    for line in sorted(mask(a) for a in solver._solver.assertions()):
        print("    solver assertion:", line)
    if not solve:
        return
    with contextlib.redirect_stdout(io.StringIO()):
        solution = solver.solve()
    if not solution:
        print("  NO SOLUTION")
        return
    if unique:
        print("  horizon:", solution.horizon)
        print(
            "  tasks:",
            sorted(
                (n, t.start, t.end, t.scheduled, sorted(t.assigned_resources))
                for n, t in solution.tasks.items()
            ),
        )
    print("  indicators:", sorted((mask(k), v) for k, v in solution.indicators.items()))
    for ind_name, recompute in checks:
        reported = solution.indicators[ind_name]
        expected = recompute(solution)
        print(
            f"  check {mask(ind_name)}: reported == definition on the schedule:",
            reported == expected,
        )
        if reported != expected:
            print("    reported", reported, "expected", expected)


def util_of(res_name, horizon=None):
    """percentage of the horizon the resource is busy, rounded down"""

    def recompute(sol):
        busy = sum(
            t.end - t.start
            for t in sol.tasks.values()
            if t.scheduled and res_name in t.assigned_resources
        )
        return (busy * 100) // (sol.horizon if horizon is None else horizon)

    return recompute


def tardiness_of(due_prio):
    """sum of priority * max(0, end - due date) over the scheduled tasks"""

    def recompute(sol):
        return sum(
            prio * max(0, sol.tasks[n].end - due)
            for n, (due, prio) in due_prio.items()
            if sol.tasks[n].scheduled
        )

    return recompute


def flowtime_of(names):
    """sum of the completion times of the scheduled tasks"""

    def recompute(sol):
        return sum(sol.tasks[n].end for n in names if sol.tasks[n].scheduled)

    return recompute


CASES = []


def case(fn):
    CASES.append(fn)
    return fn


# ---------------------------------------------------------------- utilization
@case
def util_fixed_horizon_two_tasks():
    pb = ps.SchedulingProblem(name="UtilFixed", horizon=10)
    t1 = ps.FixedDurationTask(name="T1", duration=3)
    t2 = ps.FixedDurationTask(name="T2", duration=4)
    w = ps.Worker(name="W")
    t1.add_required_resource(w)
    t2.add_required_resource(w)
    ps.TaskStartAt(task=t1, value=0)
    ps.TaskStartAt(task=t2, value=5)
    ind = ps.IndicatorResourceUtilization(resource=w)
    describe(pb, [ind], checks=[("Utilization (W)", util_of("W"))])


@case
def util_free_horizon_makespan():
    pb = ps.SchedulingProblem(name="UtilFree")
    t1 = ps.FixedDurationTask(name="T1", duration=3)
    t2 = ps.FixedDurationTask(name="T2", duration=2)
    w1 = ps.Worker(name="W1")
    w2 = ps.Worker(name="W2")
    t1.add_required_resource(w1)
    t2.add_required_resource(w2)
    ps.TaskStartAt(task=t1, value=0)
    ps.TaskStartAt(task=t2, value=2)
    i1 = ps.IndicatorResourceUtilization(resource=w1)
    i2 = ps.IndicatorResourceUtilization(resource=w2)
    ps.ObjectiveMinimizeMakespan()
    describe(
        pb,
        [i1, i2],
        checks=[
            ("Utilization (W1)", util_of("W1")),
            ("Utilization (W2)", util_of("W2")),
        ],
    )


@case
def util_resource_without_task_fixed_horizon():
    pb = ps.SchedulingProblem(name="UtilEmptyFixed", horizon=7)
    ps.FixedDurationTask(name="T1", duration=3)
    w = ps.Worker(name="Idle")
    ind = ps.IndicatorResourceUtilization(resource=w)
    describe(
        pb, [ind], unique=False, checks=[("Utilization (Idle)", util_of("Idle", 7))]
    )


@case
def util_resource_without_task_free_horizon():
    pb = ps.SchedulingProblem(name="UtilEmptyFree")
    t1 = ps.FixedDurationTask(name="T1", duration=3)
    ps.TaskStartAt(task=t1, value=1)
    w = ps.Worker(name="Idle")
    ind = ps.IndicatorResourceUtilization(resource=w)
    ps.ObjectiveMinimizeMakespan()
    describe(pb, [ind], checks=[("Utilization (Idle)", util_of("Idle"))])


@case
def util_select_workers_optional_task_and_objective():
    pb = ps.SchedulingProblem(name="UtilSelect", horizon=8)
    t1 = ps.FixedDurationTask(name="T1", duration=4)
    t2 = ps.FixedDurationTask(name="T2", duration=2, optional=True)
    w1 = ps.Worker(name="W1")
    w2 = ps.Worker(name="W2")
    t1.add_required_resource(ps.SelectWorkers(list_of_workers=[w1, w2]))
    t2.add_required_resource(w1)
    ps.ObjectiveMaximizeResourceUtilization(resource=w1)
    i2 = ps.IndicatorResourceUtilization(resource=w2)
    describe(
        pb,
        [i2],
        unique=False,
        checks=[
            ("Utilization (W1)", util_of("W1", 8)),
            ("Utilization (W2)", util_of("W2", 8)),
        ],
    )


@case
def util_cumulative_worker_with_target_and_bounds():
    pb = ps.SchedulingProblem(name="UtilCumul", horizon=6)
    t1 = ps.FixedDurationTask(name="T1", duration=3)
    t2 = ps.FixedDurationTask(name="T2", duration=3)
    cw = ps.CumulativeWorker(name="CW", size=2)
    w = ps.Worker(name="W")
    t1.add_required_resource(cw)
    t2.add_required_resource(cw)
    t1.add_required_resource(w)
    ps.TaskStartAt(task=t1, value=0)
    ps.TaskStartAt(task=t2, value=0)
    icw = ps.IndicatorResourceUtilization(resource=cw)
    iw = ps.IndicatorResourceUtilization(resource=w)
    ps.IndicatorTarget(indicator=iw, value=50)
    ps.IndicatorBounds(indicator=icw, lower_bound=0, upper_bound=100)
    describe(pb, [icw, iw], unique=False, checks=[("Utilization (W)", util_of("W", 6))])


@case
def util_horizon_one_zero_duration_task():
    pb = ps.SchedulingProblem(name="UtilZero", horizon=1)
    t1 = ps.ZeroDurationTask(name="Z1")
    w = ps.Worker(name="W")
    t1.add_required_resource(w)
    ind = ps.IndicatorResourceUtilization(resource=w)
    describe(pb, [ind], solve=False)


@case
def util_duplicate_name_error():
    pb = ps.SchedulingProblem(name="UtilDup", horizon=5)
    w = ps.Worker(name="W")
    a = ps.IndicatorResourceUtilization(resource=w)
    b = ps.IndicatorResourceUtilization(resource=w)
    describe(pb, [a, b], solve=False)


@case
def util_bad_resource_error():
    ps.SchedulingProblem(name="UtilBad", horizon=5)
    ps.IndicatorResourceUtilization(resource="not a resource")


# ------------------------------------------------------------------ tardiness
TARD = {"T1": (2, 2), "T2": (5, 0), "T3": (20, 3)}  # name -> (due date, priority)


def _tard_tasks():
    t1 = ps.FixedDurationTask(
        name="T1", duration=5, due_date=2, due_date_is_deadline=False, priority=2
    )
    t2 = ps.FixedDurationTask(
        name="T2", duration=7, due_date=5, due_date_is_deadline=False, priority=0
    )
    t3 = ps.FixedDurationTask(
        name="T3", duration=1, due_date=20, due_date_is_deadline=False, priority=3
    )
    ps.TaskStartAt(task=t1, value=0)
    ps.TaskStartAt(task=t2, value=1)
    ps.TaskStartAt(task=t3, value=4)
    return t1, t2, t3


@case
def tardiness_all_tasks():
    pb = ps.SchedulingProblem(name="TardAll")
    _tard_tasks()
    ind = ps.IndicatorTardiness()
    describe(pb, [ind], checks=[("Total tardiness", tardiness_of(TARD))])


@case
def tardiness_explicit_none():
    pb = ps.SchedulingProblem(name="TardNone", horizon=12)
    _tard_tasks()
    ind = ps.IndicatorTardiness(list_of_tasks=None)
    describe(pb, [ind], checks=[("Total tardiness", tardiness_of(TARD))])


@case
def tardiness_sublist():
    pb = ps.SchedulingProblem(name="TardSub")
    t1, t2, t3 = _tard_tasks()
    ind = ps.IndicatorTardiness(list_of_tasks=[t3, t1])
    ind2 = ps.IndicatorTardiness(list_of_tasks=[t2])
    describe(
        pb,
        [ind, ind2],
        checks=[
            ("Tardiness(T3,T1)", tardiness_of({n: TARD[n] for n in ("T3", "T1")})),
            ("Tardiness(T2)", tardiness_of({"T2": TARD["T2"]})),
        ],
    )


@case
def tardiness_empty_list():
    pb = ps.SchedulingProblem(name="TardEmpty")
    _tard_tasks()
    ind = ps.IndicatorTardiness(list_of_tasks=[])
    describe(pb, [ind], checks=[("Tardiness()", tardiness_of({}))])


@case
def tardiness_no_task_in_problem():
    pb = ps.SchedulingProblem(name="TardNoTask", horizon=3)
    ind = ps.IndicatorTardiness()
    describe(pb, [ind], checks=[("Total tardiness", tardiness_of({}))])


@case
def tardiness_optional_tasks_with_bounds_and_objective():
    pb = ps.SchedulingProblem(name="TardOpt", horizon=10)
    t1 = ps.FixedDurationTask(
        name="T1",
        duration=4,
        due_date=1,
        due_date_is_deadline=False,
        priority=5,
        optional=True,
    )
    t2 = ps.FixedDurationTask(
        name="T2", duration=3, due_date=1, due_date_is_deadline=False, priority=1
    )
    ps.TaskStartAt(task=t1, value=2)
    ind = ps.IndicatorTardiness(name="ignored name")
    ps.IndicatorBounds(indicator=ind, upper_bound=30)
    ps.ObjectiveMinimizeIndicator(target=ind)
    describe(
        pb,
        [ind],
        unique=False,
        checks=[("Total tardiness", tardiness_of({"T1": (1, 5), "T2": (1, 1)}))],
    )


@case
def tardiness_custom_name_kept_or_not():
    pb = ps.SchedulingProblem(name="TardName")
    t1, t2, t3 = _tard_tasks()
    ind = ps.IndicatorTardiness(name="MyTardiness", list_of_tasks=[t1, t2])
    describe(pb, [ind], solve=False)


@case
def tardiness_task_without_due_date_error():
    ps.SchedulingProblem(name="TardNoDue")
    ps.FixedDurationTask(name="T1", duration=5, due_date=3, due_date_is_deadline=False)
    ps.FixedDurationTask(name="T2", duration=5)
    ps.IndicatorTardiness()


@case
def tardiness_sublist_task_without_due_date_error():
    pb = ps.SchedulingProblem(name="TardNoDue2")
    t1 = ps.FixedDurationTask(name="T1", duration=5)
    try:
        ps.IndicatorTardiness(list_of_tasks=[t1])
    finally:
        print("  problem.indicators keys:", [mask(k) for k in pb.indicators])


@case
def tardiness_bad_list_error():
    ps.SchedulingProblem(name="TardBad")
    ps.IndicatorTardiness(list_of_tasks=["T1"])


@case
def tardiness_twice_duplicate_name():
    pb = ps.SchedulingProblem(name="TardTwice")
    _tard_tasks()
    a = ps.IndicatorTardiness()
    b = ps.IndicatorTardiness()
    describe(pb, [a, b], checks=[("Total tardiness", tardiness_of(TARD))])


# ------------------------------------------------------------------- flowtime
def _flow_tasks():
    t1 = ps.FixedDurationTask(name="T1", duration=2)
    t2 = ps.FixedDurationTask(name="T2", duration=3)
    t3 = ps.FixedDurationTask(name="T3", duration=1, optional=True)
    w = ps.Worker(name="W")
    for t in (t1, t2, t3):
        t.add_required_resource(w)
    return t1, t2, t3


@case
def flowtime_all_tasks():
    pb = ps.SchedulingProblem(name="FlowAll", horizon=8)
    _flow_tasks()
    ob = ps.ObjectiveMinimizeFlowtime()
    describe(pb, unique=False, checks=[("Flowtime", flowtime_of(["T1", "T2", "T3"]))])
    print("  objective:", ob.name, ob.kind, ob.weight, mask(ob._target), ob._bounds)


@case
def flowtime_explicit_none():
    pb = ps.SchedulingProblem(name="FlowNone", horizon=8)
    _flow_tasks()
    ps.ObjectiveMinimizeFlowtime(list_of_tasks=None)
    describe(pb, unique=False, checks=[("Flowtime", flowtime_of(["T1", "T2", "T3"]))])


@case
def flowtime_sublist_with_optional():
    pb = ps.SchedulingProblem(name="FlowSub", horizon=8)
    t1, t2, t3 = _flow_tasks()
    ps.ForceScheduleNOptionalTasks(list_of_optional_tasks=[t3], nb_tasks_to_schedule=1)
    ps.ObjectiveMinimizeFlowtime(list_of_tasks=[t3, t2])
    describe(pb, unique=False, checks=[("Flowtime", flowtime_of(["T3", "T2"]))])


@case
def flowtime_sublist_incremental_optimizer():
    pb = ps.SchedulingProblem(name="FlowIncr", horizon=8)
    t1, t2, t3 = _flow_tasks()
    ps.ObjectiveMinimizeFlowtime(list_of_tasks=(t1, t2))
    describe(
        pb,
        unique=False,
        checks=[("Flowtime", flowtime_of(["T1", "T2"]))],
        optimizer="incremental",
    )


@case
def flowtime_empty_list():
    pb = ps.SchedulingProblem(name="FlowEmpty", horizon=8)
    _flow_tasks()
    ps.ObjectiveMinimizeFlowtime(list_of_tasks=[])
    describe(pb, unique=False, checks=[("Flowtime", flowtime_of([]))])


@case
def flowtime_no_task_in_problem():
    pb = ps.SchedulingProblem(name="FlowNoTask", horizon=4)
    ps.ObjectiveMinimizeFlowtime()
    describe(pb, checks=[("Flowtime", flowtime_of([]))])


@case
def flowtime_extra_kwargs_ignored():
    pb = ps.SchedulingProblem(name="FlowExtra", horizon=6)
    t1, t2, t3 = _flow_tasks()
    ps.ObjectiveMinimizeFlowtime(name="whatever", weight=7, foo=1, list_of_tasks=[t1])
    describe(pb, solve=False)


@case
def flowtime_bad_items_error():
    ps.SchedulingProblem(name="FlowBad", horizon=6)
    ps.ObjectiveMinimizeFlowtime(list_of_tasks=[1, 2])


@case
def flowtime_not_iterable_error():
    ps.SchedulingProblem(name="FlowBad2", horizon=6)
    ps.ObjectiveMinimizeFlowtime(list_of_tasks=3)


@case
def flowtime_twice_duplicate_error():
    pb = ps.SchedulingProblem(name="FlowTwice", horizon=6)
    _flow_tasks()
    ps.ObjectiveMinimizeFlowtime()
    try:
        ps.ObjectiveMinimizeFlowtime()
    finally:
        print("  problem.indicators keys:", [mask(k) for k in pb.indicators])
        print("  problem.objectives keys:", [mask(k) for k in pb.objectives])


@case
def flowtime_and_tardiness_and_utilization_multi_objective():
    pb = ps.SchedulingProblem(name="Multi", horizon=9)
    t1 = ps.FixedDurationTask(
        name="T1", duration=2, due_date=1, due_date_is_deadline=False, priority=1
    )
    t2 = ps.FixedDurationTask(
        name="T2", duration=3, due_date=2, due_date_is_deadline=False, priority=2
    )
    w = ps.Worker(name="W")
    t1.add_required_resource(w)
    t2.add_required_resource(w)
    tard = ps.IndicatorTardiness()
    util = ps.IndicatorResourceUtilization(resource=w)
    ps.ObjectiveMinimizeFlowtime()
    ps.ObjectiveMinimizeIndicator(target=tard, weight=2)
    describe(
        pb,
        [tard, util],
        unique=False,
        checks=[
            ("Total tardiness", tardiness_of({"T1": (1, 1), "T2": (2, 2)})),
            ("Utilization (W)", util_of("W", 9)),
            ("Flowtime", flowtime_of(["T1", "T2"])),
        ],
    )


def main():
    for fn in CASES:
        print(f"=== {fn.__name__}")
        try:
            fn()
        except BaseException as exc:  # noqa: BLE001
            tb = traceback.extract_tb(exc.__traceback__)
            # file of the innermost library frame (frame *names* are not behaviour:
            # a comprehension may or may not have its own frame)
            where = [
                os.path.basename(f.filename)
                for f in tb
                if os.sep + "processscheduler" + os.sep in f.filename
            ]
            print(f"  ERROR {type(exc).__name__}: {mask(exc)}")
            print("  raised in:", where[-1] if where else "<outside library>")


if __name__ == "__main__":
    main()
